"""PM - program model: every module under /repo/pycoin parsed to ast, with
qualified functions / classes, import resolution, MRO and normalised text.

Nothing from pycoin is ever imported or executed."""
from __future__ import annotations

import ast
import hashlib
import os


class Undecided(Exception):
    """the code no longer has the shape a rule knows how to read: the rule gives NO verdict (neither holds nor violated)"""


class AnalysisError(Exception):
    """An anchor vanished or an idiom is not recognised: the run must end with exit 2."""


REPO = os.environ.get("VERIF_REPO", "/repo")


class FuncInfo:
    def __init__(self, qualname, node, module, cls=None, parent=None):
        self.qualname = qualname      # pycoin.x.y.Class.func or pycoin.x.y.func.<inner>
        self.node = node
        self.module = module          # ModuleInfo
        self.cls = cls                # ClassInfo or None
        self.parent = parent          # enclosing FuncInfo or None
        self.name = getattr(node, "name", "<lambda>")

    @property
    def where(self):
        return "%s:%d" % (self.module.relpath, self.node.lineno)

    def params(self):
        a = self.node.args
        return [x.arg for x in a.posonlyargs + a.args] + ([a.vararg.arg] if a.vararg else []) + \
            [x.arg for x in a.kwonlyargs] + ([a.kwarg.arg] if a.kwarg else [])

    def __repr__(self):
        return "<Func %s>" % self.qualname


class ClassInfo:
    def __init__(self, qualname, node, module):
        self.qualname = qualname
        self.node = node
        self.module = module
        self.name = node.name
        self.methods = {}       # name -> FuncInfo
        self.attrs = {}         # name -> ast expr (class-level simple assignments)
        self.base_exprs = list(node.bases)
        self.bases = []         # resolved ClassInfo (repo classes only)
        self.ext_bases = []     # dotted names of non-repo bases

    def __repr__(self):
        return "<Class %s>" % self.qualname


class ModuleInfo:
    def __init__(self, name, path, relpath, tree, source):
        self.name = name
        self.path = path
        self.relpath = relpath
        self.tree = tree
        self.source = source
        self.imports = {}       # local name -> ("module", modname) | ("name", modname, attr)
        self.functions = {}     # top-level name -> FuncInfo
        self.classes = {}       # top-level name -> ClassInfo
        self.assigns = {}       # top-level name -> list of ast value exprs (in order)
        self.is_package = path.endswith("__init__.py")

    def __repr__(self):
        return "<Module %s>" % self.name


def _module_name(relpath):
    p = relpath[:-3]
    if p.endswith("/__init__"):
        p = p[: -len("/__init__")]
    return p.replace("/", ".")


class Program:
    def __init__(self, repo=None):
        self.repo = repo or REPO
        self.modules = {}
        self.functions = {}   # qualname -> FuncInfo (all, nested included)
        self.classes = {}     # qualname -> ClassInfo
        self.consulted = set()
        self._load()

    # ------------------------------------------------------------------ load
    def _load(self):
        root = os.path.join(self.repo, "pycoin")
        if not os.path.isdir(root):
            raise AnalysisError("no pycoin package under %s" % self.repo)
        for dirpath, dirnames, filenames in os.walk(root):
            dirnames[:] = sorted(d for d in dirnames if d != "__pycache__")
            for fn in sorted(filenames):
                if not fn.endswith(".py"):
                    continue
                path = os.path.join(dirpath, fn)
                rel = os.path.relpath(path, self.repo)
                src = open(path, encoding="utf8").read()
                try:
                    tree = ast.parse(src, filename=rel)
                except SyntaxError as e:
                    raise AnalysisError("cannot parse %s: %s" % (rel, e))
                m = ModuleInfo(_module_name(rel), path, rel, tree, src)
                self.modules[m.name] = m
        for m in self.modules.values():
            self._index_module(m)
        for c in self.classes.values():
            self._resolve_bases(c)

    def _index_module(self, m):
        for st in m.tree.body:
            self._index_stmt(m, st, top=True)
        # nested definitions
        for st in ast.walk(m.tree):
            pass

    def _index_stmt(self, m, st, top):
        if isinstance(st, (ast.Import, ast.ImportFrom)):
            self._index_import(m, st)
        elif isinstance(st, (ast.FunctionDef, ast.AsyncFunctionDef)):
            fi = FuncInfo("%s.%s" % (m.name, st.name), st, m)
            m.functions[st.name] = fi
            self._register_func(fi)
        elif isinstance(st, ast.ClassDef):
            ci = ClassInfo("%s.%s" % (m.name, st.name), st, m)
            m.classes[st.name] = ci
            self.classes[ci.qualname] = ci
            for b in st.body:
                if isinstance(b, (ast.FunctionDef, ast.AsyncFunctionDef)):
                    fi = FuncInfo("%s.%s" % (ci.qualname, b.name), b, m, cls=ci)
                    ci.methods[b.name] = fi
                    self._register_func(fi)
                elif isinstance(b, ast.Assign):
                    for t in b.targets:
                        if isinstance(t, ast.Name):
                            ci.attrs[t.id] = b.value
                elif isinstance(b, ast.AnnAssign) and isinstance(b.target, ast.Name) and b.value is not None:
                    ci.attrs[b.target.id] = b.value
        elif isinstance(st, ast.Assign):
            for t in st.targets:
                if isinstance(t, ast.Name):
                    m.assigns.setdefault(t.id, []).append(st.value)
        elif isinstance(st, ast.AnnAssign):
            if isinstance(st.target, ast.Name) and st.value is not None:
                m.assigns.setdefault(st.target.id, []).append(st.value)
        elif isinstance(st, (ast.If, ast.Try)):
            for sub in ast.iter_child_nodes(st):
                if isinstance(sub, ast.stmt):
                    self._index_stmt(m, sub, top)
                elif isinstance(sub, ast.ExceptHandler):
                    for s2 in sub.body:
                        self._index_stmt(m, s2, top)

    def _register_func(self, fi):
        self.functions[fi.qualname] = fi
        # nested functions and lambdas
        counter = [0]

        def visit(node, parent):
            for ch in ast.iter_child_nodes(node):
                if isinstance(ch, (ast.FunctionDef, ast.AsyncFunctionDef)):
                    sub = FuncInfo("%s.%s" % (parent.qualname, ch.name), ch, parent.module, cls=None, parent=parent)
                    self.functions[sub.qualname] = sub
                    visit(ch, sub)
                elif isinstance(ch, ast.Lambda):
                    counter[0] += 1
                    sub = FuncInfo("%s.<lambda%d>" % (parent.qualname, counter[0]), ch, parent.module, parent=parent)
                    self.functions[sub.qualname] = sub
                    visit(ch, sub)
                elif isinstance(ch, ast.ClassDef):
                    # methods of a class defined inside a function (e.g. the native Optimizations mix-ins)
                    for mth in ch.body:
                        if isinstance(mth, (ast.FunctionDef, ast.AsyncFunctionDef)):
                            sub = FuncInfo("%s.%s.%s" % (parent.qualname, ch.name, mth.name), mth, parent.module, cls=None, parent=parent)
                            self.functions[sub.qualname] = sub
                            visit(mth, sub)
                else:
                    visit(ch, parent)
        visit(fi.node, fi)

    def _index_import(self, m, st):
        if isinstance(st, ast.Import):
            for a in st.names:
                local = a.asname or a.name.split(".")[0]
                target = a.name if a.asname else a.name.split(".")[0]
                m.imports[local] = ("module", target)
        else:
            base = st.module or ""
            if st.level:
                pkg = m.name if m.is_package else m.name.rsplit(".", 1)[0]
                parts = pkg.split(".")
                if st.level > 1:
                    parts = parts[: len(parts) - (st.level - 1)]
                base = ".".join(parts + ([st.module] if st.module else []))
            for a in st.names:
                local = a.asname or a.name
                m.imports[local] = ("name", base, a.name)

    def _resolve_bases(self, c):
        for b in c.base_exprs:
            t = self.resolve_expr_static(c.module, b)
            if isinstance(t, ClassInfo):
                c.bases.append(t)
            else:
                c.ext_bases.append(ast.unparse(b))

    # --------------------------------------------------------------- lookup
    def module(self, relpath_or_name):
        name = relpath_or_name
        if name.endswith(".py"):
            name = _module_name(name)
        m = self.modules.get(name)
        if m is None:
            raise AnalysisError("anchor module %s not found" % relpath_or_name)
        self.consulted.add(m.name)
        return m

    def func(self, relpath, dotted):
        """func('pycoin/ecdsa/Generator.py', 'Generator.verify') -> FuncInfo (AnalysisError if missing)."""
        m = self.module(relpath)
        q = "%s.%s" % (m.name, dotted)
        f = self.functions.get(q)
        if f is None:
            # inherited method?
            parts = dotted.split(".")
            if len(parts) == 2 and parts[0] in m.classes:
                f = self.lookup_method(m.classes[parts[0]], parts[1])
        if f is None:
            parts = dotted.split(".")
            outer = None
            for k_ in range(len(parts) - 1, 0, -1):        # any enclosing level that is still a function of the module
                outer = self.functions.get("%s.%s" % (m.name, ".".join(parts[:k_])))
                if outer is not None:
                    break
            if outer is not None:
                # a closure: it may have moved, with the code around it, into a helper of the same module
                cands = [g for q2, g in self.functions.items() if g.module is m and g.parent is not None and q2.endswith("." + parts[-1])]
                if len(cands) == 1:
                    f = cands[0]
                else:
                    raise Undecided("the closure %s of %s is no longer inside it (%d functions of that name in the module): no verdict" % (parts[-1], ".".join(parts[:-1]), len(cands)))
        if f is None:
            raise AnalysisError("anchor function %s:%s not found" % (relpath, dotted))
        self.consulted.add(f.module.name)
        return f

    def cls(self, relpath, name):
        m = self.module(relpath)
        c = m.classes.get(name)
        if c is None:
            raise AnalysisError("anchor class %s:%s not found" % (relpath, name))
        return c

    def mro(self, c):
        # C3 linearisation over repo classes
        def merge(seqs):
            res = []
            seqs = [list(s) for s in seqs if s]
            while seqs:
                for s in seqs:
                    h = s[0]
                    if not any(h in t[1:] for t in seqs):
                        break
                else:
                    raise AnalysisError("inconsistent MRO for %s" % c.qualname)
                res.append(h)
                seqs = [[x for x in t if x is not h] for t in seqs]
                seqs = [t for t in seqs if t]
            return res
        return [c] + merge([self.mro(b) for b in c.bases] + [list(c.bases)])

    def lookup_method(self, c, name):
        for k in self.mro(c):
            if name in k.methods:
                return k.methods[name]
        return None

    def lookup_class_attr(self, c, name):
        for k in self.mro(c):
            if name in k.attrs:
                return k, k.attrs[name]
        return None, None

    def subclasses(self, c):
        return [k for k in self.classes.values() if c in self.mro(k) and k is not c]

    def resolve_import(self, m, local):
        """Resolve an imported local name to ModuleInfo / FuncInfo / ClassInfo / ('const', module, name) / None."""
        imp = m.imports.get(local)
        if imp is None:
            return None
        if imp[0] == "module":
            return self.modules.get(imp[1])
        _, modname, attr = imp
        sub = self.modules.get("%s.%s" % (modname, attr))
        tm = self.modules.get(modname)
        if tm is not None:
            r = self.resolve_global(tm, attr)
            if r is not None:
                return r
        return sub

    def resolve_global(self, m, name, _depth=0):
        if _depth > 8:
            return None
        if name in m.classes:
            return m.classes[name]
        if name in m.functions:
            return m.functions[name]
        if name in m.assigns:
            return ("const", m, name)
        if name in m.imports:
            imp = m.imports[name]
            if imp[0] == "module":
                return self.modules.get(imp[1])
            _, modname, attr = imp
            tm = self.modules.get(modname)
            if tm is not None:
                r = self.resolve_global(tm, attr, _depth + 1)
                if r is not None:
                    return r
            return self.modules.get("%s.%s" % (modname, attr))
        return None

    def resolve_expr_static(self, m, e):
        """Resolve Name / dotted Attribute to a repo entity without evaluation."""
        if isinstance(e, ast.Name):
            return self.resolve_global(m, e.id)
        if isinstance(e, ast.Attribute):
            base = self.resolve_expr_static(m, e.value)
            if isinstance(base, ModuleInfo):
                r = self.resolve_global(base, e.attr)
                if r is None:
                    r = self.modules.get("%s.%s" % (base.name, e.attr))
                return r
            if isinstance(base, ClassInfo):
                f = self.lookup_method(base, e.attr)
                if f:
                    return f
                k, v = self.lookup_class_attr(base, e.attr)
                if v is not None:
                    return self.resolve_expr_static(k.module, v)
        if isinstance(e, ast.Subscript):
            # tuple[int|None, ...] style generic bases
            return None
        return None

    # ----------------------------------------------------------------- misc
    def digest(self, modnames=None):
        h = hashlib.sha256()
        for n in sorted(modnames or self.consulted):
            m = self.modules.get(n)
            if m:
                h.update(n.encode())
                h.update(m.source.encode())
        return h.hexdigest()[:16]


def norm(node):
    """Normalised text of an ast node (position independent)."""
    return ast.unparse(node)


def walk_no_nested(node):
    """ast.walk that does not descend into nested function / class / lambda bodies."""
    stack = [node]
    first = True
    while stack:
        n = stack.pop()
        yield n
        for ch in ast.iter_child_nodes(n):
            if isinstance(ch, (ast.FunctionDef, ast.AsyncFunctionDef, ast.ClassDef, ast.Lambda)) and not first:
                continue
            stack.append(ch)
        first = False


def body_nodes(func_node):
    """All nodes in a function body, excluding nested defs."""
    for st in func_node.body if not isinstance(func_node, ast.Lambda) else [func_node.body]:
        if isinstance(st, (ast.FunctionDef, ast.AsyncFunctionDef, ast.ClassDef)):
            continue
        stack = [st]
        while stack:
            n = stack.pop()
            yield n
            for ch in ast.iter_child_nodes(n):
                if isinstance(ch, (ast.FunctionDef, ast.AsyncFunctionDef, ast.ClassDef, ast.Lambda)):
                    continue
                stack.append(ch)


def strip_docstring(body):
    if body and isinstance(body[0], ast.Expr) and isinstance(body[0].value, ast.Constant) and isinstance(body[0].value.value, str):
        return body[1:]
    return body
