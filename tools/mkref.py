#!/usr/bin/env python3
"""mkref.py <relpath> <dotted> [refname] ... : print a cleaned transcription of a /repo function (annotations, docstrings,
comments and exception messages removed) to be reviewed against the specification and pasted into /verif/spec/ref_*.py.
Only used while WRITING the reference files; the checks never call it."""
import ast
import sys
sys.path.insert(0, "/verif")
from sa.pm import Program

p = Program()
args = sys.argv[1:]
if args and args[0] == "--modules":
    # every function (methods and nested functions included) of the given modules, named q__<dotted with __>
    new = []
    for rel in args[1:]:
        m = p.module(rel)
        for q, f in sorted(p.functions.items(), key=lambda kv: kv[1].node.lineno if kv[1].module is m else 0):
            if f.module is m and not isinstance(f.node, ast.Lambda):
                dotted = q[len(m.name) + 1:]
                new += [rel, dotted, "q__" + dotted.replace(".", "__")]
    args = new
while args:
    rel, dotted = args[0], args[1]
    name = dotted.replace(".", "_")
    args = args[2:]
    if args and not args[0].endswith(".py"):
        name = args[0]
        args = args[1:]
    f = p.func(rel, dotted)
    node = ast.parse(ast.unparse(f.node)).body[0]
    node.name = name
    node.decorator_list = []
    node.returns = None
    for fn in ast.walk(node):
        if isinstance(fn, (ast.FunctionDef, ast.Lambda)):
            for a in fn.args.args + fn.args.kwonlyargs + fn.args.posonlyargs + ([fn.args.vararg] if fn.args.vararg else []) + ([fn.args.kwarg] if fn.args.kwarg else []):
                a.annotation = None
            if isinstance(fn, ast.FunctionDef):
                fn.returns = None
    for n in ast.walk(node):
        if isinstance(n, (ast.FunctionDef, ast.ClassDef)) and n.body and isinstance(n.body[0], ast.Expr) and isinstance(n.body[0].value, ast.Constant) and isinstance(n.body[0].value.value, str):
            n.body = n.body[1:] or [ast.Pass()]
        if isinstance(n, ast.Raise) and isinstance(n.exc, ast.Call):
            n.exc.args = []
            n.exc.keywords = []
    class T(ast.NodeTransformer):
        def visit_AnnAssign(self, n):
            if n.value is None:
                return None
            return ast.copy_location(ast.Assign([n.target], n.value), n)
    node = T().visit(node)
    ast.fix_missing_locations(node)
    print("# %s :: %s" % (rel, dotted))
    print(ast.unparse(node))
    print()
    print()
