"""Transcription of every function of pycoin/satoshi/der.py as of the reviewed tree (see DESIGN.md section 12).
NEVER IMPORTED OR EXECUTED: parsed and compared in canonical form (sa/sym.py) with the functions in /repo."""


_CONSTS = {

}


# pycoin/satoshi/der.py :: encode_integer
def q__encode_integer(r):
    assert r >= 0
    h = '%x' % r
    if len(h) % 2:
        h = '0' + h
    s = binascii.unhexlify(h.encode('utf8'))
    if ord(s[:1]) <= 127:
        return b'\x02' + bytes([len(s)]) + s
    else:
        return b'\x02' + bytes([len(s) + 1]) + b'\x00' + s


# pycoin/satoshi/der.py :: encode_sequence
def q__encode_sequence(*encoded_pieces):
    total_len = sum([len(p) for p in encoded_pieces])
    return b'0' + encode_length(total_len) + b''.join(encoded_pieces)


# pycoin/satoshi/der.py :: remove_sequence
def q__remove_sequence(string):
    if not string.startswith(b'0'):
        raise UnexpectedDER()
    length, lengthlength = read_length(string[1:])
    endseq = 1 + lengthlength + length
    return (string[1 + lengthlength:endseq], string[endseq:])


# pycoin/satoshi/der.py :: remove_integer
def q__remove_integer(string, use_broken_open_ssl_mechanism=False):
    if not string.startswith(b'\x02'):
        raise UnexpectedDER()
    length, llen = read_length(string[1:])
    if len(string) < 1 + llen + length:
        raise UnexpectedDER()
    numberbytes = string[1 + llen:1 + llen + length]
    rest = string[1 + llen + length:]
    if length == 0:
        raise UnexpectedDER()
    v = int(binascii.hexlify(numberbytes), 16)
    if ord(numberbytes[:1]) >= 128:
        if not use_broken_open_ssl_mechanism:
            v -= 1 << 8 * length
    return (v, rest)


# pycoin/satoshi/der.py :: encode_length
def q__encode_length(length):
    assert length >= 0
    if length < 128:
        return bytes([length])
    h = '%x' % length
    if len(h) % 2:
        h = '0' + h
    b = binascii.unhexlify(h)
    llen = len(b)
    return bytes([128 | llen]) + b


# pycoin/satoshi/der.py :: read_length
def q__read_length(string):
    if len(string) == 0:
        raise UnexpectedDER()
    s0 = ord(string[:1])
    if not s0 & 128:
        return (s0 & 127, 1)
    llen = s0 & 127
    if llen > len(string) - 1:
        raise UnexpectedDER()
    return (int(binascii.hexlify(string[1:1 + llen]), 16), 1 + llen)


# pycoin/satoshi/der.py :: sigencode_der
def q__sigencode_der(r, s):
    return encode_sequence(encode_integer(r), encode_integer(s))


# pycoin/satoshi/der.py :: sigdecode_der
def q__sigdecode_der(sig_der, use_broken_open_ssl_mechanism=True):
    rs_strings, remainder = remove_sequence(sig_der)
    if remainder and (not use_broken_open_ssl_mechanism):
        raise UnexpectedDER()
    r, rest = remove_integer(rs_strings, use_broken_open_ssl_mechanism=use_broken_open_ssl_mechanism)
    s, remainder = remove_integer(rest, use_broken_open_ssl_mechanism=use_broken_open_ssl_mechanism)
    if remainder and (not use_broken_open_ssl_mechanism):
        raise UnexpectedDER()
    return (r, s)
