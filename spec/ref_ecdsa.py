"""Reference transcriptions for C01 (ECDSA sign / verify / recover).  NEVER IMPORTED OR EXECUTED: parsed and compared
in canonical form (sa/sym.py) with the functions in /repo.  Written from the tree after the fixes 91117e8 / 506fa4f and
reviewed against SEC1 4.1.3 / 4.1.4 / 4.1.6 (r, s in [1, n-1]; u1 = z/s, u2 = r/s; R = u1*G + u2*Q, R != O,
accept iff R.x mod n == r; signing: r = (kG).x mod n, s = k^-1 (z + r d) mod n, retry on r == 0 or s == 0; recovery:
Q = r^-1 (s R - z G)) and RFC 6979 section 3.2 (steps a-h, bits2int / bits2octets with HMAC of the chosen hash)."""


# pycoin/ecdsa/Generator.py :: Generator.verify
def gn_verify(self, public_pair, val, sig):
    order = self._order
    if val == 0:
        return False
    r, s = sig
    if r < 1 or r >= order or s < 1 or (s >= order):
        return False
    s_inverse = self.inverse(s)
    u1 = val * s_inverse
    u2 = r * s_inverse
    point = u1 * self + u2 * self.Point(*public_pair)
    if point == self._infinity:
        return False
    v = point[0] % order
    return v == r


# pycoin/ecdsa/Generator.py :: Generator.sign_with_recid
def gn_sign_with_recid(self, secret_exponent, val, gen_k=None):
    if val == 0:
        raise ValueError()
    if gen_k is None:
        gen_k = deterministic_generate_k
    n = self._order
    k = gen_k(n, secret_exponent, val)
    while True:
        p1 = k * self
        r = p1[0] % n
        s = self.inverse(k) * (val + secret_exponent * r % n) % n
        if r != 0 and s != 0:
            recid = p1[1] & 1
            if p1[0] > n:
                recid += 2
            return (r, s, recid)
        k += 1
        if k >= n:
            k = 1


# pycoin/ecdsa/Generator.py :: Generator.sign
def gn_sign(self, secret_exponent, val, gen_k=None):
    r, s, _ = self.sign_with_recid(secret_exponent, val, gen_k)
    return (r, s)


# pycoin/ecdsa/Generator.py :: Generator.inverse
def gn_inverse(self, a):
    assert self._order is not None
    return self.inverse_mod(a, self._order)


# pycoin/ecdsa/Generator.py :: Generator.possible_public_pairs_for_signature
# pycoin/ecdsa/Generator.py :: Generator.possible_public_pairs_for_signature
def gn_possible_public_pairs(self, value, signature, y_parity=None):
    r, s = signature
    order = self._order
    if value == 0 or s < 1 or s >= order or (r % order == 0):
        return []
    try:
        points = self.points_for_x(r)
    except ValueError:
        return []
    points_list = list(points)
    if y_parity is not None:
        if y_parity & 1:
            points_list = points_list[1:]
        else:
            points_list = points_list[:1]
    inv_r = self.inverse(r)
    s_over_r = s * inv_r
    minus_E_over_r = -(inv_r * value) * self
    try:
        return [s_over_r * p + minus_E_over_r for p in points_list]
    except ValueError:
        return []


# pycoin/ecdsa/Generator.py :: Generator.points_for_x
# pycoin/ecdsa/Generator.py :: Generator.points_for_x
def gn_points_for_x(self, x):
    p = self._p
    if not 0 <= x < p:
        raise ValueError()
    alpha = (pow(x, 3, p) + self._a * x + self._b) % p
    y0 = self.modular_sqrt(alpha)
    if y0 == 0:
        raise ValueError()
    p0, p1 = [self.Point(x, _) for _ in (y0, p - y0)]
    if y0 & 1 == 0:
        return (p0, p1)
    return (p1, p0)


# pycoin/ecdsa/rfc6979.py :: deterministic_generate_k
def rfc_generate_k(generator_order, secret_exponent, val, hash_f=hashlib.sha256):
    n = generator_order
    bln = n.bit_length()
    order_size = (bln + 7) // 8
    hash_size = hash_f().digest_size
    v = b'\x01' * hash_size
    k = b'\x00' * hash_size
    priv = secret_exponent.to_bytes(order_size, 'big')
    shift = 8 * hash_size - bln
    if shift > 0:
        val >>= shift
    if val >= n:
        val -= n
    h1 = val.to_bytes(order_size, 'big')
    k = hmac.new(k, v + b'\x00' + priv + h1, hash_f).digest()
    v = hmac.new(k, v, hash_f).digest()
    k = hmac.new(k, v + b'\x01' + priv + h1, hash_f).digest()
    v = hmac.new(k, v, hash_f).digest()
    while 1:
        t = bytearray()
        while len(t) < order_size:
            v = hmac.new(k, v, hash_f).digest()
            t.extend(v)
        k1 = int.from_bytes(bytes(t), 'big')
        k1 >>= len(t) * 8 - bln
        if k1 >= 1 and k1 < n:
            return k1
        k = hmac.new(k, v + b'\x00', hash_f).digest()
        v = hmac.new(k, v, hash_f).digest()


# pycoin/key/Key.py :: Key.sign
def key_sign(self, h):
    if not self.is_private():
        raise RuntimeError()
    val = from_bytes_32(h)
    r, s = self._generator.sign(self.secret_exponent(), val)
    return sigencode_der(r, s)


# pycoin/key/Key.py :: Key.verify
def key_verify(self, h, sig):
    try:
        val = from_bytes_32(h)
        pubkey = self.public_pair()
        return self._generator.verify(pubkey, val, sigdecode_der(sig, use_broken_open_ssl_mechanism=False))
    except (UnexpectedDER, ValueError):
        return False


