"""C12 - script integers, pushes, script text: structural obligations (DESIGN.md section 4, C12)."""
from __future__ import annotations

import ast

from sa.core import Ob
from sa.pm import AnalysisError, norm, body_nodes
from sa import gi, df, ru
from sa.gi import IntSet, iv, GuardWalker, SymbolicAtomizer, FiniteAtomizer, FinSet, reach_sets
from sa.interp import FuncVal, InstanceVal, Frame, Unknown

VSS = "pycoin/vm/ScriptStreamer.py"
BSS = "pycoin/coins/bitcoin/ScriptStreamer.py"
VST = "pycoin/vm/ScriptTools.py"
INT = "pycoin/satoshi/IntStreamer.py"
U, E = IntSet.all(), IntSet.empty()


def _streamer(ctx):
    it = ctx.interp
    ss = it.get("pycoin.coins.bitcoin.ScriptStreamer", "BitcoinScriptStreamer")
    if not isinstance(ss, InstanceVal):
        raise AnalysisError("BitcoinScriptStreamer could not be resolved (%r)" % (ss,))
    return ss


# ------------------------------------------------------------------ C12.1
def c12_1(ctx):
    ss = _streamer(ctx)
    const_enc = ss.attrs["const_encoder"]
    sized_enc = ss.attrs["sized_encoder"]
    var_enc = ss.attrs["variable_encoder"]
    dec = ss.attrs["decoder"]
    # constants
    want_const = {b"": 0, b"\x81": 79}
    for n in range(1, 17):
        want_const[bytes([n])] = 80 + n
    got_const = {bytes(k): v[0] if isinstance(v, (bytes, bytearray)) else v for k, v in const_enc.items()}
    ctx.check(got_const == want_const, "const-pushes", BSS + ":1", "constant pushes are %s; consensus: OP_0 for empty, OP_1..OP_16 for 1..16, OP_1NEGATE for 0x81"
              % {k.hex(): v for k, v in got_const.items() if want_const.get(k) != v}, sample={"const_encoder": {k.hex(): v for k, v in sorted(got_const.items())[:6]}})
    # sized
    ok = sorted(sized_enc) == list(range(1, 76))
    bad = []
    for size, f in sized_enc.items():
        ob = f.closure_vars().get("opcode_bin") if isinstance(f, FuncVal) else None
        if ob != bytes([size]):
            bad.append((size, ob))
    ctx.check(ok and not bad, "sized-pushes", VSS + ":1", "direct pushes: sizes %s, wrong opcodes %s; consensus: opcode n pushes the next n bytes for n in 1..75" % (sorted(sized_enc)[:3], bad[:3]))
    for size in range(1, 76):
        d = dec.get(size)
        cv = d.closure_vars() if isinstance(d, FuncVal) else {}
        ctx.check(cv.get("size") == size and d.name == "constant_size_opcode_handler", "sized-decoder-%d" % size, VSS + ":1", "decoder of opcode %d reads %r bytes" % (size, cv.get("size")),
                  what="sized:%d" % size, sample=None)
    # variable: encoder ranges vs decoder non-minimal sets
    want_var = [(255, 76, "<B", 1), (65535, 77, "<H", 2), (4294967295, 78, "<L", 4)]
    prev_max = 0
    ve = sorted(var_enc, key=lambda t: t[0])
    ctx.check([(m, o) for m, o, f in ve] == [(m, o) for m, o, s, z in want_var], "variable-encoder-table", BSS + ":1", "PUSHDATA encoder table is %s; consensus: (255, 76), (65535, 77), (2^32-1, 78)" % [(m, o) for m, o, f in ve])
    for (mx, op, encf), (wm, wo, wfmt, wsz) in zip(ve, want_var):
        d = dec.get(op)
        cv = d.closure_vars() if isinstance(d, FuncVal) else {}
        decf = cv.get("dec_f")
        dcv = decf.closure_vars() if isinstance(decf, FuncVal) else {}
        ctx.check(dcv.get("struct_data") == wfmt and dcv.get("struct_size") == wsz, "length-field:%d" % op, BSS + ":1",
                  "opcode %d decodes its length field with %r (%r bytes); consensus: %s" % (op, dcv.get("struct_data"), dcv.get("struct_size"), wfmt))
        canon = norm(encf.node.body) if isinstance(encf, FuncVal) and isinstance(encf.node, ast.Lambda) else None
        ctx.check(canon == "struct.pack('%s', d)" % wfmt, "length-field-encoder:%d" % op, BSS + ":1", "opcode %d encodes its length field with `%s`" % (op, canon))
        ms = cv.get("min_size")
        ctx.check(ms == prev_max, "minimal-threshold:%d" % op, VSS + ":1",
                  "decoder of opcode %d judges sizes <= %r non-minimal, but the encoder chooses it for sizes in (%d, %d]: size %s would be %s"
                  % (op, ms, prev_max, mx, prev_max + 1 if isinstance(ms, int) and ms > prev_max else prev_max,
                     "rejected as non-minimal" if isinstance(ms, int) and ms > prev_max else "accepted although a shorter push exists"),
                  sample={"opcode": op, "encoder_range": "(%d, %d]" % (prev_max, mx), "decoder_non_minimal": "<= %r or sized" % (ms,)})
        sv = cv.get("sized_values")
        ctx.check(sorted(sv or []) == list(range(1, 76)), "sized-values:%d" % op, VSS + ":1", "decoder of opcode %d does not treat sizes 1..75 as non-minimal" % op)
        prev_max = mx
    # the comparison forms in the source
    f = ctx.func(VSS, "ScriptStreamer.compile_push_data")
    loops = [n for n in body_nodes(f.node) if isinstance(n, ast.For)]
    if len(loops) != 1:
        raise AnalysisError("compile_push_data: expected one loop over the variable encoders")
    const = ru.const_resolver(ctx, f, {"max_size"})
    w = GuardWalker(SymbolicAtomizer(ru.subject({"size", "len(data)"}, df.single_defs(f.node)), const))
    w.block(loops[0].body, True)
    brk = None
    for n in body_nodes(loops[0]):
        if isinstance(n, ast.If) and any(isinstance(s, ast.Break) for s in n.body):
            brk = gi.sat_set(w.atomize(n.test), U, E)
    ctx.check(brk == iv(None, ("s", 0)), "encoder-choice", ctx.where(f), "compile_push_data selects an opcode for sizes %s of its maximum; must be size <= max_size (a size equal to the maximum would get the next wider opcode, a non-minimal push)"
              % (brk.fmt("max_size") if brk is not None else None), sample={"subject": "size", "selected_when": brk.fmt("max_size") if brk is not None else None})
    txt = norm(f.node)
    ctx.check(txt.index("if data in self.const_encoder:") < txt.index("if size in self.sized_encoder:") < txt.index("for max_size, opcode, enc_f in self.variable_encoder:"), "encoder-order", ctx.where(f), "compile_push_data does not try constants, then direct pushes, then PUSHDATA opcodes")
    ctx.check("return bytes([opcode]) + enc_f(len(data)) + data" in txt, "encoder-layout", ctx.where(f), "compile_push_data does not emit opcode || length || data")
    mv = ctx.func(VSS, "make_variable_handler")
    inner = ctx.p.functions.get(mv.qualname + ".f")
    const = ru.const_resolver(ctx, inner, {"min_size"})
    w = GuardWalker(SymbolicAtomizer(ru.subject({"size"}), const))
    w.run(inner.node.body)
    nm = [(st, r) for st, r in w.visits if "non_minimal_data_handler(" in norm(st)]
    ok = len(nm) == 1
    if ok:
        s = gi.sat_set(nm[0][1], U, E, assume={"size in sized_values": False, "verify_minimal_data": True, "size is None": False})
        ok = s == iv(None, ("s", 0))
        ops = gi.f_opaques(nm[0][1])
        ok = ok and "verify_minimal_data" in ops and "size in sized_values" in ops
    ctx.check(ok, "decoder-threshold-comparison", ctx.where(inner), "the PUSHDATA decoder does not flag exactly `size in sized_values or size <= min_size` under verify_minimal_data")
    # the constructor chains min_size = previous max_size
    init = ctx.func(VSS, "ScriptStreamer.__init__")
    lp = [n for n in body_nodes(init.node) if isinstance(n, ast.For) and "opcode_variable_list" in norm(n.iter)]
    ok = False
    for l in lp:
        for st in l.body:
            if isinstance(st, ast.Assign) and norm(st.targets[0]) == "min_size":
                ok = norm(st.value) == "max_size"
    ctx.check(ok, "threshold-chaining", ctx.where(init), "ScriptStreamer.__init__ does not set each opcode's non-minimal threshold to the previous opcode's maximum size")
    sv = ctx.func(VSS, "make_sized_handler")
    inner = ctx.p.functions.get(sv.qualname + ".constant_size_opcode_handler")
    ctx.check("if verify_minimal_data and data in const_values:" in norm(inner.node), "sized-non-minimal", ctx.where(inner), "a direct push of a value that has a constant opcode (OP_1..OP_16, OP_1NEGATE) is not flagged as non-minimal")


# ------------------------------------------------------------------ C12.2
def c12_2(ctx):
    for maker, name in (("make_sized_handler", "constant_size_opcode_handler"), ("make_variable_handler", "f")):
        mk = ctx.func(VSS, maker)
        inner = ctx.p.functions.get("%s.%s" % (mk.qualname, name))
        if inner is None:
            raise AnalysisError("%s.%s not found" % (maker, name))
        const = ru.const_resolver(ctx, inner, {"size"})
        w = GuardWalker(SymbolicAtomizer(ru.subject({"len(data)"}), const))
        ex = w.run(inner.node.body)
        none_ret = lambda e: e.kind == "return" and isinstance(e.value, ast.Tuple) and isinstance(e.value.elts[1], ast.Constant) and e.value.elts[1].value is None
        gb = ru.guarded_by_subject(inner.node, w)
        s = E
        for e in ex:
            if none_ret(e) and gb(e):
                s = s | gi.sat_set(e.cond, U, E)
        ctx.check(s == iv(None, ("s", -1)), "truncated-payload:%s" % maker, ctx.where(inner), "%s reports malformed data for payload lengths %s of the announced size; must be exactly len(data) < size" % (maker, s.fmt("size")),
                  sample={"function": inner.qualname, "malformed_when": s.fmt("size")})
    mv = ctx.func(VSS, "make_variable_handler")
    inner = ctx.p.functions.get(mv.qualname + ".f")
    w = GuardWalker(ru.opaque)
    ex = w.run(inner.node.body)
    ok = any(e.kind == "return" and isinstance(e.value, ast.Tuple) and isinstance(e.value.elts[1], ast.Constant) and e.value.elts[1].value is None and "size is None" in gi.f_opaques(e.cond) for e in ex)
    ctx.check(ok, "truncated-length-field-observed", ctx.where(inner), "the PUSHDATA handler does not turn a failed length-field read (size None) into malformed data")
    g = ctx.func(VSS, "ScriptStreamer.get_opcode")
    ctx.check("is_ok = data is not None" in norm(g.node), "malformed-flag", ctx.where(g), "get_opcode does not report is_ok = (data is not None) for data opcodes")
    e = ctx.func("pycoin/vm/VM.py", "VM.eval_instruction")
    w = GuardWalker(ru.opaque)
    ex = w.run(e.node.body)
    ok = any(x.kind == "raise" and gi.f_equiv(x.cond, ("not", ("op", "is_ok"))) for x in ex)
    ctx.check(ok, "malformed-raises", ctx.where(e), "eval_instruction does not raise exactly when the instruction is malformed")
    # the length-field decoder: a short read must be detected for EVERY short length (0..struct_size-1 bytes)
    mk = ctx.func(BSS, "make_opcode_variable_list")
    dec = ctx.p.functions.get(mk.qualname + ".make_variable_decoder.decode_OP_PUSHDATA")
    if dec is None:
        raise AnalysisError("decode_OP_PUSHDATA not found")
    tries = [n for n in body_nodes(dec.node) if isinstance(n, ast.Try)]
    ok = False
    how = None
    for t in tries:
        unp = [c for s in t.body for c in ast.walk(s) if isinstance(c, ast.Call) and norm(c.func) == "struct.unpack"]
        if unp and norm(unp[0].args[0]) == "struct_data" and "pc:pc + struct_size" in norm(unp[0].args[1]):
            hs = [h for h in t.handlers if h.type is None or {"Exception", "struct.error", "error"} & {df.dotted(x) for x in (h.type.elts if isinstance(h.type, ast.Tuple) else [h.type])}]
            for h in hs:
                for s in h.body:
                    if isinstance(s, ast.Return) and isinstance(s.value, ast.Tuple) and isinstance(s.value.elts[0], ast.Constant) and s.value.elts[0].value is None:
                        ok = True
                        how = "struct.unpack of exactly struct_size bytes inside try; failure -> size None"
    if not ok:
        const = ru.const_resolver(ctx, dec, {"struct_size"})
        lens = set()
        for n in body_nodes(dec.node):
            if isinstance(n, ast.Call) and norm(n.func) == "len":
                lens.add(norm(n))
        for lt in lens:
            w = GuardWalker(SymbolicAtomizer(ru.subject({lt}), const))
            ex = w.run(dec.node.body)
            s = E
            for e in ex:
                if e.kind == "return" and isinstance(e.value, ast.Tuple) and isinstance(e.value.elts[0], ast.Constant) and e.value.elts[0].value is None:
                    s = s | gi.sat_set(e.cond, U, E)
            if iv(0, ("s", -1)).issubset(s):
                ok = True
                how = "explicit guard %s < struct_size -> size None" % lt
    ctx.check(ok, "truncated-length-field", ctx.where(dec), "decode_OP_PUSHDATA does not report every short length field (0 .. struct_size-1 bytes present) as a failed read: a script ending inside PUSHDATA2/4's length field decodes as a push",
              sample={"function": dec.qualname, "mechanism": how})


# ------------------------------------------------------------------ C12.3
def c12_3(ctx):
    it = ctx.interp
    st = it.get("pycoin.coins.bitcoin.ScriptTools", "BitcoinScriptTools")
    if not isinstance(st, InstanceVal):
        raise AnalysisError("BitcoinScriptTools unresolved")
    o2i, i2o = st.attrs["opcode_to_int"], st.attrs["int_to_opcode"]
    lst = it.get("pycoin.satoshi.opcodes", "OPCODE_LIST")
    names = [n for n, v in lst]
    dup = {n for n in names if names.count(n) > 1}
    ctx.check(not dup, "opcode-names-unique", "pycoin/satoshi/opcodes.py:1", "opcode names bound twice: %s" % sorted(dup))
    for v, name in sorted(i2o.items()):
        ctx.check(o2i.get(name) == v, "preferred-name-%d" % v, "pycoin/satoshi/opcodes.py:1", "opcode %d disassembles as %s, which compiles to %r" % (v, name, o2i.get(name)), what="name:%d:%s" % (v, name))
    from spec import opcodes as SPEC
    for v, name in SPEC.NAMES.items():
        got = i2o.get(v)
        ok = got == name or (v, got) in ((177, "OP_CHECKLOCKTIMEVERIFY"), (178, "OP_CHECKSEQUENCEVERIFY"))
        ctx.check(o2i.get(name) == v, "spec-name:%s" % name, "pycoin/satoshi/opcodes.py:1", "%s compiles to %r, consensus value %d" % (name, o2i.get(name), v), what="spec:%s" % name)
    # disassembly of data opcodes: bracketed hex for every push that carries explicit data
    f = ctx.func(VST, "ScriptTools.disassemble_for_opcode_data")
    mv = it.module(f.module.name)
    rets = df.returns_of(f.node)
    w = None
    dom = frozenset(range(256))

    def evalf(expr, v):
        env = {"self": st, "opcode": v, "data": b"\x01\x02", "opcode_str": i2o.get(v, "???")}
        val = it.eval(expr, Frame(mv, None, env))
        if isinstance(val, Unknown):
            raise ValueError("unknown")
        return bool(val)
    fa = FiniteAtomizer(dom, evalf)
    gw = GuardWalker(fa)
    ex = gw.run(f.node.body)
    hexed = set()
    for e in ex:
        if e.kind == "return" and isinstance(e.value, ast.BinOp) and "hexlify(data)" in norm(e.value):
            hexed |= set(gi.sat_set(e.cond, fa.univ(), fa.empty()).m)
    want = set(range(1, 79))
    ctx.check(hexed == want, "disassemble-data-opcodes", ctx.where(f), "disassembly prints the pushed data for opcodes %s; every direct push and PUSHDATA1/2/4 (1..78) must print [hex], and nothing else (difference %s)"
              % (_rng(hexed), _rng(hexed ^ want)), sample={"function": f.qualname, "hex_form_for": _rng(hexed)})
    ce = ctx.func(VST, "ScriptTools.compile_expression")
    txt = norm(ce.node)
    ctx.check("if (t[0], t[-1]) == ('[', ']'):" in txt and "return binascii.unhexlify(t[1:-1])" in txt and txt.index("('[', ']')") < txt.index("int(t)"), "bracket-hex-first", ctx.where(ce), "compile_expression does not decode the bracketed hex form before trying numbers")
    c = ctx.func(VST, "ScriptTools.compile")
    txt = norm(c.node)
    ctx.check("self.write_push_data([v], f)" in txt and "if t_up in self.opcode_to_int:" in txt, "compile-dispatch", ctx.where(c), "compile does not emit opcodes by table and data through the minimal push encoder")


def _rng(s):
    xs = sorted(s)
    out, i = [], 0
    while i < len(xs):
        j = i
        while j + 1 < len(xs) and xs[j + 1] == xs[j] + 1:
            j += 1
        out.append(str(xs[i]) if i == j else "%d-%d" % (xs[i], xs[j]))
        i = j + 1
    return "{" + ",".join(out) + "}"


# ------------------------------------------------------------------ C12.4
def c12_4(ctx):
    f = ctx.func(INT, "IntStreamer.int_from_script_bytes")
    w = GuardWalker(ru.opaque)
    ex = w.run(f.node.body)
    rs = [e for e in ex if e.kind == "raise"]
    want = gi.f_and(("not", ("op", "len(s) == 0")), ("op", "require_minimal"), ("op", "v == 0"), gi.f_or(("op", "len(ba) <= 1"), ("op", "ba[1] & 128 == 0")))
    ok = len(rs) == 1 and gi.f_equiv(rs[0].cond, want)
    ctx.check(ok, "minimality-rule", ctx.where(f), "int_from_script_bytes(require_minimal) does not reject exactly: top byte & 0x7f == 0 and (length <= 1 or next byte's high bit clear)",
              sample={"raise_condition": repr(rs[0].cond) if rs else None})
    defs = df.single_defs(f.node)
    txt = norm(f.node)
    ok = "ba.reverse()" in txt and "i = ba[0]" in txt and "v = i & 127" in txt and "is_negative = i & 128 > 0" in txt and "for b in ba[1:]:" in txt and "v <<= 8" in txt and "v += b" in txt and "v = -v" in txt
    ctx.check(ok, "decode-sign-magnitude", ctx.where(f), "int_from_script_bytes is not little-endian sign-magnitude (sign = top bit of last byte)")
    zero = [e for e in ex if e.kind == "return" and df.const_int(e.value) == 0]
    ctx.check(len(zero) == 1 and gi.f_equiv(zero[0].cond, ("op", "len(s) == 0")), "decode-empty-is-zero", ctx.where(f), "the empty string does not decode to 0")
    g = ctx.func(INT, "IntStreamer.int_to_script_bytes")
    w = GuardWalker(SymbolicAtomizer(ru.subject({"ba[-1]"}), df.const_int))
    ex = w.run(g.node.body)
    app = [(st, r) for st, r in w.visits if isinstance(st, ast.Expr) and norm(st.value).startswith("ba.append(128 if is_negative else 0)")]
    ok = len(app) == 1 and gi.sat_set(app[0][1], U, E) == iv(128, None)
    ctx.check(ok, "encode-sign-byte", ctx.where(g), "int_to_script_bytes does not append a sign byte exactly when the top magnitude byte is >= 128 (0x80 for negatives, 0x00 otherwise)",
              sample={"subject": "ba[-1]", "extra_byte_when": gi.sat_set(app[0][1], U, E).fmt() if app else None})
    orr = [(st, r) for st, r in w.visits if isinstance(st, ast.AugAssign) and norm(st.target) == "ba[-1]" and isinstance(st.op, ast.BitOr) and df.const_int(st.value) == 0x80]
    ok = len(orr) == 1 and gi.sat_set(orr[0][1], U, E, assume={"is_negative": True, "v < 0": True}) == iv(None, 127) and \
        ({"is_negative", "v < 0"} & set(gi.f_opaques(orr[0][1]))) and gi.sat_set(orr[0][1], U, E, assume={"is_negative": False, "v < 0": False}).is_empty()
    ctx.check(ok, "encode-sign-bit", ctx.where(g), "int_to_script_bytes does not set the sign bit in place exactly for negatives whose top byte is < 128")
    txt = norm(g.node)
    ok = "if v == 0:" in txt and "return b''" in txt and "while v >= 256:" in txt and "ba.append(v & 255)" in txt and "v >>= 8" in txt and "v = -v" in txt
    ctx.check(ok, "encode-magnitude", ctx.where(g), "int_to_script_bytes is not little-endian magnitude with 0 -> empty")


OBLIGATIONS = [
    Ob("C12.1", "push encoder ranges vs decoder non-minimal sets (constants, 1..75, PUSHDATA1/2/4)", c12_1, floor=90, engines="REG,GI,CE",
       breaks_if="data of exactly 75/76/255/256/65535/65536 bytes", exhaustive=True),
    Ob("C12.2", "truncated payload or truncated length field => malformed", c12_2, floor=6, engines="GI,DF", breaks_if="scripts ending inside a push or inside a PUSHDATA length field"),
    Ob("C12.3", "opcode table functional; data pushes disassemble to bracketed hex for opcodes 1..78", c12_3, floor=200, engines="TB,GI(finite)", breaks_if="pushes > 65535 bytes; opcode aliases", exhaustive=True),
    Ob("C12.4", "script-number codec decision tables (sign byte / sign bit / minimality)", c12_4, floor=6, engines="GI", breaks_if="magnitudes with top byte >= 128; negative zero; padded encodings"),
]
