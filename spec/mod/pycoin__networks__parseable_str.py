"""Transcription of every function of pycoin/networks/parseable_str.py as of the reviewed tree (see DESIGN.md section 12).
NEVER IMPORTED OR EXECUTED: parsed and compared in canonical form (sa/sym.py) with the functions in /repo."""


_CONSTS = {

}


# pycoin/networks/parseable_str.py :: parseable_str.__new__
def q__parseable_str____new__(cls, s):
    if isinstance(s, parseable_str):
        return s
    return str.__new__(cls, s)


# pycoin/networks/parseable_str.py :: parseable_str.__init__
def q__parseable_str____init__(self, s):
    super(str, self).__init__()
    if isinstance(s, parseable_str):
        self._cache = s._cache
    else:
        self._cache = {}


# pycoin/networks/parseable_str.py :: parseable_str.cache
def q__parseable_str__cache(self, key, f):
    if key not in self._cache:
        self._cache[key] = None
        try:
            self._cache[key] = f(self)
        except Exception:
            pass
    return self._cache[key]


# pycoin/networks/parseable_str.py :: parse_b58
def q__parse_b58(s):
    ps = parseable_str(s)
    return ps.cache('b58', a2b_base58)


# pycoin/networks/parseable_str.py :: b58_double_sha256
def q__b58_double_sha256(s):
    data = parse_b58(s)
    if data:
        data, the_hash = (data[:-4], data[-4:])
        if double_sha256(data)[:4] == the_hash:
            return data
    return None


# pycoin/networks/parseable_str.py :: parse_b58_double_sha256
def q__parse_b58_double_sha256(s):
    ps = parseable_str(s)
    return ps.cache('b58_double_sha256', b58_double_sha256)


# pycoin/networks/parseable_str.py :: parse_bech32_or_32m
def q__parse_bech32_or_32m(s):
    triple = bech32m.bech32_decode(s)
    if triple is None or triple[0] is None or triple[1] is None:
        return None
    hr_prefix = triple[0]
    data = triple[1]
    spec = triple[2]
    version = data[0]
    decoded = bech32m.convertbits(data[1:], 5, 8, False)
    decoded_data = b''.join((bytes([d]) for d in decoded or []))
    rv = (hr_prefix, version, decoded_data, spec)
    return rv


# pycoin/networks/parseable_str.py :: parse_bech32
def q__parse_bech32(s):
    ps = parseable_str(s)
    return ps.cache('bech32', parse_bech32_or_32m)


# pycoin/networks/parseable_str.py :: parse_colon_prefix
def q__parse_colon_prefix(s):
    ps = parseable_str(s)
    result = ps.cache('colon_prefix', lambda _: _.split(':', 1))
    if result and len(result) == 2:
        return result
    return None
