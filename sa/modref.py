"""Call-tree obligation: every function of the modules a property is anchored in computes what it computed on the reviewed
tree (canonical form, sa/sym.py) -- spec/mod/<module>.py holds the transcriptions (parsed, never imported).
same => holds;  a component computes something else / happens under another condition => VIOLATED;
organised differently => UNDECIDED;  function absent from the transcription (added since) => not judged;
transcribed function absent from the module (removed / renamed) => UNDECIDED."""
from __future__ import annotations

import ast
import json
import os

from .pm import AnalysisError
from . import sym

HERE = os.path.dirname(os.path.dirname(os.path.abspath(__file__)))
_TREES = {}

GENERIC_INTS = ("i", "j", "k", "n", "idx", "index", "count", "size", "length", "pos", "offset", "total", "depth", "version", "lock_time", "sequence", "hash_type", "flags", "pc", "v", "e", "r", "s", "x", "y", "p", "order")


def generic_ints(extra=None):
    def pred(t):
        if t in GENERIC_INTS or t.startswith(("len(", "ord(", "int(", "abs(")):
            return True
        return bool(extra and extra(t))
    return pred


def anchor_files(pid):
    for l in open(os.path.join(HERE, "properties.jsonl")):
        d = json.loads(l)
        if d["id"] == pid:
            return [f for f in d["anchors"]["files"] if f.endswith(".py")]
    return []


def _tree(modname):
    if modname not in _TREES:
        path = os.path.join(HERE, "spec", "mod", modname.replace(".", "__") + ".py")
        _TREES[modname] = ast.parse(open(path).read()) if os.path.exists(path) else None
    return _TREES[modname]


_MUT = {"append", "extend", "insert", "pop", "remove", "sort", "reverse", "clear", "update", "setdefault", "popitem", "add", "discard"}


def _is_cache_decorator(d):
    t = ast.unparse(d.func if isinstance(d, ast.Call) else d)
    return t.split(".")[-1] in ("lru_cache", "cache", "memoize", "memoized", "cached")


def cached_mutables(ctx, rels):
    """a memoised function hands the SAME object to every caller: when that object is a list / dict / set and a caller changes it
    in place (reverses it, appends to it), the next caller -- and the next call with the same arguments -- sees the change"""
    for rel in rels:
        try:
            m = ctx.p.module(rel)
        except AnalysisError:
            continue
        cached = {}
        for q, f in ctx.p.functions.items():
            if f.module is m and isinstance(f.node, (ast.FunctionDef, ast.AsyncFunctionDef)) and any(_is_cache_decorator(d) for d in f.node.decorator_list):
                rets = [r.value for r in ast.walk(f.node) if isinstance(r, ast.Return) and r.value is not None]
                sd = {}
                for st in ast.walk(f.node):
                    if isinstance(st, ast.Assign) and len(st.targets) == 1 and isinstance(st.targets[0], ast.Name):
                        sd.setdefault(st.targets[0].id, []).append(st.value)

                def mutable(v, depth=0):
                    if isinstance(v, (ast.List, ast.Dict, ast.Set, ast.ListComp, ast.DictComp, ast.SetComp)):
                        return True
                    if isinstance(v, ast.Call) and isinstance(v.func, ast.Name) and v.func.id in ("list", "dict", "set", "bytearray", "sorted"):
                        return True
                    if isinstance(v, ast.Name) and depth < 3:
                        return any(mutable(x, depth + 1) for x in sd.get(v.id, []))
                    return False
                if rets and any(mutable(r) for r in rets):
                    cached[f.node.name] = f
        if not cached:
            continue
        for q, g in ctx.p.functions.items():
            if g.module is not m or not isinstance(g.node, (ast.FunctionDef, ast.AsyncFunctionDef)):
                continue
            holders = {}
            for st in ast.walk(g.node):
                if isinstance(st, ast.Assign) and len(st.targets) == 1 and isinstance(st.targets[0], ast.Name) and isinstance(st.value, ast.Call):
                    fn = st.value.func
                    nm = fn.id if isinstance(fn, ast.Name) else (fn.attr if isinstance(fn, ast.Attribute) else None)
                    if nm in cached:
                        holders[st.targets[0].id] = nm
            for c in ast.walk(g.node):
                recv = None
                if isinstance(c, ast.Call) and isinstance(c.func, ast.Attribute) and c.func.attr in _MUT:
                    recv = c.func.value
                elif isinstance(c, ast.Subscript) and isinstance(c.ctx, (ast.Store, ast.Del)):
                    recv = c.value
                if recv is None:
                    continue
                src = None
                if isinstance(recv, ast.Name) and recv.id in holders:
                    src = holders[recv.id]
                elif isinstance(recv, ast.Call):
                    fn = recv.func
                    nm = fn.id if isinstance(fn, ast.Name) else (fn.attr if isinstance(fn, ast.Attribute) else None)
                    if nm in cached:
                        src = nm
                if src is not None:
                    ctx.bad("cached-mutable:%s:%s" % (src, g.node.name), "%s:%d" % (rel, c.lineno),
                            "%s changes in place (`%s`) the object returned by the memoised function %s: the cache hands the changed object to the next call with the same arguments"
                            % (q, ast.unparse(c)[:60], src))
        ctx.ok("cached-mutables:%s" % rel, nontrivial=False)


def call_tree(ctx, pid, ints=None, floor_note=True):
    rels = anchor_files(pid)
    ints = generic_ints(ints)
    cached_mutables(ctx, rels)
    from . import shared_state
    shared_state.check(ctx, rels)
    shared_state.check_aliases(ctx, rels)
    n_mod = 0
    for rel in rels:
        try:
            m = ctx.p.module(rel)
        except AnalysisError:
            ctx.undecided("module:%s" % rel, "%s:1" % rel, "anchor module %s is gone" % rel)
            continue
        tree = _tree(m.name)
        if tree is None:
            continue
        n_mod += 1
        names = {n.name for n in tree.body if isinstance(n, ast.FunctionDef)}
        seen = set()
        for q, f in sorted(ctx.p.functions.items()):
            if f.module is not m or isinstance(f.node, ast.Lambda):
                continue
            rn = "q__" + q[len(m.name) + 1:].replace(".", "__").replace("<", "").replace(">", "")
            if rn not in names:
                _judge_new_function(ctx, pid, f, q, rel, rels, ints)
                continue
            seen.add(rn)
            key = (q, "modref")
            cache = ctx.cache.setdefault("modref", {})
            if key not in cache:
                try:
                    status, details, s_ref, _ = sym.reference_status(ctx, f, tree, rn, ints)
                except Exception as e:
                    status, details = "unrecognised", [("error", "engine", "%s: %s" % (type(e).__name__, str(e)[:80]), None, 0.0)]
                cache[key] = (status, details)
            status, details = cache[key]
            where = "%s:%d" % (rel, f.node.lineno)
            if status != "same":
                ref_fn = next((n for n in tree.body if isinstance(n, ast.FunctionDef) and n.name == rn), None)
                for nm in shared_state.resets_moved_before_loop(f.node, ref_fn):
                    ctx.bad("fn:%s:reset-moved:%s" % (q.split(".", 1)[-1], nm), where,
                            "%s resets `%s` before the loop that assigns it; the reviewed function resets it after that loop and then accumulates into it: the accumulation now starts from what the last iteration left there" % (q, nm))
                for M_, N_, B_, S_ in shared_state.bypassed_overrides(ctx.p, f.node, ref_fn, is_reviewed):
                    ctx.bad("fn:%s:bypassed-override:%s" % (q.split(".", 1)[-1], M_), where,
                            "%s used to call .%s(..) and now calls .%s(..), a method added to %s since the review; %s overrides %s but not %s, so for its objects the call no longer reaches its own version (%s.%s)"
                            % (q, M_, N_, B_.qualname, S_.qualname, M_, N_, S_.qualname, M_))
                was_ = shared_state.float_ops(ref_fn)
                for sp_, node_ in sorted(shared_state.float_ops(f.node).items()):
                    if sp_ not in was_:
                        ctx.bad("fn:%s:floating-point:%s" % (q.split(".", 1)[-1], sp_), "%s:%d" % (rel, node_.lineno),
                                "%s now computes with `%s` (`%s`), which goes through a 53-bit floating-point value; the reviewed function is exact integer arithmetic: for values beyond 2**53 (scalars, coordinates, amounts) the result is rounded"
                                % (q, sp_, ast.unparse(node_)[:60]))
                for a_, d_ in shared_state.forsaken_public_attributes(f.node, ref_fn, f.cls):
                    ctx.bad("fn:%s:derived-copy:%s" % (q.split(".", 1)[-1], a_), where,
                            "%s no longer reads the public attribute self.%s; it reads self.%s, which the constructor derives from it once, while other methods still read self.%s: after self.%s is re-assigned the object follows two different values"
                            % (q, a_, d_, a_, a_))
                for nm, node in shared_state.hoisted_initialisations(f.node, ref_fn):
                    ctx.bad("fn:%s:hoisted-init:%s" % (q.split(".", 1)[-1], nm), "%s:%d" % (rel, node.lineno),
                            "%s creates `%s` once, before its loops, and fills it inside them; the reviewed function creates a new one in every iteration: the elements of one iteration are still there in the next" % (q, nm))
            if status == "same":
                ctx.ok("fn:%s" % q, nontrivial=True)
            elif status == "differs":
                for d in (details[:1] if details and details[0][0] in ("state", "source") else details[:3]):
                    ctx.bad("fn:%s:%s" % (q.split(".", 1)[-1], d[1]), where,
                            "%s computes `%s` where the reviewed tree computes `%s`" % (q, (d[3] or "")[:260], (d[2] or "")[:260]))
            else:
                ctx.undecided("fn:%s" % q, where, "%s is organised differently from its transcription (%s); no verdict"
                              % (q, "; ".join("%s %s" % (d[0], (d[2] or d[3] or "")[:70]) for d in details[:2])))
        for rn in sorted(names - seen):
            ctx.undecided("fn-gone:%s" % rn, "%s:1" % rel, "%s of %s is no longer there under that name (removed, renamed or moved): no verdict on it" % (rn[3:].replace("__", "."), rel))
    if n_mod == 0:
        raise AnalysisError("no transcribed anchor module of %s found" % pid)


def _judge_new_function(ctx, pid, f, q, rel, rels, ints):
    """a function added since the review is read inside its callers (sa/expand.py) -- except when it takes the place of a
    reviewed method of the same name (an override in a subclass or mix-in): then it is compared with the method it
    replaces for the objects of its class"""
    name = getattr(f.node, "name", "")
    is_method = f.cls is not None or (f.parent is not None and "." in q[len(f.module.name) + 1:] and f.node.args.args and f.node.args.args[0].arg in ("self", "cls"))
    if not is_method or (name.startswith("__") and name.endswith("__")):
        ctx.note("not judged on its own (added since the transcription): %s" % q)
        return
    cands = []
    for rel2 in rels:
        try:
            m2 = ctx.p.module(rel2)
        except AnalysisError:
            continue
        tree2 = _tree(m2.name)
        if tree2 is None:
            continue
        for n in tree2.body:
            if isinstance(n, ast.FunctionDef) and n.name.endswith("__" + name) and n.name.count("__") >= 2:
                cands.append((m2, tree2, n.name))
    if not cands:
        ctx.note("not judged on its own (added since the transcription): %s" % q)
        return
    where = "%s:%d" % (rel, f.node.lineno)
    results = []
    for m2, tree2, rn2 in cands:
        try:
            status, details, s_ref, _ = sym.reference_status(ctx, f, tree2, rn2, ints)
        except Exception:
            status, details = "unrecognised", []
        results.append((status, rn2, details))
        if status == "same":
            ctx.ok("override-same:%s" % q, nontrivial=True)
            return
    decisive = [r for r in results if r[0] == "differs"]
    if decisive and len(cands) == 1:
        st, rn2, details = decisive[0]
        for d in details[:2]:
            ctx.bad("override:%s:%s" % (q.split(".", 1)[-1], d[1]), where, "%s (added since the review) replaces %s for its class and computes `%s` where that method computes `%s`"
                    % (q, rn2[3:].replace("__", "."), (d[3] or "")[:240], (d[2] or "")[:240]))
        return
    ctx.undecided("override:%s" % q, where, "%s was added since the review and has the name of the reviewed method(s) %s: for objects of its class it replaces them, and it is not the same function; no verdict"
                  % (q, ", ".join(r[1][3:].replace("__", ".") for r in results[:3])))


def transcribed_count(pid):
    n = 0
    for rel in anchor_files(pid):
        t = _tree(rel[:-3].replace("/", ".").replace(".__init__", ""))
        if t is not None:
            n += sum(1 for x in t.body if isinstance(x, ast.FunctionDef))
    return n


def obligation(pid, ints=None):
    from .core import Ob
    return Ob(pid + ".T", "call tree: every function of the anchor modules computes what its reviewed transcription computes (canonical forms; organised differently => undecided)",
              lambda ctx: call_tree(ctx, pid, ints), floor=max(1, transcribed_count(pid)), engines="SYM",
              breaks_if="inputs reaching the named function's changed component")


def ref_name(fi):
    return "q__" + fi.qualname[len(fi.module.name) + 1:].replace(".", "__").replace("<", "").replace(">", "")


def is_reviewed(fi):
    """the function is part of the reviewed transcription of its module (or the module has none: nothing to tell apart)"""
    tree = _tree(fi.module.name)
    if tree is None:
        return True
    key = "names:" + fi.module.name
    if key not in _TREES:
        _TREES[key] = {n.name for n in tree.body if isinstance(n, ast.FunctionDef)}
    return ref_name(fi) in _TREES[key]
