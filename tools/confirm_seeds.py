#!/venv/bin/python
"""Confirm seeded changes: for every /tmp/seed/Cxx/out/k not yet in /verif/seeded, apply patch.diff to the scratch
worktree /tmp/seed/Cxx/wt, run the pinned suite (must keep all stable_pass) and demo.py (must fail), revert, run
demo.py again (must pass).  Confirmed ones are copied to /verif/seeded/Cxx-k/ with meta.json extended."""
import glob, json, os, shutil, subprocess, sys
ROOT = "/tmp/seed"
ONLY = set(sys.argv[1:])
out = []
for d in sorted(glob.glob(ROOT + "/C*/out/*")):
    pid = d.split("/")[3]; k = os.path.basename(d)
    if ONLY and pid not in ONLY:
        continue
    if not os.path.exists(d + "/patch.diff") or not os.path.exists(d + "/demo.py"):
        continue
    dest = "/verif/seeded/%s-%s" % (pid, k)
    if os.path.exists(dest + "/meta.json"):
        continue
    wt = "%s/%s/wt" % (ROOT, pid)
    if not os.path.isdir(wt):
        continue
    subprocess.run(["git", "-C", wt, "checkout", "--", "."], check=True)
    env = dict(os.environ, PYTHONPATH=wt)
    clean = subprocess.run(["/venv/bin/python", d + "/demo.py"], env=env, cwd=d, capture_output=True, timeout=600).returncode
    ap = subprocess.run(["git", "-C", wt, "apply", d + "/patch.diff"], capture_output=True)
    if ap.returncode != 0:
        print(pid, k, "PATCH DOES NOT APPLY", ap.stderr.decode()[:200]); continue
    suite = subprocess.run(["/verif/tools/baseline.py", wt], capture_output=True, text=True)
    mutated = subprocess.run(["/venv/bin/python", d + "/demo.py"], env=env, cwd=d, capture_output=True, timeout=600).returncode
    subprocess.run(["git", "-C", wt, "checkout", "--", "."], check=True)
    ok = clean == 0 and mutated != 0 and suite.returncode == 0
    print(pid, k, "confirmed" if ok else "REJECTED", "clean=%d mutated=%d suite=%s" % (clean, mutated, suite.stdout.strip().splitlines()[0] if suite.stdout else suite.returncode))
    sys.stdout.flush()
    if ok:
        os.makedirs(dest, exist_ok=True)
        shutil.copy(d + "/patch.diff", dest + "/patch.diff")
        shutil.copy(d + "/demo.py", dest + "/demo.py")
        try:
            meta = json.load(open(d + "/meta.json"))
        except Exception:
            meta = {}
        meta["property"] = pid
        meta["confirmed"] = {"suite": suite.stdout.strip().splitlines()[0], "demo_exit_clean": clean, "demo_exit_with_patch": mutated,
                             "how": "git apply on a scratch worktree of /repo HEAD; /verif/tools/baseline.py <worktree>; PYTHONPATH=<worktree> /venv/bin/python demo.py"}
        json.dump(meta, open(dest + "/meta.json", "w"), indent=1)
