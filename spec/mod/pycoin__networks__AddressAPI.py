"""Transcription of every function of pycoin/networks/AddressAPI.py as of the reviewed tree (see DESIGN.md section 12).
NEVER IMPORTED OR EXECUTED: parsed and compared in canonical form (sa/sym.py) with the functions in /repo."""


_CONSTS = {

}


# pycoin/networks/AddressAPI.py :: AddressAPI.__init__
def q__AddressAPI____init__(self, contracts, address_prefix=None, pay_to_script_prefix=None, bech32_hrp=None):
    self._contracts = contracts
    self._address_prefix = address_prefix
    self._pay_to_script_prefix = pay_to_script_prefix
    self._bech32_hrp = bech32_hrp
    self.b2a = b2a_hashed_base58


# pycoin/networks/AddressAPI.py :: AddressAPI.for_p2pkh
def q__AddressAPI__for_p2pkh(self, h160):
    if self._address_prefix is None:
        return None
    return self.b2a(self._address_prefix + h160)


# pycoin/networks/AddressAPI.py :: AddressAPI.for_p2sh
def q__AddressAPI__for_p2sh(self, h160):
    if self._pay_to_script_prefix is None:
        return None
    return self.b2a(self._pay_to_script_prefix + h160)


# pycoin/networks/AddressAPI.py :: AddressAPI.for_p2pkh_wit
def q__AddressAPI__for_p2pkh_wit(self, h160):
    if self._bech32_hrp is None:
        return None
    assert len(h160) == 20
    return bech32m.encode(self._bech32_hrp, 0, h160)


# pycoin/networks/AddressAPI.py :: AddressAPI.for_p2sh_wit
def q__AddressAPI__for_p2sh_wit(self, hash256):
    if self._bech32_hrp is None:
        return None
    assert len(hash256) == 32
    return bech32m.encode(self._bech32_hrp, 0, hash256)


# pycoin/networks/AddressAPI.py :: AddressAPI.for_p2tr
def q__AddressAPI__for_p2tr(self, synthetic_key):
    if self._bech32_hrp is None:
        return None
    return bech32m.encode(self._bech32_hrp, 1, synthetic_key)


# pycoin/networks/AddressAPI.py :: AddressAPI.for_p2s
def q__AddressAPI__for_p2s(self, script):
    return self.for_p2sh(hash160(script))


# pycoin/networks/AddressAPI.py :: AddressAPI.for_p2s_wit
def q__AddressAPI__for_p2s_wit(self, script):
    return self.for_p2sh_wit(hashlib.sha256(script).digest())


# pycoin/networks/AddressAPI.py :: AddressAPI.for_script
def q__AddressAPI__for_script(self, script):
    info = self._contracts.info_for_script(script)
    return self.for_script_info(info)


# pycoin/networks/AddressAPI.py :: AddressAPI.for_script_info
def q__AddressAPI__for_script_info(self, script_info):
    type_ = script_info.get('type')
    if type_ == 'p2pkh':
        return self.for_p2pkh(script_info['hash160'])
    if type_ == 'p2pkh_wit':
        return self.for_p2pkh_wit(script_info['hash160'])
    if type_ == 'p2sh_wit':
        return self.for_p2sh_wit(script_info['hash256'])
    if type_ == 'p2pk':
        h160 = hash160(script_info['sec'])
        return self.for_p2pkh(h160)
    if type_ == 'p2sh':
        return self.for_p2sh(script_info['hash160'])
    if type_ == 'p2tr':
        return self.for_p2tr(script_info['synthetic_key'])
    if type_ == 'nulldata':
        return '(nulldata %s)' % b2h(script_info['data'])
    return '???'


# pycoin/networks/AddressAPI.py :: make_address_api
def q__make_address_api(contracts, address_prefix=None, pay_to_script_prefix=None, bech32_hrp=None, **_ignored):
    return AddressAPI(contracts=contracts, address_prefix=address_prefix, pay_to_script_prefix=pay_to_script_prefix, bech32_hrp=bech32_hrp)
