"""C19 - hash primitives: structural obligations (DESIGN.md section 4, C19)."""
from __future__ import annotations

import ast

from sa.core import Ob
from sa.pm import AnalysisError, Undecided, norm, body_nodes
from sa import gi, df, ru, sym
from sa.gi import GuardWalker, FiniteAtomizer, FinSet

RMD = "pycoin/contrib/ripemd160.py"
HASH = "pycoin/encoding/hash.py"
BLOOM = "pycoin/bloomfilter.py"

# ---- RIPEMD-160 specification (Dobbertin, Bosselaers, Preneel 1996), written from the paper's definitions
RHO = [7, 4, 13, 1, 10, 6, 15, 3, 12, 0, 9, 5, 2, 14, 11, 8]
PI = [(9 * i + 5) % 16 for i in range(16)]
SHIFT = [
    [11, 14, 15, 12, 5, 8, 7, 9, 11, 13, 14, 15, 6, 7, 9, 8],
    [12, 13, 11, 15, 6, 9, 9, 7, 12, 15, 11, 13, 7, 8, 7, 7],
    [13, 15, 14, 11, 7, 7, 6, 8, 13, 14, 13, 12, 5, 5, 6, 9],
    [14, 11, 12, 14, 8, 6, 5, 5, 15, 12, 15, 14, 9, 9, 8, 6],
    [15, 12, 13, 13, 9, 5, 8, 6, 14, 11, 12, 11, 8, 6, 5, 5],
]


def spec_tables():
    ml, mr = [], []
    cur_l = list(range(16))
    cur_r = list(PI)
    for rnd in range(5):
        ml.extend(cur_l)
        mr.extend(cur_r)
        cur_l = [RHO[x] for x in cur_l]
        cur_r = [RHO[x] for x in cur_r]
    rl = [SHIFT[j >> 4][ml[j]] for j in range(80)]
    rr = [SHIFT[j >> 4][mr[j]] for j in range(80)]
    import math

    def isqrt_scaled(n):      # floor(2^30 * sqrt(n))
        return math.isqrt(n << 60)

    def icbrt_scaled(n):      # floor(2^30 * cbrt(n))
        x = n << 90
        r = round(x ** (1 / 3))
        while r ** 3 > x:
            r -= 1
        while (r + 1) ** 3 <= x:
            r += 1
        return r
    kl = [0] + [isqrt_scaled(n) for n in (2, 3, 5, 7)]
    kr = [icbrt_scaled(n) for n in (2, 3, 5, 7)] + [0]
    return ml, mr, rl, rr, kl, kr


IV = (0x67452301, 0xEFCDAB89, 0x98BADCFE, 0x10325476, 0xC3D2E1F0)


_REF = None


def _ref():
    global _REF
    if _REF is None:
        import os
        _REF = ast.parse(open(os.path.join(os.path.dirname(os.path.dirname(os.path.abspath(__file__))), "spec", "ref_hash.py")).read())
    return _REF


def _not_bytes(*prefixes):
    """integer typing for the hash functions: every name is an integer except the byte strings / sequences named"""
    return lambda t: not t.startswith(prefixes)


# ------------------------------------------------------------------ C19.1
def c19_1(ctx):
    it = ctx.interp
    m = ctx.p.module(RMD)
    ml, mr, rl, rr, kl, kr = spec_tables()
    for name, want in (("ML", ml), ("MR", mr), ("RL", rl), ("RR", rr), ("KL", kl), ("KR", kr)):
        got = it.get(m.name, name)
        diff = [i for i, (a, b) in enumerate(zip(got, want)) if a != b] if isinstance(got, list) and len(got) == len(want) else "length"
        ctx.check(got == want, "table:%s" % name, "%s:1" % RMD, "RIPEMD-160 table %s differs from the specification at entries %s" % (name, diff if diff == "length" else diff[:6]),
                  sample={"table": name, "entries": len(want), "derived_from": "rho/pi permutations and the 5x16 shift table" if name[0] in "MR" and name != "KR" else "2^30 * roots of 2,3,5,7"})
    ints = _not_bytes("block", "data", "state", "fin", "pad", "struct", "b''", "x[", "[")
    isub = sym.value_leaf(lambda e: norm(e) == "i", df.const_int)
    sym.against_reference(ctx, ctx.func(RMD, "fi"), _ref(), "fi", "round-functions", ints, leaf=isub)
    sym.against_reference(ctx, ctx.func(RMD, "rol"), _ref(), "rol", "rol", ints)
    sym.against_reference(ctx, ctx.func(RMD, "compress"), _ref(), ["compress", "compress_v2"], "compress", ints)
    sym.against_reference(ctx, ctx.func(RMD, "ripemd160"), _ref(), ["ripemd160", "ripemd160_v2"], "merkle-damgard", ints)
    _padding_table(ctx)


def _padding_table(ctx):
    """Merkle-Damgard strengthening of RIPEMD-160: for every message length the final blocks are the unprocessed tail, 0x80, zero
    fill and the bit length as 8 little-endian bytes, a whole number of 64-byte blocks (one, or two when fewer than 9 bytes are
    free).  Decision table: the expression the final loop runs over (symbolic store, in terms of `data`) evaluated by the abstract
    interpreter for every length 0..130 (all 64 tail lengths, both block counts)."""
    import struct as _struct
    from sa.interp import Frame, Unknown, PyRaise
    f = ctx.func(RMD, "ripemd160")
    dp = f.params()[0]
    w = sym.walk(ctx, f)
    loops = [n for n in ast.walk(f.node) if isinstance(n, ast.For)]
    loops.sort(key=lambda n: n.lineno)
    if len(loops) < 2 or not w.loop_in.get(id(loops[-1])):
        raise Undecided("ripemd160: expected a loop over the full blocks and a loop over the final blocks")
    st = w.loop_in[id(loops[-1])][0]
    w.env = st.env
    it_expr = w.sub(loops[-1].iter)
    fin = None
    for c in ast.walk(it_expr):
        if isinstance(c, ast.Call) and isinstance(c.func, ast.Name) and c.func.id == "len" and len(c.args) == 1 and dp in {x.id for x in ast.walk(c.args[0]) if isinstance(x, ast.Name)}:
            fin = c.args[0]
            break
    if fin is None or not norm(it_expr).startswith("range("):
        raise Undecided("ripemd160: the final loop does not run over range(len(<final blocks>) ...); this rule does not read it")
    it_ = ctx.interp
    mv = it_.module(f.module.name)
    bad = []
    for n in range(0, 131):
        data = bytes((i * 7 + 1) & 0xFF or 1 for i in range(n))
        try:
            val = it_.eval(fin, Frame(mv, None, {dp: data}))
        except PyRaise as e:
            bad.append((n, "raises %s" % e))
            continue
        if isinstance(val, Unknown) or not isinstance(val, (bytes, bytearray)):
            raise Undecided("ripemd160: the final blocks `%s` are not evaluable for a given message length" % norm(fin)[:60])
        t = n % 64
        blocks = 1 if t <= 55 else 2
        want = data[n - t:] + b"\x80" + b"\x00" * (64 * blocks - t - 9) + _struct.pack("<Q", 8 * n)
        if bytes(val) != want:
            bad.append((n, "%d bytes, expected %d" % (len(val), len(want)) if len(val) != len(want) else "content differs"))
    ctx.check(not bad, "padding-table", ctx.where(f, loops[-1]), "ripemd160: the final blocks `%s` are wrong for message lengths %s: tail + 0x80 + zero fill + bit length must be one or two whole 64-byte blocks"
              % (norm(fin)[:70], bad[:4]), sample={"lengths": 131, "final_blocks": norm(fin)[:100]})


# ------------------------------------------------------------------ C19.2
def c19_2(ctx):
    ints = _not_bytes("data", "item", "self.filter_bytes", "self.MASK")
    tail = sym.value_leaf(lambda e: norm(e) == "len(data) % 4", df.const_int, truthy_is_nonzero=True)
    sym.SET_UNIVERSE = gi.iv(0, 3)           # the subject is a remainder modulo 4
    try:
        sym.against_reference(ctx, ctx.func(BLOOM, "murmur3"), _ref(), "murmur3", "murmur3", lambda t: not t.startswith("data") or t.startswith("data["), leaf=tail)
    finally:
        sym.SET_UNIVERSE = None
    sym.against_reference(ctx, ctx.func(BLOOM, "BloomFilter.__init__"), _ref(), "bloom_init", "bloom-size", ints)
    sym.against_reference(ctx, ctx.func(BLOOM, "BloomFilter.add_item"), _ref(), "bloom_add_item", "bip37-seeds", ints)
    sym.against_reference(ctx, ctx.func(BLOOM, "BloomFilter._index_for_bit"), _ref(), "bloom_index_for_bit", "bloom-bit-address", ints)
    sym.against_reference(ctx, ctx.func(BLOOM, "BloomFilter.set_bit"), _ref(), "bloom_set_bit", "bloom-set", ints)
    sym.against_reference(ctx, ctx.func(BLOOM, "BloomFilter.check_bit"), _ref(), "bloom_check_bit", "bloom-check", ints)
    cv = ctx.interp.get(ctx.p.module(BLOOM).name, "BloomFilter")
    ctx.check(ctx.interp.getattr(cv, "MASK_ARRAY") == [1, 2, 4, 8, 16, 32, 64, 128], "bloom-masks", "%s:1" % BLOOM, "MASK_ARRAY is %s, not [1<<i]" % (repr(ctx.interp.getattr(cv, "MASK_ARRAY"))[:80],))


# ------------------------------------------------------------------ C19.4
def c19_4(ctx):
    none = lambda t: False
    sym.against_reference(ctx, ctx.func(HASH, "get_best_ripemd160"), _ref(), "get_best_ripemd160", "selection", none)
    f = ctx.func(HASH, "get_best_ripemd160")
    w = sym.walk(ctx, f)
    bad = [e for e in w.exits if e.kind != "return" or e.value is None or (isinstance(e.value, ast.Constant) and e.value.value is None)]
    ctx.check(not bad, "selection-total", ctx.where(f), "get_best_ripemd160 has an exit that does not return a hash factory: %s" % [(e.kind, norm(e.value) if e.value is not None else None) for e in bad])
    sym.against_reference(ctx, ctx.func(HASH, "_PurePythonRIPEMD160.__init__"), _ref(), "pure_init", "fallback-delegates", none)
    sym.against_reference(ctx, ctx.func(HASH, "_PurePythonRIPEMD160.digest"), _ref(), "pure_digest", "fallback-digest", none)
    # padding and block chaining have ONE implementation, ripemd160() of the bundled module (its final blocks are decided for every
    # length by C19.1): nothing outside that module calls its compression function on blocks it padded itself
    outside = []
    for q_, g_ in sorted(ctx.p.functions.items()):
        if g_.module.relpath == RMD or isinstance(g_.node, ast.Lambda):
            continue
        if "compress" not in g_.module.source:
            continue
        for c_ in ast.walk(g_.node):
            if isinstance(c_, ast.Call) and (norm(c_.func).endswith("ripemd160.compress") or (isinstance(c_.func, ast.Name) and c_.func.id == "compress" and g_.module.imports.get("compress", (None, ""))[1:2] == ("pycoin.contrib.ripemd160",))):
                outside.append((g_, c_))
    for g_, c_ in outside:
        ctx.bad("one-padding-implementation:%s" % g_.qualname.split(".", 1)[-1], ctx.where(g_, c_), "%s calls the RIPEMD-160 compression function on a block it assembled itself: a second copy of the padding rule (the 55 / 56 byte boundary) beside ripemd160()" % g_.qualname)
    ctx.ok("one-padding-implementation", sample={"calls_of_compress_outside_the_module": len(outside)}, nontrivial=False)
    sym.against_reference(ctx, ctx.func(HASH, "ripemd160_native"), _ref(), "ripemd160_native", "native", none)
    sym.against_reference(ctx, ctx.func(HASH, "hash160"), _ref(), "hash160", "hash160", none)
    sym.against_reference(ctx, ctx.func(HASH, "double_sha256"), _ref(), "double_sha256", "double-sha256", none)
    m = ctx.p.module(HASH)
    ctx.check([norm(v) for v in m.assigns.get("ripemd160", [])] == ["get_best_ripemd160()"], "selection-bound", "%s:1" % HASH, "module-level ripemd160 is not get_best_ripemd160()")


# ------------------------------------------------------------------ C19.3
def c19_3(ctx):
    """width hygiene (sa/wh.py): the 32-bit algorithms are written with unbounded integers, so every right shift -- the low half of
    a rotate, the xor-shifts of the finaliser -- must act on a value already brought back to 32 bits, and the hash handed out is
    reduced"""
    from sa import wh
    # the detector's positive and negative example (a rule that expects no finding keeps one that must be found)
    probe = ast.parse("def rot(x, r):\n    return ((x << r) | (x >> (32 - r))) & 0xFFFFFFFF\n\ndef ok(x, r):\n    return ((x << r) | ((x & 0xFFFFFFFF) >> (32 - r))) & 0xFFFFFFFF\n")
    pm = wh.Module(probe)
    got = pm.run()
    if [g[0] for g in got] != ["rot"] or pm.ret_state.get("ok") != wh.CLEAN:
        raise AnalysisError("C19.3: the width-hygiene detector failed its self-check (%s)" % ([g[0] for g in got],))
    for rel, must_return_clean in ((RMD, ("rol",)), (BLOOM, ("murmur3",))):
        m = ctx.p.module(rel)
        wm = wh.Module(m.tree)
        finds = wm.run()
        for fname, node, msg in finds:
            ctx.bad("unreduced-shift:%s" % fname, "%s:%d" % (rel, node.lineno), "%s: %s" % (fname, msg))
        ctx.check(wm.shifts > 0 or rel != RMD, "shifts-analysed:%s" % rel, rel + ":1", "no right shift found in %s" % rel, sample={"module": rel, "right_shifts_analysed": wm.shifts, "findings": len(finds)})
        for fn in must_return_clean:
            if fn not in wm.funcs:
                ctx.undecided("result-reduced:%s" % fn, rel + ":1", "%s is no longer a function of %s" % (fn, rel))
                continue
            st = wm.ret_state.get(fn)
            if st == wh.CLEAN:
                ctx.ok("result-reduced:%s" % fn, sample={"function": fn, "result": "reduced to 32 bits on every return"})
            elif st == wh.DIRTY:
                ctx.bad("result-reduced:%s" % fn, "%s:%d" % (rel, wm.funcs[fn].lineno), "%s returns a value that is %s on some path: the hash handed out must be reduced to 32 bits (a seed of 2^32 or more, or a negative one, shows through)" % (fn, wh.NAMES[wh.DIRTY]))
            else:
                ctx.undecided("result-reduced:%s" % fn, "%s:%d" % (rel, wm.funcs[fn].lineno), "%s: the analysis cannot tell whether the returned value is reduced to 32 bits" % fn)


OBLIGATIONS = [
    Ob("C19.1", "RIPEMD-160 tables re-derived from the specification; round functions, rotation, compression and padding equal the reference transcription (canonical forms)", c19_1, floor=10, engines="TB,SYM", exhaustive=True,
       breaks_if="any input when the pure-Python fallback is active (lengths at multiples of 64 for the padding)"),
    Ob("C19.2", "MurmurHash3_x86_32 and the BIP37 seed / bit addressing equal the reference transcription (canonical forms; tail switch decided on len & 3)", c19_2, floor=7, engines="SYM,GI",
       breaks_if="items with len % 4 in {1,2,3}; any seed"),
    Ob("C19.3", "width hygiene: every right shift of the 32-bit algorithms acts on a value reduced to 32 bits; rol / murmur3 hand out reduced values", c19_3, floor=4, engines="WH",
       breaks_if="second and later RIPEMD-160 blocks (state above 2^32); seeds of 2^32 and more; inputs shorter than 4 bytes"),
    Ob("C19.4", "implementation selection falls through to a factory on every path; compound hashes", c19_4, floor=8, engines="SYM", breaks_if="56-byte inputs under the fallback"),
]
