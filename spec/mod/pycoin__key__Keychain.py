"""Transcription of every function of pycoin/key/Keychain.py as of the reviewed tree (see DESIGN.md section 12).
NEVER IMPORTED OR EXECUTED: parsed and compared in canonical form (sa/sym.py) with the functions in /repo."""


_CONSTS = {

}


# pycoin/key/Keychain.py :: Keychain.__init__
def q__Keychain____init__(self, sqlite3_db=None):
    self._db = sqlite3_db or sqlite3.connect(':memory:')
    self._db.text_factory = type(b'')
    self._init_tables()
    self.clear_secrets()


# pycoin/key/Keychain.py :: Keychain.commit
def q__Keychain__commit(self):
    self._db.commit()


# pycoin/key/Keychain.py :: Keychain._exec_sql
def q__Keychain___exec_sql(self, sql, *args):
    c = self._db.cursor()
    c.execute(textwrap.dedent(sql), args)
    return c


# pycoin/key/Keychain.py :: Keychain._exec_sql_list
def q__Keychain___exec_sql_list(self, SQL):
    for sql in SQL:
        self._exec_sql(sql)


# pycoin/key/Keychain.py :: Keychain._init_table_hash160
def q__Keychain___init_table_hash160(self):
    self._exec_sql_list(['create table if not exists HASH160 (hash160 blob primary key, path text, fingerprint blob)'])


# pycoin/key/Keychain.py :: Keychain._init_table_p2s
def q__Keychain___init_table_p2s(self):
    self._exec_sql_list(['create table if not exists P2S (hash160 blob primary key, hash256 blob, script blob)', 'create index if not exists P2S_H256 on P2S (hash256)'])


# pycoin/key/Keychain.py :: Keychain._init_tables
def q__Keychain___init_tables(self):
    self._init_table_hash160()
    self._init_table_p2s()
    self.commit()


# pycoin/key/Keychain.py :: Keychain.add_keys_path
def q__Keychain__add_keys_path(self, keys, path):
    total = 0
    for key in keys:
        fingerprint = key.fingerprint()
        h160 = key.subkey_for_path(path).hash160()
        self._exec_sql('insert or ignore into HASH160 values (?, ?, ?)', h160, path, fingerprint)
        total += 1
    return total


# pycoin/key/Keychain.py :: Keychain.add_key_paths
def q__Keychain__add_key_paths(self, key, path_iterator=['']):
    fingerprint = key.fingerprint()
    total = 0
    for path in path_iterator:
        h160 = key.subkey_for_path(path).hash160()
        self._exec_sql('insert or ignore into HASH160 values (?, ?, ?)', h160, path, fingerprint)
        total += 1
    return total


# pycoin/key/Keychain.py :: Keychain.path_for_hash160
def q__Keychain__path_for_hash160(self, h160):
    SQL = 'select fingerprint, path from HASH160 where hash160 = ?'
    c = self._exec_sql(SQL, h160)
    r = c.fetchone()
    if r is not None:
        return (r[0], r[1].decode('utf8'))
    return None


# pycoin/key/Keychain.py :: Keychain.add_p2s_script
def q__Keychain__add_p2s_script(self, script):
    h160 = _hash160(script)
    h256 = hashlib.sha256(script).digest()
    self._exec_sql('insert or ignore into P2S values (?, ?, ?)', h160, h256, script)


# pycoin/key/Keychain.py :: Keychain.add_p2s_scripts
def q__Keychain__add_p2s_scripts(self, scripts):
    for script in scripts:
        self.add_p2s_script(script)
    self.commit()


# pycoin/key/Keychain.py :: Keychain.p2s_for_hash
def q__Keychain__p2s_for_hash(self, hash160or256):
    SQL = 'select script from P2S where hash160 = ? or hash256 = ?'
    c = self._exec_sql(SQL, hash160or256, hash160or256)
    r = c.fetchone()
    if r is not None:
        return r[0]
    return None


# pycoin/key/Keychain.py :: Keychain._add_key_to_cache
def q__Keychain___add_key_to_cache(self, key):
    secret_exponent = key.secret_exponent()
    public_pair = key.public_pair()
    for is_compressed in (True, False):
        h160 = key.hash160(is_compressed=is_compressed)
        self._secret_exponent_cache[h160] = (secret_exponent, public_pair, is_compressed, key._generator)


# pycoin/key/Keychain.py :: Keychain.get
def q__Keychain__get(self, h160, default=None):
    v = self.p2s_for_hash(h160)
    if v:
        return v
    if h160 not in self._secret_exponent_cache:
        result = self.path_for_hash160(h160)
        if result:
            fingerprint, path = result
            for key in self._secrets.get(fingerprint, []):
                subkey = key.subkey_for_path(path)
                self._add_key_to_cache(subkey)
    return self._secret_exponent_cache.get(h160, default)


# pycoin/key/Keychain.py :: Keychain.add_secret
def q__Keychain__add_secret(self, private_key):
    self._secrets[private_key.fingerprint()].add(private_key)
    self._add_key_to_cache(private_key)


# pycoin/key/Keychain.py :: Keychain.add_secrets
def q__Keychain__add_secrets(self, private_keys):
    for key in private_keys:
        self.add_secret(key)


# pycoin/key/Keychain.py :: Keychain.has_secrets
def q__Keychain__has_secrets(self):
    return len(self._secrets) + len(self._secret_exponent_cache) > 0


# pycoin/key/Keychain.py :: Keychain.clear_secrets
def q__Keychain__clear_secrets(self):
    self._secrets = defaultdict(set)
    self._secret_exponent_cache = {}


# pycoin/key/Keychain.py :: Keychain.interested_hashes
def q__Keychain__interested_hashes(self):
    SQL = 'select hash160 from HASH160'
    c = self._exec_sql(SQL)
    for r in c:
        yield r[0]
    SQL = 'select hash160, hash256 from P2S'
    c = self._exec_sql(SQL)
    for r in c:
        yield r[0]
        yield r[1]
