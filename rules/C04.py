"""C04 - signature hashes: structural obligations (DESIGN.md section 4, C04)."""
from __future__ import annotations

import ast

from sa.core import Ob
from sa.pm import AnalysisError, norm, body_nodes
from sa import gi, df, ru, ct
from sa.gi import FinSet, GuardWalker, FiniteAtomizer, IntSet, SymbolicAtomizer, iv

BSC = "pycoin/coins/bitcoin/SolutionChecker.py"
SEG = "pycoin/coins/bitcoin/SegwitChecker.py"
GRS = "pycoin/coins/groestlcoin/SolutionChecker.py"
BCH = "pycoin/coins/bcash/SolutionChecker.py"
BTG = "pycoin/coins/bgold/SolutionChecker.py"
TX = "pycoin/coins/bitcoin/Tx.py"
DOM = frozenset(range(256))

NONE = {v for v in DOM if v & 0x1F == 2}
SINGLE = {v for v in DOM if v & 0x1F == 3}
ACP = {v for v in DOM if v & 0x80}
NOFORK = {v for v in DOM if not v & 0x40}


def _finite(ctx, f, pname="hash_type"):
    from sa.interp import Frame, Unknown
    it = ctx.interp
    mv = it.module(f.module.name)

    def evalf(expr, v):
        val = it.eval(expr, Frame(mv, None, {pname: v}))
        if isinstance(val, Unknown):
            raise ValueError("unknown")
        return bool(val)
    fa = FiniteAtomizer(DOM, evalf)
    w = GuardWalker(fa)
    exits = w.run(f.node.body)
    return fa, w, exits


def _set(fa, formula):
    return set(gi.sat_set(formula, fa.univ(), fa.empty()).m)


def _must(fa, formula):
    """hash types for which the formula holds whatever the opaque atoms are"""
    return set(DOM) - set(gi.sat_set(gi.f_not(formula), fa.univ(), fa.empty()).m)


def _fmt(s):
    xs = sorted(s)
    if len(xs) > 20:
        return "{%d hash types: %s...}" % (len(xs), ",".join("0x%02x" % x for x in xs[:10]))
    return "{%s}" % ",".join("0x%02x" % x for x in xs)


def _is_zero32(ctx, f, e):
    if e is None:
        return False
    t = norm(e)
    if t in ("ZERO32", "b'\\x00' * 32"):
        try:
            v = ru.eval_in_module(ctx, f.module, e)
            return v == b"\0" * 32
        except Exception:
            return False
    return False


# ------------------------------------------------------------------ C04.1
def c04_1(ctx):
    cells = 0
    for rel, cls in ((SEG, "SegwitChecker"), (GRS, "GroestlcoinSolutionChecker")):
        # hashPrevouts: zero iff ANYONECANPAY
        f = ctx.func(rel, cls + "._hash_prevouts")
        fa, w, exits = _finite(ctx, f)
        cells += fa.evaluated
        zero = set()
        for e in exits:
            if e.kind == "return" and _is_zero32(ctx, f, e.value):
                zero |= _set(fa, e.cond)
        ctx.check(zero == ACP, "prevouts:%s" % cls, ctx.where(f),
                  "%s._hash_prevouts is the zero hash for %s; BIP143 requires exactly the ANYONECANPAY types %s (difference: %s)"
                  % (cls, _fmt(zero), _fmt(ACP), _fmt(zero ^ ACP)), sample={"function": f.qualname, "zero_for": _fmt(zero)})
        # hashSequence: zero iff ACP or NONE or SINGLE
        f = ctx.func(rel, cls + "._hash_sequence")
        fa, w, exits = _finite(ctx, f)
        cells += fa.evaluated
        zero = set()
        for e in exits:
            if e.kind == "return" and _is_zero32(ctx, f, e.value):
                zero |= _set(fa, e.cond)
        want = ACP | NONE | SINGLE
        ctx.check(zero == want, "sequence:%s" % cls, ctx.where(f),
                  "%s._hash_sequence is the zero hash for %s; BIP143 requires ACP or NONE or SINGLE (base type taken with & 0x1f); difference: %s"
                  % (cls, _fmt(zero), _fmt(zero ^ want)), sample={"function": f.qualname, "zero_for": _fmt(zero)})
        # hashOutputs
        f = ctx.func(rel, cls + "._hash_outputs")
        fa, w, exits = _finite(ctx, f)
        cells += fa.evaluated
        zero_may, nonzero_may = set(), set()
        for e in exits:
            if e.kind == "return":
                if _is_zero32(ctx, f, e.value):
                    zero_may |= _set(fa, e.cond)
                else:
                    nonzero_may |= _set(fa, e.cond)
        zero_must = set(DOM) - nonzero_may
        ctx.check(zero_must == NONE, "outputs-none:%s" % cls, ctx.where(f),
                  "%s._hash_outputs is unconditionally zero for %s; BIP143 requires exactly the NONE types %s (difference %s)"
                  % (cls, _fmt(zero_must), _fmt(NONE), _fmt(zero_must ^ NONE)), sample={"function": f.qualname, "always_zero_for": _fmt(zero_must)})
        ctx.check(zero_may == NONE | SINGLE, "outputs-single-zero:%s" % cls, ctx.where(f),
                  "%s._hash_outputs can be zero for %s; BIP143: NONE, and SINGLE without a matching output (difference %s)" % (cls, _fmt(zero_may), _fmt(zero_may ^ (NONE | SINGLE))))
        slices = [(st, r) for st, r in w.visits if isinstance(st, ast.Assign) and isinstance(st.value, ast.Subscript) and isinstance(st.value.slice, ast.Slice)]
        ok = len(slices) == 1 and _set(fa, slices[0][1]) == SINGLE
        ctx.check(ok, "outputs-single-slice:%s" % cls, ctx.where(f), "%s._hash_outputs restricts the outputs to the one at the input index for %s, expected the SINGLE types"
                  % (cls, [_fmt(_set(fa, r)) for st, r in slices]))
        if ok:
            sl = slices[0][0].value.slice
            idx = f.params()[2]
            ctx.check(norm(sl.lower) == idx and norm(sl.upper) in ("%s + 1" % idx, "1 + %s" % idx), "outputs-single-index:%s" % cls, ctx.where(f, slices[0][0]),
                      "%s._hash_outputs: SINGLE commits to outputs[%s:%s], expected [idx:idx+1]" % (cls, norm(sl.lower), norm(sl.upper)))
            # zero iff idx >= len(txs_out)
            z = [e for e in exits if e.kind == "return" and _is_zero32(ctx, f, e.value) and any("len(" in o for o in gi.f_opaques(e.cond))]
            ctx.check(len(z) == 1 and any(o in ("%s >= len(txs_out)" % idx, "len(txs_out) <= %s" % idx) for o in gi.f_opaques(z[0].cond)), "outputs-single-bound:%s" % cls, ctx.where(f),
                      "%s._hash_outputs: SINGLE is zero under %s, expected idx >= len(txs_out)" % (cls, [gi.f_opaques(e.cond) for e in z]))
    # legacy digest
    f = ctx.func(BSC, "BitcoinSolutionChecker._signature_hash")
    fa, w, exits = _finite(ctx, f)
    cells += fa.evaluated
    idx = f.params()[2]
    reach = {}
    for st, r in w.visits:
        reach[id(st)] = r
    empties = [(st, r) for st, r in w.visits if isinstance(st, ast.Assign) and norm(st.targets[0]) == "txs_out" and isinstance(st.value, ast.List) and not st.value.elts]
    ok = len(empties) == 1 and _set(fa, empties[0][1]) == NONE
    ctx.check(ok, "legacy-none", ctx.where(f), "_signature_hash drops all outputs for %s, consensus: exactly the NONE types %s" % ([_fmt(_set(fa, r)) for st, r in empties], _fmt(NONE)),
              sample={"function": f.qualname, "outputs_emptied_for": [_fmt(_set(fa, r)) for st, r in empties]})
    bug = [e for e in exits if e.kind == "return" and norm(e.value) in ("1 << 248", "2 ** 248")]
    ok = len(bug) == 1 and _set(fa, bug[0].cond) == SINGLE and any(o in ("%s >= len(txs_out)" % idx, "len(txs_out) <= %s" % idx) for o in gi.f_opaques(bug[0].cond))
    ctx.check(ok, "legacy-single-bug", ctx.where(f), "_signature_hash returns the constant 1<<248 for %s under %s; consensus: SINGLE types with input index >= number of outputs"
              % ([_fmt(_set(fa, e.cond)) for e in bug], [gi.f_opaques(e.cond) for e in bug]))
    pads = [(st, r) for st, r in w.visits if isinstance(st, ast.Assign) and norm(st.targets[0]) == "txs_out" and isinstance(st.value, ast.BinOp) and isinstance(st.value.op, ast.Mult)]
    ok = len(pads) == 1 and _set(fa, pads[0][1]) == SINGLE
    if ok:
        v = pads[0][0].value
        lst, cnt = (v.left, v.right) if isinstance(v.left, ast.List) else (v.right, v.left)
        ok = isinstance(lst, ast.List) and len(lst.elts) == 1 and isinstance(lst.elts[0], ast.Call) and norm(cnt) == idx and \
            df.const_int(lst.elts[0].args[0]) == 0xFFFFFFFFFFFFFFFF and norm(lst.elts[0].args[1]) == "b''"
    ctx.check(ok, "legacy-single-padding", ctx.where(f), "_signature_hash: SINGLE does not blank the first idx outputs to (0xffffffffffffffff, b'')")
    apps = [(st, r) for st, r in w.visits if isinstance(st, ast.Expr) and norm(st.value) == "txs_out.append(self.tx.txs_out[%s])" % idx]
    ctx.check(len(apps) == 1 and _set(fa, apps[0][1]) == SINGLE, "legacy-single-own-output", ctx.where(f), "_signature_hash: SINGLE does not keep exactly output[idx]")
    seqs = [(st, r) for st, r in w.visits if isinstance(st, ast.Assign) and isinstance(st.targets[0], ast.Attribute) and st.targets[0].attr == "sequence" and df.const_int(st.value) == 0]
    got = set()
    for st, r in seqs:
        got |= _set(fa, r)
    ctx.check(got == NONE | SINGLE and len(seqs) == 2, "legacy-sequence-blanking", ctx.where(f),
              "_signature_hash zeroes the other inputs' sequence numbers for %s; consensus: exactly NONE and SINGLE (difference %s)" % (_fmt(got), _fmt(got ^ (NONE | SINGLE))))
    for st, r in seqs:
        ops = gi.f_opaques(r)
        ctx.check(any(o in ("i != %s" % idx, "%s != i" % idx) for o in ops), "legacy-sequence-others-only", ctx.where(f, st), "_signature_hash zeroes the sequence of the signed input too (guards %s)" % ops)
    acps = [(st, r) for st, r in w.visits if isinstance(st, ast.Assign) and norm(st.targets[0]) == "txs_in" and norm(st.value) == "[txs_in[%s]]" % idx]
    ctx.check(len(acps) == 1 and _set(fa, acps[0][1]) == ACP, "legacy-anyonecanpay", ctx.where(f),
              "_signature_hash keeps only the signed input for %s; consensus: exactly the ANYONECANPAY types" % [_fmt(_set(fa, r)) for st, r in acps])
    # fork-id coins refuse types without the fork-id bit
    for rel, cls in ((BCH, "BcashSolutionChecker"), (BTG, "BgoldSolutionChecker")):
        f = ctx.func(rel, cls + "._signature_hash")
        fa, w, exits = _finite(ctx, f)
        cells += fa.evaluated
        rs = set()
        for e in exits:
            if e.kind == "raise":
                rs |= _set(fa, e.cond)
        ctx.check(rs == NOFORK, "forkid-guard:%s" % cls, ctx.where(f),
                  "%s._signature_hash refuses %s; must refuse exactly the types without the fork-id bit 0x40 (difference %s)" % (cls, _fmt(rs), _fmt(rs ^ NOFORK)),
                  sample={"function": f.qualname, "refused": _fmt(rs)})
        dl = [e for e in exits if e.kind == "return"]
        ok = len(dl) == 1 and isinstance(dl[0].value, ast.Call) and df.last_attr(dl[0].value) == "_signature_for_hash_type_segwit" and \
            [norm(a) for a in dl[0].value.args] == f.params()[1:4]
        ctx.check(ok, "forkid-delegates:%s" % cls, ctx.where(f), "%s._signature_hash does not delegate to the BIP143 digest with (script, idx, hash_type)" % cls)
    ctx.note("partition cells evaluated: %d" % cells)


# ------------------------------------------------------------------ C04.2
def _trace(ctx, rel, name):
    f = ctx.func(rel, name)
    return f, ct.write_trace(f.node, "f")


def c04_2(ctx):
    for rel, cls, h in ((SEG, "SegwitChecker", "double_sha256"), (GRS, "GroestlcoinSolutionChecker", "sha256")):
        f = ctx.func(SEG, "SegwitChecker._segwit_signature_preimage") if True else None
    f, tr = _trace(ctx, SEG, "SegwitChecker._segwit_signature_preimage")
    p = f.params()
    script, idx, ht = p[1], p[2], p[3]
    txin = "self.tx.txs_in[%s]" % idx
    want = [("fmt", "L", "self.tx.version"), ("raw", None, "self._hash_prevouts(%s)" % ht), ("raw", None, "self._hash_sequence(%s)" % ht),
            ("raw", None, txin + ".previous_hash"), ("fmt", "L", txin + ".previous_index"), ("fmt", "S", script),
            ("fmt", "Q", "self.tx.unspents[%s].coin_value" % idx), ("fmt", "L", txin + ".sequence"),
            ("raw", None, "self._hash_outputs(%s, %s)" % (ht, idx)), ("fmt", "L", "self.tx.lock_time"), ("fmt", "L", ht)]
    got = [(i.kind, i.fmt, i.value) for i in tr]
    ctx.check(got == want, "bip143-preimage", ctx.where(f),
              "_segwit_signature_preimage writes %s; BIP143 requires version, hashPrevouts, hashSequence, outpoint, scriptCode, amount(Q), sequence, hashOutputs, locktime, hashtype in that order"
              % [x for x in got if x not in want][:4], sample={"trace": [repr(i) for i in tr]})
    cond = [i for i in tr if i.reach is not True or i.loop is not None]
    ctx.check(not cond, "bip143-unconditional", ctx.where(f), "_segwit_signature_preimage: fields written conditionally or in a loop: %s" % cond[:3])
    rets = df.returns_of(f.node)
    ctx.check(len(rets) == 1 and norm(rets[0].value) == "f.getvalue()", "bip143-returns-stream", ctx.where(f), "_segwit_signature_preimage does not return the whole stream")
    for rel, cls, h in ((SEG, "SegwitChecker", "double_sha256"), (GRS, "GroestlcoinSolutionChecker", "sha256")):
        for name, want_items, it_text in (
                ("_hash_prevouts", [("raw", None, "tx_in.previous_hash"), ("fmt", "L", "tx_in.previous_index")], "tx_in in self.tx.txs_in"),
                ("_hash_sequence", [("fmt", "L", "tx_in.sequence")], "tx_in in self.tx.txs_in"),
                ("_hash_outputs", [("fmt", "Q", "tx_out.coin_value"), ("fmt", "S", "tx_out.script")], None)):
            g, tr = _trace(ctx, rel, "%s.%s" % (cls, name))
            got = [(i.kind, i.fmt, i.value) for i in tr]
            ok = got == want_items and all(i.loop is not None for i in tr) and (it_text is None or all(i.loop == it_text for i in tr))
            ctx.check(ok, "subhash-trace:%s.%s" % (cls, name), ctx.where(g), "%s.%s streams %s per element (loop %s); expected %s" % (cls, name, got, [i.loop for i in tr][:1], want_items),
                      sample={"function": g.qualname, "trace": [repr(i) for i in tr]})
            rets = [r for r in df.returns_of(g.node) if not _is_zero32(ctx, g, r.value)]
            ok = len(rets) == 1 and norm(rets[0].value) == "%s(f.getvalue())" % h
            ctx.check(ok, "subhash-digest:%s.%s" % (cls, name), ctx.where(g), "%s.%s does not return %s(f.getvalue())" % (cls, name, h))
        g = ctx.func(rel, cls + "._signature_for_hash_type_segwit")
        rets = df.returns_of(g.node)
        pp = g.params()
        want_t = "from_bytes_32(%s(self._segwit_signature_preimage(%s, %s, %s)))" % (h, pp[1], pp[2], pp[3])
        ctx.check(len(rets) == 1 and norm(rets[0].value) == want_t, "bip143-digest:%s" % cls, ctx.where(g), "%s._signature_for_hash_type_segwit is not %s" % (cls, want_t))


# ------------------------------------------------------------------ C04.3
def c04_3(ctx):
    f = ctx.func(BSC, "BitcoinSolutionChecker._tx_in_for_idx")
    p = f.params()
    w = GuardWalker(ru.opaque)
    ex = w.run(f.node.body)
    rets = [e for e in ex if e.kind == "return"]
    ok = len(rets) == 2
    if ok:
        own = [e for e in rets if gi.f_equiv(e.cond, ("op", "%s == %s" % (p[1], p[4]))) or gi.f_equiv(e.cond, ("op", "%s == %s" % (p[4], p[1])))]
        oth = [e for e in rets if e not in own]
        ok = len(own) == 1 and len(oth) == 1
        if ok:
            def args(e):
                return [norm(a) for a in e.value.args] if isinstance(e.value, ast.Call) else None
            t = p[2]
            ok = args(own[0]) == ["%s.previous_hash" % t, "%s.previous_index" % t, p[3], "%s.sequence" % t] and \
                args(oth[0]) == ["%s.previous_hash" % t, "%s.previous_index" % t, "b''", "%s.sequence" % t] and \
                norm(own[0].value.func) == "self.tx.TxIn" and norm(oth[0].value.func) == "self.tx.TxIn"
    ctx.check(ok, "legacy-input-copies", ctx.where(f), "_tx_in_for_idx does not build fresh inputs with the subscript at the signed index and empty scripts elsewhere",
              sample={"returns": [(repr(e.cond), norm(e.value)) for e in rets]})
    f = ctx.func(BSC, "BitcoinSolutionChecker._signature_hash")
    defs = df.single_defs(f.node)
    p = f.params()
    fin = [r for r in df.returns_of(f.node) if "hash(" in norm(r.value)]
    ok = len(fin) == 1 and norm(fin[0].value) == "from_bytes_32(tmp_tx.hash(hash_type=%s))" % p[3]
    ctx.check(ok, "legacy-digest-of-copy", ctx.where(f), "_signature_hash does not return from_bytes_32(tmp_tx.hash(hash_type=hash_type))")
    tmp = [st for st in body_nodes(f.node) if isinstance(st, ast.Assign) and norm(st.targets[0]) == "tmp_tx"]
    ok = len(tmp) == 1 and norm(tmp[0].value) == "self.tx.__class__(self.tx.version, txs_in, txs_out, self.tx.lock_time)"
    ctx.check(ok, "legacy-copy-fields", ctx.where(f), "_signature_hash: the hashed copy is `%s`, expected (version, blanked inputs, blanked outputs, lock_time)" % (norm(tmp[0].value) if tmp else None))
    comp = [st for st in body_nodes(f.node) if isinstance(st, ast.Assign) and norm(st.targets[0]) == "txs_in" and isinstance(st.value, ast.ListComp)]
    ok = len(comp) == 1 and norm(comp[0].value.elt) == "self._tx_in_for_idx(i, tx_in, %s, %s)" % (p[1], p[2]) and norm(comp[0].value.generators[0].iter) == "enumerate(self.tx.txs_in)"
    ctx.check(ok, "legacy-inputs-rebuilt", ctx.where(f), "_signature_hash does not rebuild every input through _tx_in_for_idx(i, tx_in, script, idx)")
    sep = [st for st in f.node.body if isinstance(st, ast.Assign) and norm(st.targets[0]) == p[1]]
    ok = len(sep) >= 1 and norm(sep[0].value) == "self.delete_subscript(%s, self.ScriptTools.compile('OP_CODESEPARATOR'))" % p[1]
    ctx.check(ok, "legacy-codeseparator", ctx.where(f), "_signature_hash does not strip OP_CODESEPARATOR from the script code first")
    # Tx.hash appends the hash type as a 4-byte LE integer to the witness-stripped stream
    for rel, cls, h in ((TX, "Tx", "double_sha256"), ("pycoin/coins/groestlcoin/Tx.py", "Tx", "sha256")):
        g = ctx.func(rel, cls + ".hash")
        tr = ct.write_trace(g.node, "s")
        got = [(i.kind, i.fmt, i.value, ct.fmt_formula(i.reach)) for i in tr]
        want = [("call", "stream(include_witness_data=False)", "self", "True"), ("fmt", "L", g.params()[1], "%s is not None" % g.params()[1])]
        ctx.check(got == want, "tx-hash-trace:%s" % g.module.name, ctx.where(g), "%s.hash streams %s; expected the witness-stripped transaction then L hash_type when given" % (g.module.name, got),
                  sample={"function": g.qualname, "trace": got})
        rets = df.returns_of(g.node)
        ctx.check(len(rets) == 1 and norm(rets[0].value) == "%s(s.getvalue())" % h, "tx-hash-digest:%s" % g.module.name, ctx.where(g), "%s.hash is not %s of the stream" % (g.module.name, h))
    # FindAndDelete
    g = ctx.func(BSC, "BitcoinSolutionChecker._make_sighash_f")
    inner = ctx.p.functions.get(g.qualname + ".sig_for_hash_type_f")
    if inner is None:
        raise AnalysisError("_make_sighash_f: inner function not found")
    ip = inner.params()
    txt = norm(inner.node)
    ok = "script = %s.script[%s.begin_code_hash:]" % (ip[2], ip[2]) in txt and "for sig_blob in %s:" % ip[1] in txt and \
        "script = self._delete_signature(script, sig_blob)" in txt and "return self._signature_hash(script, tx_in_idx, %s)" % ip[0] in txt
    ctx.check(ok, "find-and-delete", ctx.where(inner), "legacy sighash closure does not slice at begin_code_hash, delete each signature push and hash with (script, idx, hash_type)")
    for name in ("_delete_signature", "delete_subscript"):
        d = ctx.func(BSC, "BitcoinSolutionChecker." + name)
        txt = norm(d.node)
        ok = "get_opcodes(script)" in txt and "section = script[pc:new_pc]" in txt and "if section != subscript:" in txt and "new_script.extend(section)" in txt
        ctx.check(ok, "opcode-aligned-delete:%s" % name, ctx.where(d), "%s does not delete opcode-aligned sections equal to the subscript" % name)
    d = ctx.func(BSC, "BitcoinSolutionChecker._delete_signature")
    ctx.check("subscript = self.ScriptTools.compile_push_data_list([sig_blob])" in norm(d.node), "delete-signature-push-form", ctx.where(d), "_delete_signature does not delete the canonical push of the signature")


# ------------------------------------------------------------------ C04.4
def c04_4(ctx):
    f = ctx.func(BTG, "BgoldSolutionChecker._signature_for_hash_type_segwit")
    p = f.params()
    it = ctx.interp
    cv = it.get(f.module.name, "BgoldSolutionChecker")
    fid = it.getattr(cv, "FORKID_BTG")
    ctx.check(fid == 79, "btg-forkid", ctx.where(f), "Bitcoin Gold fork id evaluates to %r, expected 79" % (fid,))
    augs = [st for st in f.node.body if isinstance(st, ast.AugAssign) and norm(st.target) == p[3]]
    ok = len(augs) == 1 and isinstance(augs[0].op, ast.BitOr) and norm(augs[0].value) in ("self.FORKID_BTG << 8", "79 << 8")
    ctx.check(ok, "btg-fold", ctx.where(f), "BTG digest does not fold the fork id as hash_type |= FORKID << 8 before the BIP143 digest")
    rets = df.returns_of(f.node)
    ok = len(rets) == 1 and norm(rets[0].value) == "from_bytes_32(double_sha256(self._segwit_signature_preimage(%s, %s, %s)))" % (p[1], p[2], p[3]) and \
        (not augs or augs[0].lineno < rets[0].lineno)
    ctx.check(ok, "btg-digest", ctx.where(f), "BTG digest is not double_sha256 of the BIP143 pre-image with the folded hash type")
    # BCH inherits the unfolded BIP143 digest
    c = ctx.p.cls(BCH, "BcashSolutionChecker")
    ctx.check("_signature_for_hash_type_segwit" not in c.methods and "_segwit_signature_preimage" not in c.methods, "bch-forkid-zero", "%s:%d" % (BCH, c.node.lineno),
              "BcashSolutionChecker overrides the BIP143 digest (its fork id is 0: the digest must be the unchanged one)")
    for rel, cname in ((BCH, "BcashSolutionChecker"), (BTG, "BgoldSolutionChecker")):
        c = ctx.p.cls(rel, cname)
        extra = set(c.methods) - {"_signature_hash", "_signature_for_hash_type_segwit"}
        ctx.check(not extra, "forkcoin-overrides:%s" % cname, "%s:%d" % (rel, c.node.lineno), "%s overrides %s besides the two digest entry points" % (cname, sorted(extra)))


# ------------------------------------------------------------------ C04.5
def c04_5(ctx):
    import copy

    class Sub(ast.NodeTransformer):
        def visit_Name(self, n):
            if n.id == "double_sha256":
                return ast.copy_location(ast.Name("sha256", n.ctx), n)
            return n
    for name in ("_hash_prevouts", "_hash_sequence", "_hash_outputs", "_signature_for_hash_type_segwit"):
        a = ctx.func(SEG, "SegwitChecker." + name)
        b = ctx.func(GRS, "GroestlcoinSolutionChecker." + name)

        def strip(fn):
            n = copy.deepcopy(fn.node)
            n.returns = None
            for x in n.args.args:
                x.annotation = None
            for sub in ast.walk(n):
                if hasattr(sub, "type_comment"):
                    sub.type_comment = None
            return n
        ta = norm(Sub().visit(strip(a)))
        tb = norm(strip(b))
        ctx.check(ta == tb, "grs-clone:%s" % name, ctx.where(b), "GroestlcoinSolutionChecker.%s differs from the Bitcoin method modulo double_sha256 -> sha256" % name,
                  sample={"method": name, "equal_modulo": "double_sha256 -> sha256"})
    h = ctx.func("pycoin/coins/groestlcoin/hash.py", "sha256")
    ctx.check("hashlib.sha256(data).digest()" in norm(h.node), "grs-sha256-single", ctx.where(h), "groestlcoin.hash.sha256 is not a single SHA256")


# ------------------------------------------------------------------ C04.6
SIGHASH_FUNCS = [(BSC, "BitcoinSolutionChecker._signature_hash"), (BSC, "BitcoinSolutionChecker._tx_in_for_idx"), (BSC, "BitcoinSolutionChecker._delete_signature"),
                 (BSC, "BitcoinSolutionChecker.delete_subscript"), (SEG, "SegwitChecker._hash_prevouts"), (SEG, "SegwitChecker._hash_sequence"),
                 (SEG, "SegwitChecker._hash_outputs"), (SEG, "SegwitChecker._segwit_signature_preimage"), (SEG, "SegwitChecker._signature_for_hash_type_segwit"),
                 (GRS, "GroestlcoinSolutionChecker._hash_prevouts"), (GRS, "GroestlcoinSolutionChecker._hash_sequence"), (GRS, "GroestlcoinSolutionChecker._hash_outputs"),
                 (GRS, "GroestlcoinSolutionChecker._signature_for_hash_type_segwit"), (BCH, "BcashSolutionChecker._signature_hash"), (BTG, "BgoldSolutionChecker._signature_hash"),
                 (BTG, "BgoldSolutionChecker._signature_for_hash_type_segwit"), (TX, "Tx.hash"), (TX, "Tx.w_hash"), (TX, "Tx.blanked_hash"), (TX, "Tx.stream"),
                 ("pycoin/coins/bitcoin/TxIn.py", "TxIn.stream"), ("pycoin/coins/bitcoin/TxOut.py", "TxOut.stream")]


def c04_6(ctx):
    from sa.ef import writes_in
    for rel, name in SIGHASH_FUNCS:
        f = ctx.func(rel, name)
        for wr in writes_in(f):
            ctx.check(wr.fresh, "sighash-write:%s:%s" % (f.name, wr.text), ctx.where(f, wr.node),
                      "%s writes `%s`, whose receiver is not an object created inside the sighash computation: computing a signature hash must not "
                      "modify the transaction or keep state on the checker" % (f.qualname.split(".", 3)[-1], wr.text), what="%s:%s" % (f.name, wr.text),
                      sample={"function": f.qualname, "write": wr.text, "receiver": wr.why})
        ctx.ok("scanned:" + f.qualname, nontrivial=False)


OBLIGATIONS = [
    Ob("C04.1", "branch partition of all 256 hash types in every sighash function (legacy, BIP143, GRS, BCH, BTG)", c04_1, floor=26, engines="GI(finite),CE",
       breaks_if="hash types 0x06, 0x22, 0x43, 0xc3 ... (a mask other than 0x1f reclassifies them); 0x80-0xbf on fork-id coins", exhaustive=True),
    Ob("C04.2", "BIP143 pre-image and sub-hash field traces", c04_2, floor=16, engines="CT", breaks_if="every witness input (field order / width / omitted amount)"),
    Ob("C04.3", "legacy blanking: fresh input copies, digest of the copy, hash type appended, FindAndDelete", c04_3, floor=12, engines="DF,CT"),
    Ob("C04.4", "fork-id folding (BTG 79<<8, BCH 0)", c04_4, floor=6, engines="CE,PM"),
    Ob("C04.5", "Groestlcoin methods equal the Bitcoin ones modulo double_sha256 -> sha256", c04_5, floor=5, engines="SIB"),
    Ob("C04.6", "no write with a non-fresh receiver in the sighash call tree", c04_6, floor=22, engines="EF", breaks_if="sequence zeroed on the real inputs; memo kept on the checker"),
]
