"""Transcription of every function of pycoin/networks/ContractAPI.py as of the reviewed tree (see DESIGN.md section 12).
NEVER IMPORTED OR EXECUTED: parsed and compared in canonical form (sa/sym.py) with the functions in /repo."""


_CONSTS = {

}


# pycoin/networks/ContractAPI.py :: ContractAPI.__init__
def q__ContractAPI____init__(self, network, script_tools):
    self._network = network
    self._script_tools = script_tools


# pycoin/networks/ContractAPI.py :: ContractAPI.for_address
def q__ContractAPI__for_address(self, address):
    info = self._network.parse.address(address)
    if info:
        return info.script()
    return None


# pycoin/networks/ContractAPI.py :: ContractAPI.for_p2pk
def q__ContractAPI__for_p2pk(self, sec):
    return self.for_info(dict(type='p2pk', sec=sec))


# pycoin/networks/ContractAPI.py :: ContractAPI.for_p2pkh
def q__ContractAPI__for_p2pkh(self, hash160_val):
    return self.for_info(dict(type='p2pkh', hash160=hash160_val))


# pycoin/networks/ContractAPI.py :: ContractAPI.for_p2pkh_wit
def q__ContractAPI__for_p2pkh_wit(self, hash160_val):
    return self.for_info(dict(type='p2pkh_wit', hash160=hash160_val))


# pycoin/networks/ContractAPI.py :: ContractAPI.for_p2sh
def q__ContractAPI__for_p2sh(self, hash160_val):
    return self.for_info(dict(type='p2sh', hash160=hash160_val))


# pycoin/networks/ContractAPI.py :: ContractAPI.for_p2sh_wit
def q__ContractAPI__for_p2sh_wit(self, hash256):
    return self.for_info(dict(type='p2sh_wit', hash256=hash256))


# pycoin/networks/ContractAPI.py :: ContractAPI.for_multisig
def q__ContractAPI__for_multisig(self, m, sec_keys):
    return self.for_info(dict(type='multisig', m=m, sec_keys=sec_keys))


# pycoin/networks/ContractAPI.py :: ContractAPI.for_nulldata
def q__ContractAPI__for_nulldata(self, data):
    return self.for_info(dict(type='nulldata', data=data))


# pycoin/networks/ContractAPI.py :: ContractAPI.for_nulldata_push
def q__ContractAPI__for_nulldata_push(self, data):
    return self._script_tools.compile('OP_RETURN [%s]' % b2h(data))


# pycoin/networks/ContractAPI.py :: ContractAPI.for_p2s
def q__ContractAPI__for_p2s(self, underlying_script):
    return self.for_p2sh(hash160(underlying_script))


# pycoin/networks/ContractAPI.py :: ContractAPI.for_p2s_wit
def q__ContractAPI__for_p2s_wit(self, underlying_script):
    return self.for_p2sh_wit(hashlib.sha256(underlying_script).digest())


# pycoin/networks/ContractAPI.py :: ContractAPI.for_p2tr
def q__ContractAPI__for_p2tr(self, synthetic_key):
    return self.for_info(dict(type='p2tr', synthetic_key=synthetic_key))


# pycoin/networks/ContractAPI.py :: ContractAPI._is_nonminimal_push
def q__ContractAPI___is_nonminimal_push(self, opcode, data):
    minimal = self._script_tools.scriptStreamer.compile_push_data(data)
    return bool(minimal[0] != opcode)


# pycoin/networks/ContractAPI.py :: ContractAPI.match
def q__ContractAPI__match(self, template_disassembly, script):
    template = self._script_tools.compile(template_disassembly)
    r = collections.defaultdict(list)
    pc1 = pc2 = 0
    while 1:
        if pc1 == len(script) and pc2 == len(template):
            return r
        if pc1 >= len(script) or pc2 >= len(template):
            break
        opcode1, data1, pc1, is_ok1 = self._script_tools.scriptStreamer.get_opcode(script, pc1)
        opcode2, data2, pc2, is_ok2 = self._script_tools.scriptStreamer.get_opcode(template, pc2)
        l1 = 0 if data1 is None else len(data1)
        if data2 in (b'PUBKEY', b'PUBKEYHASH', b'SEGWIT', b'SYNTHETIC_KEY'):
            if data1 is None or self._is_nonminimal_push(opcode1, data1):
                break
        if data2 == b'PUBKEY':
            if l1 < 33 or l1 > 120:
                break
            r['PUBKEY_LIST'].append(data1)
        elif data2 == b'PUBKEYHASH':
            if l1 != 160 / 8:
                break
            r['PUBKEYHASH_LIST'].append(data1)
        elif data2 == b'SEGWIT':
            if l1 not in (256 / 8, 160 / 8):
                break
            r['SEGWIT_LIST'].append(data1)
        elif data2 == b'DATA':
            r['DATA_LIST'].append(data1)
        elif data2 == b'SYNTHETIC_KEY':
            if l1 != 32:
                break
            r['SYNTHETIC_KEY'].append(data1)
        elif (opcode1, data1) != (opcode2, data2):
            break
    return None


# pycoin/networks/ContractAPI.py :: ContractAPI.for_info
def q__ContractAPI__for_info(self, info):
    type = info.get('type')
    if type == 'nulldata':
        return self._script_tools.compile('OP_RETURN') + info.get('data')
    if type == 'unknown':
        return info['script']
    script_text = self._SCRIPT_LOOKUP[type](info)
    return self._script_tools.compile(script_text)


# pycoin/networks/ContractAPI.py :: ContractAPI.new
def q__ContractAPI__new(self, script_info):
    return Contract(script_info, self._network)


# pycoin/networks/ContractAPI.py :: ContractAPI.info_for_script
def q__ContractAPI__info_for_script(self, script):
    d = self.match("OP_DUP OP_HASH160 'PUBKEYHASH' OP_EQUALVERIFY OP_CHECKSIG", script)
    if d:
        return dict(type='p2pkh', hash160=d['PUBKEYHASH_LIST'][0])
    d = self.match("OP_0 'SEGWIT'", script)
    if d:
        data = d['SEGWIT_LIST'][0]
        if len(data) == 20:
            return dict(type='p2pkh_wit', hash160=data)
        if len(data) == 32:
            return dict(type='p2sh_wit', hash256=data)
    d = self.match("OP_HASH160 'PUBKEYHASH' OP_EQUAL", script)
    if d:
        return dict(type='p2sh', hash160=d['PUBKEYHASH_LIST'][0])
    d = self.match("'PUBKEY' OP_CHECKSIG", script)
    if d:
        return dict(type='p2pk', sec=d['PUBKEY_LIST'][0])
    d = self.match("OP_1 'SYNTHETIC_KEY'", script)
    if d:
        if len(d['SYNTHETIC_KEY'][0]) == 32:
            return dict(type='p2tr', synthetic_key=d['SYNTHETIC_KEY'][0])
    if self._script_tools.compile('OP_RETURN') == script[:1]:
        return dict(type='nulldata', data=script[1:])
    d = self._info_from_multisig_script(script)
    if d:
        return d
    return dict(type='unknown', script=script)


# pycoin/networks/ContractAPI.py :: ContractAPI._info_from_multisig_script
def q__ContractAPI___info_from_multisig_script(self, script):
    script_tools = self._script_tools
    scriptStreamer = script_tools.scriptStreamer
    OP_1 = script_tools.int_for_opcode('OP_1')
    OP_16 = script_tools.int_for_opcode('OP_16')
    pc = 0
    if len(script) == 0:
        return None
    opcode, data, pc, is_ok = scriptStreamer.get_opcode(script, pc)
    if not OP_1 <= opcode < OP_16:
        return None
    m = opcode + (1 - OP_1)
    sec_keys = []
    while pc < len(script):
        opcode, data, pc, is_ok = scriptStreamer.get_opcode(script, pc)
        size = len(data) if data else 0
        if size < 33 or size > 120:
            break
        if self._is_nonminimal_push(opcode, data):
            return None
        sec_keys.append(data)
    if pc >= len(script):
        return None
    if not OP_1 <= opcode <= OP_16:
        return None
    n = opcode + (1 - OP_1)
    if m > n or len(sec_keys) != n:
        return None
    opcode, data, pc, is_ok = scriptStreamer.get_opcode(script, pc)
    OP_CHECKMULTISIG = script_tools.int_for_opcode('OP_CHECKMULTISIG')
    if opcode != OP_CHECKMULTISIG:
        return None
    if pc != len(script):
        return None
    return dict(type='multisig', sec_keys=sec_keys, m=m)
