"""Reference transcriptions for C18 (text forms written by the objects the parser has to read back).
NEVER IMPORTED OR EXECUTED: parsed and compared in canonical form (sa/sym.py) with the functions in /repo."""


# pycoin/key/Key.py :: Key.as_text
def key_as_text(self):
    if self.secret_exponent():
        return self.wif()
    sec_hex = self.sec_as_hex()
    if sec_hex:
        return sec_hex
    return self.address()


# pycoin/key/Key.py :: Key.sec_as_hex
def key_sec_as_hex(self, is_compressed=None):
    sec = self.sec(is_compressed=is_compressed)
    return self._network.sec_text_for_blob(sec)


# pycoin/key/BIP32Node.py :: BIP32Node.hwif
def bip32_hwif(self, as_private=False):
    return self._network.bip32_as_string(self.serialize(as_private=as_private), as_private=as_private)


# pycoin/key/BIP49Node.py :: BIP49Node.hwif
def bip49_hwif(self, as_private=False):
    return self._network.bip49_as_string(self.serialize(as_private=as_private), as_private=as_private)


# pycoin/key/BIP84Node.py :: BIP84Node.hwif
def bip84_hwif(self, as_private=False):
    return self._network.bip84_as_string(self.serialize(as_private=as_private), as_private=as_private)


