"""C07 - transaction and spendable codecs: structural obligations (DESIGN.md section 4, C07)."""
from __future__ import annotations

import ast
import re

from sa.core import Ob
from sa.pm import AnalysisError, norm, body_nodes
from sa import gi, df, ru, ct, sym
from sa.pm import Undecided
from sa.gi import IntSet, iv, GuardWalker, SymbolicAtomizer, reach_sets

TX = "pycoin/coins/bitcoin/Tx.py"
CTX = "pycoin/coins/Tx.py"
TXIN = "pycoin/coins/bitcoin/TxIn.py"
TXOUT = "pycoin/coins/bitcoin/TxOut.py"
SP = "pycoin/coins/bitcoin/Spendable.py"
SINT = "pycoin/satoshi/satoshi_int.py"
SSTR = "pycoin/satoshi/satoshi_string.py"
U, E = IntSet.all(), IntSet.empty()


_REF = None


def _ref():
    global _REF
    if _REF is None:
        import os
        _REF = ast.parse(open(os.path.join(os.path.dirname(os.path.dirname(os.path.abspath(__file__))), "spec", "ref_tx.py")).read())
    return _REF


INTS = lambda t: t in ("v", "v1", "v2", "count", "size", "i", "version", "lock_time") or t.startswith(("len(", "ord(", "int("))


def _refcheck(ctx, rel, dotted, refname, key, ints=None):
    fi = ctx.p.functions.get(ctx.p.module(rel).name + "." + dotted) or ctx.func(rel, dotted)
    return sym.against_reference(ctx, fi, _ref(), refname, key, ints or INTS)


# ------------------------------------------------------------------ C07.1
def c07_1(ctx):
    _refcheck(ctx, TX, "Tx.stream", "tx_stream", "tx-writer")
    _refcheck(ctx, TX, "Tx.has_witness_data", "tx_has_witness_data", "has-witness")
    _refcheck(ctx, TX, "Tx.parse", "tx_parse", "tx-reader")
    for rel, cls, pre in ((TXIN, "TxIn", "txin"), (TXOUT, "TxOut", "txout")):
        _refcheck(ctx, rel, cls + ".stream", pre + "_stream", "writer:%s" % cls)
        _refcheck(ctx, rel, cls + ".parse", pre + "_parse", "reader:%s" % cls)
        _refcheck(ctx, rel, cls + ".__init__", pre + "_init", "fields:%s" % cls)
    # BIP144: the extended form is used iff some input has a non-empty witness STACK (its items may well be empty: a FALSE
    # argument of a P2WSH script is the empty item)
    import re as _re
    hw = ctx.func(TX, "Tx.has_witness_data")
    fm = sym.truth_formula(sym.walk(ctx, hw))
    txt = fm[1] if isinstance(fm, tuple) and fm[0] == "op" and isinstance(fm[1], str) else None
    if txt is None:
        raise Undecided("Tx.has_witness_data is not one `any input ...` test (%s); this rule does not read it" % (str(fm)[:80],))
    if _re.fullmatch(r"any\{truthy\((\w+)\.witness\)(#\d+)? for \1 in self\.txs_in\}", txt):
        ctx.ok("witness-flag-per-stack", sample={"predicate": txt})
    elif (txt.count(" for ") >= 2 or _re.search(r"\b(any|all)\(\w+\.witness\)", txt)) and ".witness" in txt and "self.txs_in" in txt:
        ctx.bad("witness-flag-per-stack", ctx.where(hw), "Tx.has_witness_data asks `%s`: it iterates INTO the witness stacks, so a transaction whose witness items are all empty ([b'']) is serialised in the legacy form and loses them"
                % txt[:120], sample={"predicate": txt[:160]})
    else:
        # the per-input test handed to a method of the input (any(tx_in.has_witness() for ..)): the method's own answer is read
        mm = _re.fullmatch(r"any\{truthy\((\w+)\.(\w+)\(\)\)(#\d+)? for \1 in self\.txs_in\}", txt)
        meth = ctx.p.cls(TXIN, "TxIn").methods.get(mm.group(2)) if mm else None
        if meth is not None:
            fm2 = sym.truth_formula(sym.walk(ctx, meth))
            t2 = fm2[1] if isinstance(fm2, tuple) and fm2[0] == "op" and isinstance(fm2[1], str) else str(fm2)
            if t2 in ("truthy(self.witness)", "0 < len(self.witness)"):
                ctx.ok("witness-flag-per-stack", sample={"predicate": txt, "method": t2})
                return
            if _re.search(r"\b(any|all)[\{\(]", t2) and "self.witness" in t2:
                ctx.bad("witness-flag-per-stack", ctx.where(meth), "Tx.has_witness_data asks each input `%s()`, which answers `%s`: it looks INTO the witness stack, so a transaction whose witness items are all empty ([b'']) is serialised in the legacy form and loses them"
                        % (mm.group(2), t2[:100]), sample={"predicate": t2[:160]})
                return
        raise Undecided("Tx.has_witness_data tests `%s`; this rule reads `any input has a non-empty witness stack` only" % txt[:100])


# ------------------------------------------------------------------ C07.2
def c07_2(ctx):
    _refcheck(ctx, TX, "Tx.hash", "tx_hash", "txid-strips-witness")
    _refcheck(ctx, TX, "Tx.w_hash", "tx_w_hash", "wtxid-full")
    _refcheck(ctx, CTX, "Tx.as_bin", "btx_as_bin", "as-bin")
    a = ctx.func(TX, "Tx.stream").node.args
    names = [x.arg for x in a.args]
    d = dict(zip(names[len(names) - len(a.defaults):], a.defaults))
    ctx.check(all(isinstance(d.get(k), ast.Constant) for k in ("include_witness_data", "include_unspents", "blank_solutions")) and d["include_witness_data"].value is True and d["include_unspents"].value is False and d["blank_solutions"].value is False,
              "stream-defaults", TX + ":1", "Tx.stream defaults are not (blank_solutions=False, include_unspents=False, include_witness_data=True)")
    _refcheck(ctx, CTX, "Tx.id", "btx_id", "txid-text")
    _refcheck(ctx, TX, "Tx.w_id", "tx_w_id", "wtxid-text")
    _refcheck(ctx, CTX, "Tx.from_bin", "btx_from_bin", "from-bin")
    _refcheck(ctx, CTX, "Tx.from_hex", "btx_from_hex", "from-hex")
    _refcheck(ctx, CTX, "Tx.as_hex", "btx_as_hex", "as-hex")


# ------------------------------------------------------------------ C07.3
def c07_3(ctx):
    f = ctx.func(SINT, "stream_satoshi_int")
    v = f.params()[1]
    w = sym.int_walk(ctx, f, {v})
    got = {}
    for e in sym.calls_matching(w, ".write"):
        a = e.call.args[0] if e.call.args else None
        if a is None:
            continue
        parts = df.flatten_add(a)
        prefix = parts[0].value.hex() if len(parts) == 2 and isinstance(parts[0], ast.Constant) and isinstance(parts[0].value, bytes) else ""
        pk = parts[-1]
        fmt = pk.args[0].value if isinstance(pk, ast.Call) and norm(pk.func) == "struct.pack" and pk.args and isinstance(pk.args[0], ast.Constant) else None
        got[(prefix, fmt)] = got.get((prefix, fmt), E) | sym.may_set(e.reach, U, E)
    if not got or any(k[1] is None for k in got):
        raise Undecided("stream_satoshi_int: the bytes written are not `prefix + struct.pack(<format>, v)` on every path the walker can follow (%s)" % sorted(got, key=repr)[:4])
    want = {("", "<B"): iv(None, 252), ("fd", "<H"): iv(253, 65535), ("fe", "<L"): iv(65536, 0xFFFFFFFF), ("ff", "<Q"): iv(0x100000000, None)}
    for k in sorted(set(got) | set(want), key=repr):
        g, wv = got.get(k), want.get(k)
        ctx.check(g == wv, "compact-size-writer:%s" % (k[1],), ctx.where(f),
                  "stream_satoshi_int uses prefix %r / format %r for values %s; the compact-size encoding requires %s" % (k[0], k[1], g.fmt() if g is not None else None, wv.fmt() if wv is not None else "nothing"),
                  sample={"prefix": k[0], "format": k[1], "values": g.fmt() if g is not None else None})
    _refcheck(ctx, SINT, "stream_satoshi_int", "si_stream", "compact-size-writer-form")
    _refcheck(ctx, SINT, "parse_satoshi_int", "si_parse", "compact-size-reader")
    # a first byte handed in by the caller (Tx.parse peeks at it for the segwit marker) is dispatched on like one read here:
    # the 2 / 4 / 8 byte reads are reachable with `v is not None`
    pf = ctx.func(SINT, "parse_satoshi_int")
    pv = [p_ for p_ in pf.params() if p_ != pf.params()[0]]
    if pv:
        given = ("not", ("op", "%s is None" % pv[0]))
        wp = sym.walk(ctx, pf)
        wide = [e for e in wp.exits if e.kind == "return" and e.value is not None and "struct.unpack(" in norm(e.value)]
        if not wide:
            raise Undecided("parse_satoshi_int: no struct.unpack read of a wider form found")
        from rules.C09 import _sat
        ctx.check(all(_sat(gi.f_and(e.cond, given)) for e in wide), "reader-dispatches-given-byte", ctx.where(pf),
                  "parse_satoshi_int reads the 2 / 4 / 8 byte forms only when it read the first byte itself: a prefix byte 0xfd / 0xfe / 0xff handed in by the caller is returned as the count")
    # the reader returns every value the writer can write: it has no refusal of its own (a limit on the decoded value makes
    # binary forms that serialise -- a large block index, a long script -- unreadable)
    wpr = sym.walk(ctx, pf)
    refusals = [e for e in wpr.exits if e.kind == "raise" and e.cond not in (False,)]
    ctx.check(not refusals, "reader-refuses-nothing", ctx.where(pf, refusals[0].node) if refusals else ctx.where(pf),
              "parse_satoshi_int refuses decoded values under `%s`; stream_satoshi_int writes every non-negative integer below 2^64, so what is written no longer reads back" % (str(refusals[0].cond)[:100] if refusals else ""),
              sample={"reader": "parse_satoshi_int", "refusing_exits": 0})
    # ... and neither does the generic array codec the readers may go through (parse_struct("[S]"): a count, then the items): it
    # has no refusal by the COUNT it read -- whatever number of items was written is read back
    ps = ctx.func("pycoin/serialize/streamer.py", "Streamer.parse_struct")
    wps = sym.walk(ctx, ps)
    bycount = []
    for e in wps.exits:
        if e.kind == "raise" and e.cond not in (True, False):
            for o in gi.f_opaques(e.cond):
                if isinstance(o, str) and "array_count_parse_f(" in o and re.search(r"(?<![\w.])\d+(?![\w.])", o.replace("array_count_parse_f(", "")) and sym.entails(e.cond, ("op", o)):
                    bycount.append((e, o))
    ctx.check(not bycount, "array-reader-refuses-no-count", ctx.where(ps, bycount[0][0].node) if bycount else ctx.where(ps),
              "Streamer.parse_struct refuses an array by its count (`%s`); the writers put no limit on the number of items (a witness stack, a vector of transactions), so what is written no longer reads back" % (bycount[0][1][:80] if bycount else ""),
              sample={"reader": "Streamer.parse_struct", "refusals_by_count": 0})
    _refcheck(ctx, SSTR, "stream_satoshi_string", "ss_stream", "var-string-writer")
    # any function that computes the SIZE of a compact-size integer (answers 1 / 3 / 5 / 9 by the value) uses the writer's own
    # partition: 0..252, 253..65535, 65536..2^32-1, the rest
    want_sz = {1: iv(None, 252), 3: iv(253, 65535), 5: iv(65536, 0xFFFFFFFF), 9: iv(0x100000000, None)}
    n_sz = 0
    for q_, g_ in sorted(ctx.p.functions.items()):
        if not isinstance(g_.node, (ast.FunctionDef, ast.AsyncFunctionDef)) or not g_.params() or not g_.module.relpath.startswith(("pycoin/coins/", "pycoin/satoshi/", "pycoin/serialize/", "pycoin/message/", "pycoin/block")):
            continue
        rets = [r.value for r in ast.walk(g_.node) if isinstance(r, ast.Return) and r.value is not None]
        vals = [df.const_int(r) for r in rets]
        if len(rets) < 3 or any(v is None for v in vals) or not set(vals) <= {1, 3, 5, 9} or len(set(vals)) < 3:
            continue
        n_sz += 1
        subj = [p_ for p_ in g_.params() if p_ not in ("self", "cls")][:1]
        if not subj:
            continue
        wz = sym.int_walk(ctx, g_, {subj[0]})
        got_sz = {}
        for e in wz.exits:
            if e.kind == "return" and e.value is not None and df.const_int(e.value) is not None:
                got_sz[df.const_int(e.value)] = got_sz.get(df.const_int(e.value), E) | sym.may_set(e.cond, U, E)
        for k_ in sorted(set(got_sz) | set(want_sz)):
            g0, w0 = got_sz.get(k_, E), want_sz.get(k_, E)
            okz = (g0 & iv(0, None)) == (w0 & iv(0, None))
            ctx.check(okz, "compact-size-size:%s:%d" % (g_.name, k_), ctx.where(g_), "%s answers %d bytes for values %s; the compact-size form of that width holds %s (253 and 65536 / 2^32 are where the widths change)" % (q_, k_, g0.fmt(), w0.fmt()),
                      sample={"function": q_, "bytes": k_, "values": g0.fmt()})
    ctx.ok("compact-size-size-functions", sample={"functions_answering_1_3_5_9": n_sz}, nontrivial=False)
    _refcheck(ctx, SSTR, "parse_satoshi_string", "ss_parse", "var-string-reader")


# ------------------------------------------------------------------ C07.4
def c07_4(ctx):
    c = ctx.p.cls(SP, "Spendable")
    assigned = set()
    for k in ctx.p.mro(c):
        i = k.methods.get("__init__")
        if i is not None:
            for st in body_nodes(i.node):
                if isinstance(st, ast.Assign) and isinstance(st.targets[0], ast.Attribute) and norm(st.targets[0].value) == "self":
                    assigned.add(st.targets[0].attr)
    s = ctx.func(SP, "Spendable.stream")
    methods = {m for k in ctx.p.mro(c) for m in k.methods}
    cattrs = {a for k in ctx.p.mro(c) for a in k.attrs}
    for n in ast.walk(s.node):
        if isinstance(n, ast.Attribute) and norm(n.value) == "self" and isinstance(n.ctx, ast.Load) and n.attr not in assigned and n.attr not in methods and n.attr not in cattrs:
            ctx.bad("writer-reads-missing-attribute:%s" % n.attr, ctx.where(s, n), "Spendable.stream reads self.%s, which no constructor of the class assigns (AttributeError)" % n.attr)
    for nm in ("__init__", "stream", "parse", "as_text", "from_text", "as_dict", "from_dict", "tx_in"):
        _refcheck(ctx, SP, "Spendable." + nm, "sp_" + nm.strip("_"), "spendable:%s" % nm)



# ------------------------------------------------------------------ C07.6
_LOSSY = ("float", "round", "math.floor", "math.ceil", "math.trunc", "Decimal", "decimal.Decimal", "Fraction")


def lossy_numeric_sites(node):
    """calls / operators in a function that route an integer through a floating point (or decimal) value"""
    out = []
    for n in ast.walk(node):
        if isinstance(n, ast.Call) and (df.dotted(n.func) or "") in _LOSSY:
            out.append((n, "%s(..)" % df.dotted(n.func)))
        elif isinstance(n, ast.BinOp) and isinstance(n.op, ast.Div):
            out.append((n, "true division `/`"))
        elif isinstance(n, ast.Constant) and isinstance(n.value, float):
            out.append((n, "float constant %r" % n.value))
    return out


def _split_views(func):
    """-> (covered absolute field indices | None when some use cannot be read, number of uses read) of the list made by `text.split(sep)`
    in a reader: which fields of the text form the function ever looks at.  A view is (offset, limit)."""
    views = {}          # local name -> (offset, limit)

    def view_of(e):
        if isinstance(e, ast.Call) and isinstance(e.func, ast.Attribute) and e.func.attr == "split":
            return (0, None)
        if isinstance(e, ast.Name) and e.id in views:
            return views[e.id]
        if isinstance(e, ast.BinOp) and isinstance(e.op, ast.Add):
            return view_of(e.left)                      # padding with defaults on the right
        if isinstance(e, ast.Call) and df.dotted(e.func) in ("list", "tuple") and len(e.args) == 1:
            return view_of(e.args[0])
        if isinstance(e, ast.Subscript) and isinstance(e.slice, ast.Slice):
            v = view_of(e.value)
            if v is None:
                return None
            lo = df.const_int(e.slice.lower) if e.slice.lower is not None else 0
            hi = df.const_int(e.slice.upper) if e.slice.upper is not None else None
            if e.slice.step is not None or lo is None or lo < 0 or (e.slice.upper is not None and (hi is None or hi < 0)):
                return "?"
            lim = None if hi is None else max(hi - lo, 0)
            if v[1] is not None:
                lim = v[1] - lo if lim is None else min(lim, v[1] - lo)
            return (v[0] + lo, lim)
        return None

    covered, unread, uses = set(), False, 0
    parents = {}
    for n in ast.walk(func):
        for c in ast.iter_child_nodes(n):
            parents[id(c)] = n

    def use(e, v):
        """what the context of expression e (a view) looks at"""
        nonlocal unread, uses
        par = parents.get(id(e))
        uses += 1
        if v == "?":
            unread = True
            return
        off, lim = v
        if isinstance(par, ast.Subscript) and par.value is e:
            if isinstance(par.slice, ast.Slice):
                uses -= 1
                return                                  # the slice is a view of its own; its use counts
            k = df.const_int(par.slice)
            if k is None or k < 0:
                unread = True
            elif lim is None or k < lim:
                covered.add(off + k)
            return
        if isinstance(par, ast.Assign) and par.value is e:
            t = par.targets[0]
            if isinstance(t, ast.Name):
                uses -= 1
                return                                  # a name for the view
            if isinstance(t, (ast.Tuple, ast.List)) and not any(isinstance(x, ast.Starred) for x in t.elts):
                covered.update(range(off, off + len(t.elts)))
                return
            unread = True
            return
        if isinstance(par, ast.AnnAssign) and par.value is e and isinstance(par.target, ast.Name):
            uses -= 1
            return
        if isinstance(par, ast.comprehension) and par.iter is e:
            if lim is None:
                unread = True
            else:
                covered.update(range(off, off + lim))
            return
        if isinstance(par, ast.BinOp) and isinstance(par.op, ast.Add) and par.left is e:
            uses -= 1
            return                                      # padded: the padded list's use counts
        if isinstance(par, ast.Call) and df.dotted(par.func) == "len":
            return
        if isinstance(par, ast.Call) and df.dotted(par.func) in ("list", "tuple") and len(par.args) == 1:
            uses -= 1
            return
        unread = True

    # names first (in source order), then every expression that is a view
    order = sorted((n for n in ast.walk(func) if isinstance(n, (ast.Assign, ast.AnnAssign))), key=lambda n: (n.lineno, n.col_offset))
    for st in order:
        tgt = st.targets[0] if isinstance(st, ast.Assign) else st.target
        if isinstance(tgt, ast.Name) and st.value is not None:
            v = view_of(st.value)
            if v is not None:
                views[tgt.id] = v
    for n in ast.walk(func):
        if isinstance(n, ast.Name) and isinstance(n.ctx, ast.Store):
            continue
        v = view_of(n) if isinstance(n, (ast.Call, ast.Name, ast.BinOp, ast.Subscript)) else None
        if v is not None:
            use(n, v)
    return (None if unread else covered), uses


def c07_6(ctx):
    """field values cross the codecs unchanged: no floating point on an amount path, the writers write the attribute itself, the
    readers hand the decoded field to the constructor as decoded, and the text reader looks at every field the writer emits"""
    # self-check of the detectors (rules whose expected count on the tree is zero keep a positive example)
    probe = ast.parse("def f(t):\n    p = t.split('/')\n    a, b = p[:2]\n    c = [int(x) for x in p[2:4]]\n    return int(float(a)), b, c\n")
    cov, _n = _split_views(probe.body[0])
    if cov != {0, 1, 2, 3} or len(lossy_numeric_sites(probe)) != 1:
        raise AnalysisError("C07.6 detectors failed their self-check (%s)" % (cov,))
    # (a) exact integers
    for rel, dotted in ((SP, "Spendable.from_text"), (SP, "Spendable.from_dict"), (SP, "Spendable.as_text"), (SP, "Spendable.as_dict"), (SP, "Spendable.parse"), (SP, "Spendable.stream"),
                        (SP, "Spendable.__init__"), (TXOUT, "TxOut.parse"), (TXOUT, "TxOut.stream"), (TXOUT, "TxOut.__init__"), (TXIN, "TxIn.parse"), (TXIN, "TxIn.stream"),
                        (TX, "Tx.parse_unspents"), (TX, "Tx.stream_unspents"), (TX, "Tx.parse"), (TX, "Tx.stream"), (SINT, "parse_satoshi_int"), (SINT, "stream_satoshi_int")):
        fi = ctx.func(rel, dotted)
        sites = lossy_numeric_sites(sym.expanded(ctx, fi))
        ctx.check(not sites, "exact-integers:%s" % dotted, ctx.where(fi, sites[0][0]) if sites else ctx.where(fi),
                  "%s routes a field through %s: amounts and indices up to 2^64 do not survive a double (2^53 + 1 comes back as 2^53)" % (dotted, sites[0][1] if sites else ""),
                  sample={"function": dotted, "floating_point_sites": 0})
    # (b) the writers write the attribute itself; the readers construct from the decoded fields as decoded
    for rel, cls in ((TXOUT, "TxOut"), (TXIN, "TxIn")):
        wfi = ctx.func(rel, cls + ".stream")
        w = sym.walk(ctx, wfi)
        n = 0
        for e in sym.calls_matching(w, lambda t: t == "stream_struct" or t.endswith(".stream_struct")):
            for a in e.call.args[2:]:
                n += 1
                t = norm(a)
                if isinstance(a, ast.Constant) or (isinstance(a, ast.Attribute) and norm(a.value) == "self"):
                    ctx.ok("writer-field-unchanged:%s" % cls, sample={"writer": cls + ".stream", "value": t})
                elif any(isinstance(x, ast.Attribute) and norm(x.value) == "self" for x in ast.walk(a)) and any(isinstance(x, (ast.BinOp, ast.UnaryOp)) for x in ast.walk(a)):
                    ctx.bad("writer-field-unchanged:%s" % cls, ctx.where(wfi, e.node), "%s.stream writes `%s`: the field is transformed on its way to the wire, so what is read back is not what was stored" % (cls, t[:120]))
                else:
                    ctx.undecided("writer-field-unchanged:%s" % cls, ctx.where(wfi, e.node), "%s.stream writes `%s`; this rule reads attribute reads and constants only" % (cls, t[:100]))
        if n == 0:
            ctx.undecided("writer-field-unchanged:%s" % cls, ctx.where(wfi), "%s.stream: no stream_struct call found" % cls)
        rfi = ctx.func(rel, cls + ".parse")
        wr = sym.walk(ctx, rfi)
        rets = [e for e in wr.exits if e.kind == "return" and e.value is not None]
        for e in rets:
            v = wr.sub(e.value)
            if not isinstance(v, ast.Call):
                ctx.undecided("reader-field-unchanged:%s" % cls, ctx.where(rfi), "%s.parse returns `%s`" % (cls, norm(v)[:100]))
                continue
            okk = True
            for a in list(v.args) + [k.value for k in v.keywords]:
                inner = a.value if isinstance(a, ast.Starred) else a
                is_field = (isinstance(inner, ast.Call) and "parse_struct" in norm(inner.func)) or \
                           (isinstance(inner, ast.Subscript) and isinstance(inner.value, ast.Call) and "parse_struct" in norm(inner.value.func) and df.const_int(inner.slice) is not None)
                if is_field or isinstance(inner, ast.Constant):
                    continue
                okk = False
                if "parse_struct" in norm(inner) and any(isinstance(x, (ast.BinOp, ast.UnaryOp)) for x in ast.walk(inner)):
                    ctx.bad("reader-field-unchanged:%s" % cls, ctx.where(rfi), "%s.parse hands `%s` to the constructor: the decoded field is transformed, so a value the writer accepts does not read back as itself" % (cls, norm(inner)[:140]))
                else:
                    ctx.undecided("reader-field-unchanged:%s" % cls, ctx.where(rfi), "%s.parse constructs from `%s`; this rule reads decoded fields only" % (cls, norm(inner)[:100]))
            if okk:
                ctx.ok("reader-field-unchanged:%s" % cls, sample={"reader": cls + ".parse", "constructs_from": norm(v)[:120]})
        if not rets:
            ctx.undecided("reader-field-unchanged:%s" % cls, ctx.where(rfi), "%s.parse: no return found" % cls)
    # (c) the text reader looks at every field the text writer emits
    at = ctx.func(SP, "Spendable.as_text")
    nfields = None
    for n in ast.walk(sym.expanded(ctx, at)):
        if isinstance(n, ast.Call) and isinstance(n.func, ast.Attribute) and n.func.attr == "join" and len(n.args) == 1 and isinstance(n.args[0], (ast.List, ast.Tuple)):
            nfields = len(n.args[0].elts)
    ft = ctx.func(SP, "Spendable.from_text")
    if nfields is None:
        ctx.undecided("text-reader-covers-fields", ctx.where(at), "Spendable.as_text is not a join of a literal list of fields")
    else:
        cov, uses = _split_views(sym.expanded(ctx, ft))
        if cov is None or uses == 0:
            ctx.undecided("text-reader-covers-fields", ctx.where(ft), "Spendable.from_text uses the split text in a form this rule does not read")
        else:
            missing = sorted(set(range(nfields)) - cov)
            ctx.check(not missing, "text-reader-covers-fields", ctx.where(ft),
                      "Spendable.as_text writes %d fields; Spendable.from_text never looks at field(s) %s of the split text, so they do not survive the round trip" % (nfields, missing),
                      sample={"fields_written": nfields, "fields_read": sorted(cov)})

# ------------------------------------------------------------------ C07.5
def c07_5(ctx):
    _refcheck(ctx, TX, "Tx.stream_unspents", "tx_stream_unspents", "unspents-writer")
    _refcheck(ctx, TX, "Tx.parse_unspents", "tx_parse_unspents", "unspents-reader")
    _refcheck(ctx, CTX, "Tx.set_unspents", "btx_set_unspents", "unspents-count")
    # set_unspents records what it is given: it has no refusal by the VALUE of a spent output (parse_unspents runs inside from_bin's
    # catch-all, so a refusal there silently drops the whole extension on the way back)
    su = ctx.func(CTX, "Tx.set_unspents")
    wsu = sym.walk(ctx, su)
    byval = [e for e in wsu.exits if e.kind == "raise" and e.cond not in (True, False) and any(isinstance(o, str) and ("coin_value" in o or ".script" in o) for o in gi.f_opaques(e.cond))]
    ctx.check(not byval, "unspents-recorded-whatever-their-value", ctx.where(su, byval[0].node) if byval else ctx.where(su),
              "Tx.set_unspents refuses spent outputs under `%s`: Tx.from_bin reads the unspents extension inside a catch-all, so such a transaction comes back without its spent outputs (bytes -> tx -> bytes is no longer the identity)" % ([o for o in gi.f_opaques(byval[0].cond) if isinstance(o, str)][0][:70] if byval else ""),
              sample={"refusals_by_value": 0})
    # from_bin reads the extension whenever it could be there: a size pre-check in front of parse_unspents may only skip trailing
    # data shorter than 9 bytes per input (8-byte amount + the one-byte length of an EMPTY script is a whole record)
    fb = ctx.func(CTX, "Tx.from_bin")
    wfb = sym.walk(ctx, fb)
    pcs = sym.calls_matching(wfb, lambda t: t.endswith(".parse_unspents") or t == "parse_unspents")
    if not pcs:
        ctx.undecided("extension-read-whenever-it-fits", ctx.where(fb), "Tx.from_bin does not call parse_unspents in a form this clause reads")
    for e in pcs:
        if e.reach is True:
            ctx.ok("extension-read-whenever-it-fits", sample={"gated_by": "nothing"})
            continue
        sized = [o for o in gi.f_opaques(e.reach) if isinstance(o, str) and ("len(" in o or ".tell()" in o)]
        per_input = [int(m_) for o in sized for m_ in re.findall(r"(?<![\w.])(\d+) \* len\(", o)]
        if per_input and max(per_input) > 9:
            ctx.bad("extension-read-whenever-it-fits", ctx.where(fb, e.node), "Tx.from_bin reads the unspents extension only under `%s`: %d bytes per input, but the smallest record is 9 bytes (amount + the length byte of an empty script), "
                    "so an extension of short records is silently dropped" % (sized[0][:90], max(per_input)), sample={"bytes_per_input_assumed": max(per_input)})
        elif sized:
            ctx.undecided("extension-read-whenever-it-fits", ctx.where(fb, e.node), "Tx.from_bin reads the unspents extension under a size test (`%s`) this clause cannot bound" % sized[0][:90])
        else:
            ctx.ok("extension-read-whenever-it-fits", sample={"gated_by": str(e.reach)[:80]})
    # the reader takes a record for `unknown` exactly when its AMOUNT is zero (the property states the extension for non-zero
    # amounts; a spent output with an empty script and a non-zero amount is a real output): the condition under which None is
    # recorded, over the function's inputs, whatever the local is called
    pu = ctx.func(TX, "Tx.parse_unspents")
    w = sym.walk(ctx, pu)
    nones = [(elt, reach) for (_l, _n, elt, reach) in sym.appended_in_loops(w) if isinstance(elt, ast.Constant) and elt.value is None]
    if not nones:
        raise Undecided("Tx.parse_unspents: no `None` appended in a loop; this rule reads the append loop only")
    for _elt, reach in nones:
        atoms = [a for a in (gi.f_opaques(reach) if reach not in (True, False) else []) if isinstance(a, str)]
        amount = [a for a in atoms if ".coin_value" in a and (a.startswith("0 == ") or a.endswith(" == 0") or a.startswith("truthy("))]
        if amount and all(".coin_value" in a for a in atoms):
            zero = ("op", amount[0]) if not amount[0].startswith("truthy(") else ("not", ("op", amount[0]))
            ctx.check(sym.entails(reach, zero) and sym.entails(zero, reach), "unknown-iff-zero-amount", ctx.where(pu),
                      "Tx.parse_unspents records `unknown` under `%s`, which is not `the amount is zero`" % ct.fmt_formula(reach)[:120], sample={"unknown_when": ct.fmt_formula(reach)[:120]})
        elif atoms and not any(".coin_value" in a for a in atoms):
            ctx.bad("unknown-iff-zero-amount", ctx.where(pu), "Tx.parse_unspents records `unknown` under `%s`: the amount is not looked at, so a spent output that merely %s is lost on the way back"
                    % (ct.fmt_formula(reach)[:120], "has an empty script" if any(".script" in a for a in atoms) else "satisfies that test"))
        else:
            ctx.undecided("unknown-iff-zero-amount", ctx.where(pu), "Tx.parse_unspents records `unknown` under `%s`; this rule reads tests of the amount only" % (ct.fmt_formula(reach)[:120] if reach not in (True, False) else reach))


OBLIGATIONS = [
    Ob("C07.1", "Tx / TxIn / TxOut writer and reader traces agree with BIP144", c07_1, floor=9, engines="SYM", breaks_if="witness transactions; empty witness items; mixed inputs"),
    Ob("C07.2", "txid hashes the witness-stripped form, wtxid the full form; hex/bin wrappers", c07_2, floor=9, engines="SYM"),
    Ob("C07.3", "compact-size partition: writer intervals and reader prefixes symmetric", c07_3, floor=8, engines="SYM,GI", breaks_if="lengths/counts of exactly 252, 253, 65535, 65536, 2^32"),
    Ob("C07.4", "Spendable binary / text / dict forms are field-symmetric with exact integer conversions", c07_4, floor=8, engines="SYM,PM", breaks_if="amounts above 2^53 in the text form; binary form"),
    Ob("C07.5", "unspents extension: zero amount <-> unknown", c07_5, floor=3, engines="SYM", breaks_if="spent output with empty script and non-zero amount"),
    Ob("C07.6", "field values cross the codecs unchanged: exact integers, writers write the attribute, readers construct from the decoded field, the text reader covers every field", c07_6, floor=20, engines="SYM,DF",
       breaks_if="amounts >= 2^53 in text / dict form; amounts >= 2^63 on the wire; a spendable with block_index_spent != 0"),
]
