"""CE - constant / table evaluator: a small abstract interpreter over the ast of /repo.

It exists to resolve what the repository builds at import time (opcode dispatch table, push
encoders/decoders with their captured constants, codec registries, class constants) and to fold
guard expressions over finite domains.  It interprets syntax trees itself; pycoin is never
imported.  Anything it cannot follow becomes Unknown (top) and the rule that needed it ends in
ANALYSIS-ERROR, never in a verdict.
"""
from __future__ import annotations

import ast
import builtins as _bi
import importlib
import operator

from .pm import Program, AnalysisError, ModuleInfo


class Unknown:
    def __init__(self, reason=""):
        self.reason = reason

    def __repr__(self):
        return "Unknown(%s)" % self.reason

    def __bool__(self):
        raise Unsupported("branch on unknown value: %s" % self.reason)

    def __iter__(self):
        raise Unsupported("iterate unknown value: %s" % self.reason)

    def __hash__(self):
        return id(self)


class Unsupported(Exception):
    pass


class PyRaise(Exception):
    """A Python-level exception raised by interpreted code."""

    def __init__(self, exc):
        super().__init__(repr(exc))
        self.exc = exc


class _Return(Exception):
    def __init__(self, value):
        self.value = value


class _Break(Exception):
    pass


class _Continue(Exception):
    pass


class Frame:
    def __init__(self, module, parent=None, locals_=None, is_class=False):
        self.module = module          # ModVal
        self.parent = parent          # enclosing function Frame (closures) or None
        self.locals = locals_ if locals_ is not None else {}
        self.is_class = is_class
        self.nonlocals = set()
        self.globals_ = set()
        self.defcls = None
        self.self_obj = None
        self.yields = None


class FuncVal:
    def __init__(self, node, frame, module, name, qualname):
        self.node = node
        self.frame = frame            # defining Frame (closure); None for top-level
        self.module = module          # ModVal
        self.name = name
        self.qualname = qualname
        self.attrs = {}
        self.defaults = []
        self.kw_defaults = {}
        self.defcls = None
        self.is_generator = False

    def closure_vars(self):
        """name -> value for free variables captured from enclosing function frames."""
        out = {}
        fr = self.frame
        while fr is not None:
            if not fr.is_class:
                for k, v in fr.locals.items():
                    out.setdefault(k, v)
            fr = fr.parent
        return out

    def __repr__(self):
        return "<fn %s>" % self.qualname


class BoundMethod:
    def __init__(self, func, self_obj):
        self.func = func
        self.self_obj = self_obj

    def __repr__(self):
        return "<bound %s of %r>" % (self.func.qualname, self.self_obj)


class ClassMethodMark:
    def __init__(self, func):
        self.func = func


class StaticMethodMark:
    def __init__(self, func):
        self.func = func


class PropertyMark:
    def __init__(self, func):
        self.func = func


class ClassVal:
    def __init__(self, name, qualname, bases, module):
        self.name = name
        self.qualname = qualname
        self.bases = bases            # ClassVal or native type
        self.ns = {}
        self.module = module

    def mro(self):
        def merge(seqs):
            res = []
            seqs = [list(s) for s in seqs if s]
            while seqs:
                for s in seqs:
                    h = s[0]
                    if not any(h in t[1:] for t in seqs):
                        break
                else:
                    raise Unsupported("inconsistent mro")
                res.append(h)
                seqs = [[x for x in t if x is not h] for t in seqs]
                seqs = [t for t in seqs if t]
            return res
        lin = []
        for b in self.bases:
            if isinstance(b, ClassVal):
                lin.append(b.mro())
            elif isinstance(b, type):
                lin.append([k for k in b.__mro__])
            else:
                lin.append([b])
        return [self] + merge(lin + [list(self.bases)])

    def lookup(self, name):
        for k in self.mro():
            if isinstance(k, ClassVal):
                if name in k.ns:
                    return k, k.ns[name]
        return None, _MISSING

    def native_base(self):
        for k in self.mro():
            if isinstance(k, type) and k is not object:
                return k
        return None

    def __repr__(self):
        return "<class %s>" % self.qualname


class InstanceVal:
    def __init__(self, cls):
        self.cls = cls
        self.attrs = {}

    def __repr__(self):
        return "<%s instance>" % self.cls.name


class ModVal:
    def __init__(self, info):
        self.info = info
        self.ns = {}
        self.state = "new"

    def __repr__(self):
        return "<module %s>" % self.info.name


class NativeMod:
    def __init__(self, name):
        self.name = name

    def __repr__(self):
        return "<native module %s>" % self.name


_MISSING = object()

# stdlib callables that are pure functions of their arguments and may be folded natively
_NATIVE_OK = {
    "struct": {"pack", "unpack", "calcsize", "error", "Struct"},
    "binascii": {"hexlify", "unhexlify", "b2a_base64", "a2b_base64", "Error"},
    "functools": {"total_ordering", "reduce"},
    "collections": {"defaultdict", "OrderedDict", "namedtuple"},
    "itertools": {"chain", "product"},
    "io": {"BytesIO"},
    "math": {"log", "ceil", "floor"},
    "operator": {"add", "sub", "mul"},
    "re": {"compile", "split"},
    "string": {"hexdigits"},
    "decimal": {"Decimal", "Context", "getcontext", "ROUND_DOWN", "ROUND_HALF_EVEN"},
}

_SAFE_BUILTINS = (
    "abs all any bin bool bytearray bytes callable chr dict divmod enumerate filter float frozenset "
    "hash hex int isinstance issubclass iter len list map max min next object oct ord pow range repr "
    "reversed round set slice sorted str sum tuple zip "
    "Exception ValueError TypeError KeyError IndexError AttributeError RuntimeError NotImplementedError "
    "AssertionError ImportError StopIteration ArithmeticError OverflowError ZeroDivisionError "
    "DeprecationWarning NotImplemented Ellipsis True False None UnicodeError UnicodeDecodeError UnicodeEncodeError LookupError OSError"
).split()

_BINOPS = {
    ast.Add: operator.add, ast.Sub: operator.sub, ast.Mult: operator.mul, ast.Div: operator.truediv,
    ast.FloorDiv: operator.floordiv, ast.Mod: operator.mod, ast.Pow: operator.pow,
    ast.LShift: operator.lshift, ast.RShift: operator.rshift, ast.BitOr: operator.or_,
    ast.BitAnd: operator.and_, ast.BitXor: operator.xor, ast.MatMult: operator.matmul,
}
_CMPOPS = {
    ast.Eq: operator.eq, ast.NotEq: operator.ne, ast.Lt: operator.lt, ast.LtE: operator.le,
    ast.Gt: operator.gt, ast.GtE: operator.ge, ast.Is: operator.is_, ast.IsNot: operator.is_not,
    ast.In: lambda a, b: a in b, ast.NotIn: lambda a, b: a not in b,
}


class Interp:
    def __init__(self, program: Program, budget=4_000_000):
        self.p = program
        self.mods = {}
        self.budget0 = budget
        self.steps = 0
        self.native_instances = True

    # ------------------------------------------------------------- modules
    def module(self, name):
        info = self.p.modules.get(name)
        if info is None:
            raise AnalysisError("interp: no repo module %s" % name)
        mv = self.mods.get(name)
        if mv is None:
            mv = ModVal(info)
            self.mods[name] = mv
        if mv.state == "new":
            mv.state = "init"
            self.p.consulted.add(name)
            fr = Frame(mv, None, mv.ns)
            mv.ns["__name__"] = name
            for st in info.tree.body:
                self._exec_top(st, fr)
            mv.state = "done"
        return mv

    def _exec_top(self, st, fr):
        """Execute a module/class level statement; failures poison the names it binds."""
        try:
            self.exec_stmt(st, fr)
        except (Unsupported, PyRaise, RecursionError) as e:
            for n in _bound_names(st):
                fr.locals[n] = Unknown("%s:%d %s" % (fr.module.info.relpath, st.lineno, e))
        except (_Break, _Continue):
            pass

    def get(self, modname, name):
        mv = self.module(modname)
        if name not in mv.ns:
            raise AnalysisError("interp: %s has no top-level name %s" % (modname, name))
        return mv.ns[name]

    # ----------------------------------------------------------- statements
    def tick(self):
        self.steps += 1
        if self.steps > self.budget0:
            raise Unsupported("evaluation budget exhausted")

    def exec_block(self, body, fr):
        for st in body:
            self.exec_stmt(st, fr)

    def exec_stmt(self, st, fr):
        self.tick()
        m = getattr(self, "s_" + type(st).__name__, None)
        if m is None:
            raise Unsupported("statement %s" % type(st).__name__)
        return m(st, fr)

    def s_Pass(self, st, fr):
        pass

    def s_Expr(self, st, fr):
        self.eval(st.value, fr)

    def s_Global(self, st, fr):
        fr.globals_.update(st.names)

    def s_Nonlocal(self, st, fr):
        fr.nonlocals.update(st.names)

    def s_Import(self, st, fr):
        for a in st.names:
            if a.asname:
                self.store_name(fr, a.asname, self.import_module(a.name))
            else:
                top = a.name.split(".")[0]
                self.import_module(a.name)
                self.store_name(fr, top, self.import_module(top))

    def s_ImportFrom(self, st, fr):
        info = fr.module.info
        base = st.module or ""
        if st.level:
            pkg = info.name if info.is_package else info.name.rsplit(".", 1)[0]
            parts = pkg.split(".")
            if st.level > 1:
                parts = parts[: len(parts) - (st.level - 1)]
            base = ".".join(parts + ([st.module] if st.module else []))
        if base == "__future__":
            return
        mod = self.import_module(base)
        for a in st.names:
            local = a.asname or a.name
            if a.name == "*":
                if isinstance(mod, ModVal):
                    for k, v in mod.ns.items():
                        if not k.startswith("_"):
                            self.store_name(fr, k, v)
                continue
            self.store_name(fr, local, self.import_from(mod, base, a.name))

    def import_module(self, name):
        if name in self.p.modules:
            return self.module(name)
        if name.split(".")[0] == "pycoin":
            raise PyRaise(ImportError("no module %s" % name))
        return NativeMod(name)

    def import_from(self, mod, base, attr):
        if isinstance(mod, ModVal):
            if attr in mod.ns:
                return mod.ns[attr]
            sub = "%s.%s" % (base, attr)
            if sub in self.p.modules:
                return self.module(sub)
            if mod.state == "init":
                return Unknown("circular import of %s.%s" % (base, attr))
            raise PyRaise(ImportError("cannot import %s from %s" % (attr, base)))
        return self.native_attr(mod, attr)

    def native_attr(self, mod, attr):
        if mod.name == "typing" or mod.name == "collections.abc":
            if attr == "TYPE_CHECKING":
                return False
            if attr == "cast":
                return lambda t, v: v
            return Unknown("typing.%s" % attr)
        ok = _NATIVE_OK.get(mod.name)
        if ok and attr in ok:
            return getattr(importlib.import_module(mod.name), attr)
        if mod.name == "hashlib":
            return Unknown("hashlib.%s" % attr)
        return Unknown("%s.%s" % (mod.name, attr))

    def s_FunctionDef(self, st, fr):
        fv = self.make_function(st, fr, st.name)
        val = fv
        for d in reversed(st.decorator_list):
            try:
                dv = self.eval(d, fr)
            except (Unsupported, PyRaise):
                dv = Unknown("decorator")
            if dv is classmethod:
                val = ClassMethodMark(fv)
            elif dv is staticmethod:
                val = StaticMethodMark(fv)
            elif dv is property:
                val = PropertyMark(fv)
            # other decorators (functools.total_ordering, wraps, ...) leave the function as it is
        self.store_name(fr, st.name, val)

    s_AsyncFunctionDef = s_FunctionDef

    def make_function(self, node, fr, name):
        q = fr.module.info.name
        chain = []
        f = fr
        while f is not None and f.locals is not fr.module.ns:
            chain.append(getattr(f, "label", "?"))
            f = f.parent
        qual = ".".join([q] + list(reversed(chain)) + [name])
        fv = FuncVal(node, None if fr.locals is fr.module.ns else fr, fr.module, name, qual)
        a = node.args
        fv.defaults = [self.eval_soft(d, fr) for d in a.defaults]
        fv.kw_defaults = {k.arg: self.eval_soft(d, fr) for k, d in zip(a.kwonlyargs, a.kw_defaults) if d is not None}
        if not isinstance(node, ast.Lambda):
            fv.is_generator = any(isinstance(n, (ast.Yield, ast.YieldFrom)) for n in _walk_fn(node))
        if fr.is_class:
            fv.defcls = fr.defcls
            fv.frame = fr.parent
        return fv

    def eval_soft(self, e, fr):
        try:
            return self.eval(e, fr)
        except (Unsupported, PyRaise) as ex:
            return Unknown(str(ex))

    def s_ClassDef(self, st, fr):
        bases = []
        for b in st.bases:
            try:
                bv = self.eval(b, fr)
            except (Unsupported, PyRaise) as ex:
                bv = Unknown(str(ex))
            if isinstance(bv, Unknown):
                bv = object
            bases.append(bv)
        cv = ClassVal(st.name, "%s.%s" % (fr.module.info.name, st.name), bases, fr.module)
        cfr = Frame(fr.module, None if fr.locals is fr.module.ns else fr, cv.ns, is_class=True)
        cfr.defcls = cv
        cfr.label = st.name
        cv.ns["__name__"] = st.name
        for s in st.body:
            self._exec_top(s, cfr)
        for v in cv.ns.values():
            f = v.func if isinstance(v, (ClassMethodMark, StaticMethodMark, PropertyMark)) else v
            if isinstance(f, FuncVal) and f.defcls is None:
                f.defcls = cv
        self.store_name(fr, st.name, cv)

    def s_Return(self, st, fr):
        raise _Return(self.eval(st.value, fr) if st.value is not None else None)

    def s_Assign(self, st, fr):
        v = self.eval(st.value, fr)
        for t in st.targets:
            self.assign(t, v, fr)

    def s_AnnAssign(self, st, fr):
        if st.value is not None:
            self.assign(st.target, self.eval(st.value, fr), fr)

    def s_AugAssign(self, st, fr):
        load = _as_load(st.target)
        cur = self.eval(load, fr)
        rhs = self.eval(st.value, fr)
        if isinstance(cur, list) and isinstance(st.op, ast.Add) and not isinstance(rhs, Unknown):
            cur.extend(rhs)
            v = cur
        else:
            v = self.binop(st.op, cur, rhs)
        self.assign(st.target, v, fr)

    def s_Delete(self, st, fr):
        for t in st.targets:
            if isinstance(t, ast.Subscript):
                obj = self.eval(t.value, fr)
                key = self.eval_index(t.slice, fr)
                try:
                    del obj[key]
                except Exception as ex:
                    raise PyRaise(ex)
            elif isinstance(t, ast.Name):
                fr.locals.pop(t.id, None)
            else:
                raise Unsupported("del target")

    def s_If(self, st, fr):
        c = self.truth(self.eval(st.test, fr))
        self.exec_block(st.body if c else st.orelse, fr)

    def s_Assert(self, st, fr):
        c = self.truth(self.eval(st.test, fr))
        if not c:
            raise PyRaise(AssertionError(ast.unparse(st.test)))

    def s_For(self, st, fr):
        it = self.iterate(self.eval(st.iter, fr))
        broke = False
        for v in it:
            self.tick()
            self.assign(st.target, v, fr)
            try:
                self.exec_block(st.body, fr)
            except _Break:
                broke = True
                break
            except _Continue:
                continue
        if not broke:
            self.exec_block(st.orelse, fr)

    def s_While(self, st, fr):
        broke = False
        while self.truth(self.eval(st.test, fr)):
            self.tick()
            try:
                self.exec_block(st.body, fr)
            except _Break:
                broke = True
                break
            except _Continue:
                continue
        if not broke:
            self.exec_block(st.orelse, fr)

    def s_Break(self, st, fr):
        raise _Break()

    def s_Continue(self, st, fr):
        raise _Continue()

    def s_Raise(self, st, fr):
        if st.exc is None:
            raise PyRaise(RuntimeError("re-raise"))
        v = self.eval(st.exc, fr)
        if isinstance(v, ClassVal) or isinstance(v, type):
            v = self.call(v, [], {})
        raise PyRaise(v)

    def s_Try(self, st, fr):
        try:
            try:
                self.exec_block(st.body, fr)
            except PyRaise as pr:
                for h in st.handlers:
                    if self.exc_matches(pr.exc, h.type, fr):
                        if h.name:
                            fr.locals[h.name] = pr.exc
                        self.exec_block(h.body, fr)
                        break
                else:
                    raise
            else:
                self.exec_block(st.orelse, fr)
        finally:
            if st.finalbody:
                self.exec_block(st.finalbody, fr)

    def exc_matches(self, exc, type_expr, fr):
        if type_expr is None:
            return True
        t = self.eval(type_expr, fr)
        ts = t if isinstance(t, tuple) else (t,)
        for k in ts:
            if isinstance(k, type) and isinstance(exc, BaseException) and isinstance(exc, k):
                return True
            if isinstance(k, ClassVal) and isinstance(exc, InstanceVal) and k in exc.cls.mro():
                return True
            if isinstance(k, type) and isinstance(exc, InstanceVal) and k in exc.cls.mro():
                return True
        return False

    def s_With(self, st, fr):
        raise Unsupported("with statement")

    # ---------------------------------------------------------- assignment
    def store_name(self, fr, name, v):
        if name in fr.globals_:
            fr.module.ns[name] = v
            return
        if name in fr.nonlocals:
            f = fr.parent
            while f is not None:
                if name in f.locals and not f.is_class:
                    f.locals[name] = v
                    return
                f = f.parent
        fr.locals[name] = v

    def assign(self, t, v, fr):
        if isinstance(t, ast.Name):
            self.store_name(fr, t.id, v)
        elif isinstance(t, (ast.Tuple, ast.List)):
            if isinstance(v, Unknown):
                for e in t.elts:
                    self.assign(e.value if isinstance(e, ast.Starred) else e, Unknown(v.reason), fr)
                return
            vals = list(self.iterate(v))
            star = [i for i, e in enumerate(t.elts) if isinstance(e, ast.Starred)]
            if star:
                i = star[0]
                after = len(t.elts) - i - 1
                if len(vals) < len(t.elts) - 1:
                    raise PyRaise(ValueError("not enough values to unpack"))
                for e, x in zip(t.elts[:i], vals[:i]):
                    self.assign(e, x, fr)
                self.assign(t.elts[i].value, vals[i: len(vals) - after], fr)
                for e, x in zip(t.elts[i + 1:], vals[len(vals) - after:]):
                    self.assign(e, x, fr)
            else:
                if len(vals) != len(t.elts):
                    raise PyRaise(ValueError("unpack: expected %d values, got %d" % (len(t.elts), len(vals))))
                for e, x in zip(t.elts, vals):
                    self.assign(e, x, fr)
        elif isinstance(t, ast.Attribute):
            obj = self.eval(t.value, fr)
            self.setattr(obj, t.attr, v)
        elif isinstance(t, ast.Subscript):
            obj = self.eval(t.value, fr)
            key = self.eval_index(t.slice, fr)
            if isinstance(obj, Unknown):
                return
            try:
                obj[key] = v
            except Exception as ex:
                raise PyRaise(ex)
        else:
            raise Unsupported("assignment target %s" % type(t).__name__)

    def setattr(self, obj, name, v):
        if isinstance(obj, InstanceVal):
            obj.attrs[name] = v
        elif isinstance(obj, ClassVal):
            obj.ns[name] = v
        elif isinstance(obj, FuncVal):
            obj.attrs[name] = v
        elif isinstance(obj, BoundMethod):
            obj.func.attrs[name] = v
        elif isinstance(obj, ModVal):
            obj.ns[name] = v
        elif isinstance(obj, Unknown):
            pass
        else:
            raise Unsupported("setattr on %r" % type(obj).__name__)

    # ---------------------------------------------------------- expressions
    def eval(self, e, fr):
        self.tick()
        m = getattr(self, "e_" + type(e).__name__, None)
        if m is None:
            raise Unsupported("expression %s" % type(e).__name__)
        return m(e, fr)

    def e_Constant(self, e, fr):
        return e.value

    def e_Name(self, e, fr):
        return self.load_name(e.id, fr)

    def load_name(self, name, fr):
        f = fr
        first = True
        while f is not None:
            if (first or not f.is_class) and name in f.locals and name not in f.globals_:
                return f.locals[name]
            first = False
            f = f.parent
        ns = fr.module.ns
        if name in ns:
            return ns[name]
        if name in _SAFE_BUILTINS:
            return getattr(_bi, name)
        if name in ("classmethod", "staticmethod", "property"):
            return getattr(_bi, name)
        if name in ("super", "getattr", "setattr", "hasattr",
                    "dir", "exec", "type", "print", "id", "vars", "globals", "locals", "open", "input", "eval",
                    "delattr", "format", "memoryview", "__import__", "compile", "ascii", "NotImplemented"):
            return _Builtin(name)
        raise PyRaise(NameError(name))

    def e_Attribute(self, e, fr):
        return self.getattr(self.eval(e.value, fr), e.attr)

    def getattr(self, obj, name, default=_MISSING):
        if isinstance(obj, Unknown):
            return Unknown("%s.%s" % (obj.reason, name))
        if isinstance(obj, InstanceVal):
            if name in obj.attrs:
                return obj.attrs[name]
            if name == "__class__":
                return obj.cls
            k, v = obj.cls.lookup(name)
            if v is not _MISSING:
                return self.bind(v, obj, obj.cls)
            nb = obj.cls.native_base()
            if nb is not None and hasattr(nb, name):
                return Unknown("native base attribute %s" % name)
            if default is not _MISSING:
                return default
            raise PyRaise(AttributeError("%s has no attribute %s" % (obj.cls.name, name)))
        if isinstance(obj, ClassVal):
            if name == "__name__":
                return obj.name
            k, v = obj.lookup(name)
            if v is not _MISSING:
                return self.bind(v, None, obj)
            if default is not _MISSING:
                return default
            raise PyRaise(AttributeError("class %s has no attribute %s" % (obj.name, name)))
        if isinstance(obj, ModVal):
            if name in obj.ns:
                return obj.ns[name]
            sub = "%s.%s" % (obj.info.name, name)
            if sub in self.p.modules:
                return self.module(sub)
            if default is not _MISSING:
                return default
            raise PyRaise(AttributeError("module %s has no attribute %s" % (obj.info.name, name)))
        if isinstance(obj, NativeMod):
            return self.native_attr(obj, name)
        if isinstance(obj, FuncVal):
            if name in obj.attrs:
                return obj.attrs[name]
            if name == "__name__":
                return obj.name
            if default is not _MISSING:
                return default
            raise PyRaise(AttributeError("function %s has no attribute %s" % (obj.name, name)))
        if isinstance(obj, BoundMethod):
            return self.getattr(obj.func, name, default)
        if isinstance(obj, _Builtin):
            raise Unsupported("attribute of builtin %s" % obj.name)
        # native python value
        try:
            return getattr(obj, name)
        except AttributeError as ex:
            if default is not _MISSING:
                return default
            raise PyRaise(ex)

    def bind(self, v, inst, cls):
        if isinstance(v, FuncVal):
            return BoundMethod(v, inst) if inst is not None else v
        if isinstance(v, ClassMethodMark):
            return BoundMethod(v.func, cls)
        if isinstance(v, StaticMethodMark):
            return v.func
        if isinstance(v, PropertyMark):
            if inst is None:
                return v
            return self.call(BoundMethod(v.func, inst), [], {})
        return v

    def e_Subscript(self, e, fr):
        obj = self.eval(e.value, fr)
        key = self.eval_index(e.slice, fr)
        if isinstance(obj, Unknown) or isinstance(key, Unknown):
            return Unknown("subscript")
        if isinstance(obj, (ClassVal,)) or obj in (list, dict, tuple, set, frozenset, type):
            return obj  # generic alias such as list[int]
        if isinstance(obj, InstanceVal):
            k, v = obj.cls.lookup("__getitem__")
            if v is not _MISSING:
                return self.call(self.bind(v, obj, obj.cls), [key], {})
            raise Unsupported("subscript of instance")
        try:
            return obj[key]
        except Exception as ex:
            raise PyRaise(ex)

    def eval_index(self, s, fr):
        if isinstance(s, ast.Slice):
            lo = self.eval(s.lower, fr) if s.lower else None
            hi = self.eval(s.upper, fr) if s.upper else None
            st = self.eval(s.step, fr) if s.step else None
            if any(isinstance(x, Unknown) for x in (lo, hi, st)):
                return Unknown("slice")
            return slice(lo, hi, st)
        return self.eval(s, fr)

    def e_Slice(self, e, fr):
        return self.eval_index(e, fr)

    def e_Tuple(self, e, fr):
        return tuple(self.elts(e.elts, fr))

    def e_List(self, e, fr):
        return list(self.elts(e.elts, fr))

    def e_Set(self, e, fr):
        return set(self.elts(e.elts, fr))

    def elts(self, elts, fr):
        out = []
        for x in elts:
            if isinstance(x, ast.Starred):
                out.extend(self.iterate(self.eval(x.value, fr)))
            else:
                out.append(self.eval(x, fr))
        return out

    def e_Dict(self, e, fr):
        d = {}
        for k, v in zip(e.keys, e.values):
            if k is None:
                d.update(self.eval(v, fr))
            else:
                d[self.eval(k, fr)] = self.eval(v, fr)
        return d

    def e_JoinedStr(self, e, fr):
        parts = []
        for v in e.values:
            if isinstance(v, ast.Constant):
                parts.append(str(v.value))
            else:
                x = self.eval(v.value, fr)
                if isinstance(x, Unknown):
                    return Unknown("fstring")
                spec = self.eval(v.format_spec, fr) if v.format_spec else ""
                if v.conversion == ord("r"):
                    x = repr(x)
                elif v.conversion == ord("s"):
                    x = str(x)
                parts.append(format(x, spec))
        return "".join(parts)

    def e_FormattedValue(self, e, fr):
        return self.eval(e.value, fr)

    def e_BinOp(self, e, fr):
        return self.binop(e.op, self.eval(e.left, fr), self.eval(e.right, fr))

    def binop(self, op, a, b):
        if isinstance(a, Unknown) or isinstance(b, Unknown):
            return Unknown("binop")
        if isinstance(a, (FuncVal, InstanceVal, ClassVal, BoundMethod)) or isinstance(b, (FuncVal, InstanceVal, ClassVal, BoundMethod)):
            if isinstance(op, ast.BitOr):
                return Unknown("type union")
            raise Unsupported("operator on interpreted object")
        if isinstance(op, ast.Pow) and isinstance(b, int) and isinstance(a, int) and (abs(b) > 4096 or abs(a) > 1 << 4096):
            raise Unsupported("huge pow")
        if isinstance(op, ast.LShift) and isinstance(b, int) and b > 1 << 16:
            raise Unsupported("huge shift")
        try:
            return _BINOPS[type(op)](a, b)
        except Exception as ex:
            raise PyRaise(ex)

    def e_UnaryOp(self, e, fr):
        v = self.eval(e.operand, fr)
        if isinstance(e.op, ast.Not):
            if isinstance(v, Unknown):
                return Unknown("not")
            return not self.truth(v)
        if isinstance(v, Unknown):
            return Unknown("unary")
        try:
            if isinstance(e.op, ast.USub):
                return -v
            if isinstance(e.op, ast.UAdd):
                return +v
            if isinstance(e.op, ast.Invert):
                return ~v
        except Exception as ex:
            raise PyRaise(ex)
        raise Unsupported("unary op")

    def e_BoolOp(self, e, fr):
        is_and = isinstance(e.op, ast.And)
        v = None
        for x in e.values:
            v = self.eval(x, fr)
            t = self.truth(v)
            if is_and and not t:
                return v
            if not is_and and t:
                return v
        return v

    def e_Compare(self, e, fr):
        left = self.eval(e.left, fr)
        for op, r in zip(e.ops, e.comparators):
            right = self.eval(r, fr)
            if isinstance(left, Unknown) or isinstance(right, Unknown):
                if isinstance(op, (ast.Is, ast.IsNot)) and (left is None or right is None):
                    return Unknown("is-None test of unknown")
                return Unknown("compare")
            try:
                if isinstance(op, (ast.Eq, ast.NotEq)) and (isinstance(left, (FuncVal, ClassVal, InstanceVal)) or isinstance(right, (FuncVal, ClassVal, InstanceVal))):
                    ok = (left is right) if isinstance(op, ast.Eq) else (left is not right)
                else:
                    ok = _CMPOPS[type(op)](left, right)
            except Exception as ex:
                raise PyRaise(ex)
            if not ok:
                return False
            left = right
        return True

    def e_IfExp(self, e, fr):
        return self.eval(e.body if self.truth(self.eval(e.test, fr)) else e.orelse, fr)

    def e_Lambda(self, e, fr):
        fv = self.make_function(e, fr, "<lambda>")
        return fv

    def e_NamedExpr(self, e, fr):
        v = self.eval(e.value, fr)
        self.assign(e.target, v, fr)
        return v

    def e_Starred(self, e, fr):
        raise Unsupported("starred")

    def e_Yield(self, e, fr):
        f = fr
        while f is not None and f.yields is None:
            f = f.parent
        if f is None:
            raise Unsupported("yield outside generator")
        f.yields.append(self.eval(e.value, fr) if e.value is not None else None)
        return None

    def e_YieldFrom(self, e, fr):
        f = fr
        while f is not None and f.yields is None:
            f = f.parent
        if f is None:
            raise Unsupported("yield outside generator")
        f.yields.extend(self.iterate(self.eval(e.value, fr)))
        return None

    def _comp(self, gens, fr, emit):
        cfr = Frame(fr.module, fr, {})
        cfr.label = "<comp>"

        def rec(i):
            if i == len(gens):
                emit(cfr)
                return
            g = gens[i]
            src = self.eval(g.iter, cfr if i else fr)
            for v in self.iterate(src):
                self.tick()
                self.assign(g.target, v, cfr)
                if all(self.truth(self.eval(c, cfr)) for c in g.ifs):
                    rec(i + 1)
        rec(0)

    def e_ListComp(self, e, fr):
        out = []
        self._comp(e.generators, fr, lambda f: out.append(self.eval(e.elt, f)))
        return out

    def e_GeneratorExp(self, e, fr):
        return self.e_ListComp(e, fr)

    def e_SetComp(self, e, fr):
        return set(self.e_ListComp(e, fr))

    def e_DictComp(self, e, fr):
        out = {}

        def emit(f):
            k = self.eval(e.key, f)
            out[k] = self.eval(e.value, f)
        self._comp(e.generators, fr, emit)
        return out

    # ---------------------------------------------------------------- calls
    def e_Call(self, e, fr):
        f = self.eval(e.func, fr)
        args = []
        for a in e.args:
            if isinstance(a, ast.Starred):
                args.extend(self.iterate(self.eval(a.value, fr)))
            else:
                args.append(self.eval(a, fr))
        kwargs = {}
        for k in e.keywords:
            if k.arg is None:
                kwargs.update(self.eval(k.value, fr))
            else:
                kwargs[k.arg] = self.eval(k.value, fr)
        if isinstance(f, _Builtin):
            return self.call_builtin(f.name, args, kwargs, fr, e)
        return self.call(f, args, kwargs)

    def call(self, f, args, kwargs=None):
        kwargs = kwargs or {}
        self.tick()
        if isinstance(f, Unknown):
            return Unknown("call of %s" % f.reason)
        if isinstance(f, BoundMethod):
            if isinstance(f.func, FuncVal):
                return self.call_func(f.func, [f.self_obj] + list(args), kwargs)
            return self.call(f.func, [f.self_obj] + list(args), kwargs)
        if isinstance(f, FuncVal):
            return self.call_func(f, list(args), kwargs)
        if isinstance(f, ClassVal):
            return self.instantiate(f, args, kwargs)
        if isinstance(f, (ClassMethodMark, StaticMethodMark)):
            return self.call(f.func, args, kwargs)
        if isinstance(f, _Builtin):
            return self.call_builtin(f.name, args, kwargs, None, None)
        if isinstance(f, InstanceVal):
            k, v = f.cls.lookup("__call__")
            if v is _MISSING:
                raise PyRaise(TypeError("instance not callable"))
            return self.call(self.bind(v, f, f.cls), args, kwargs)
        if callable(f):
            return self.call_native(f, args, kwargs)
        raise PyRaise(TypeError("%r is not callable" % (f,)))

    def wrap(self, v):
        """Make interpreted callables usable as arguments of native functions (sorted(key=...), map ...)."""
        if isinstance(v, (FuncVal, BoundMethod)):
            return lambda *a, **k: self.call(v, list(a), k)
        return v

    def call_native(self, f, args, kwargs):
        if any(isinstance(a, Unknown) for a in args) or any(isinstance(a, Unknown) for a in kwargs.values()):
            mod = getattr(f, "__self__", None)
            if isinstance(mod, (list, dict, set)):
                # container methods may hold unknown elements
                pass
            else:
                return Unknown("native call with unknown argument")
        if f in (isinstance, issubclass):
            return self.isinstance_(f, args)
        if f is type or f is id:
            raise Unsupported("type()/id()")
        if f in (sorted, min, max, map, filter, any, all, sum, list, tuple, set, frozenset, dict, enumerate, zip, reversed, iter, next, len, bool, str, repr, hash):
            args = [self.native_view(a) for a in args]
        args = [self.wrap(a) for a in args]
        kwargs = {k: self.wrap(v) for k, v in kwargs.items()}
        try:
            r = f(*args, **kwargs)
        except (Unsupported, PyRaise, _Return):
            raise
        except RecursionError:
            raise
        except Exception as ex:
            raise PyRaise(ex)
        if f in (map, filter, zip, enumerate, reversed, iter):
            try:
                return list(r) if f is not iter else r
            except (Unsupported, PyRaise):
                raise
            except Exception as ex:
                raise PyRaise(ex)
        return r

    def native_view(self, a):
        if isinstance(a, InstanceVal):
            nv = a.attrs.get("__native__")
            if nv is not None:
                return nv
            raise Unsupported("native builtin over interpreted instance")
        return a

    def isinstance_(self, f, args):
        obj, cls = args
        cs = cls if isinstance(cls, tuple) else (cls,)
        for c in cs:
            if isinstance(c, ClassVal):
                if f is isinstance:
                    if isinstance(obj, InstanceVal) and c in obj.cls.mro():
                        return True
                else:
                    if isinstance(obj, ClassVal) and c in obj.mro():
                        return True
            elif isinstance(c, type):
                if f is isinstance:
                    if isinstance(obj, InstanceVal):
                        if c in obj.cls.mro():
                            return True
                    elif isinstance(obj, (FuncVal, BoundMethod, ClassVal, ModVal)):
                        continue
                    elif isinstance(obj, c):
                        return True
                else:
                    if isinstance(obj, ClassVal):
                        if c in obj.mro():
                            return True
                    elif isinstance(obj, type) and issubclass(obj, c):
                        return True
            elif isinstance(c, Unknown):
                return Unknown("isinstance against unknown class")
        return False

    def call_func(self, fv, args, kwargs):
        node = fv.node
        fr = Frame(fv.module, fv.frame, {})
        fr.label = fv.name
        fr.defcls = fv.defcls
        a = node.args
        params = a.posonlyargs + a.args
        names = [p.arg for p in params]
        if len(args) > len(names) and not a.vararg:
            raise PyRaise(TypeError("%s() takes %d positional arguments but %d were given" % (fv.name, len(names), len(args))))
        for n, v in zip(names, args):
            fr.locals[n] = v
        if a.vararg:
            fr.locals[a.vararg.arg] = tuple(args[len(names):])
        extra = {}
        for k, v in kwargs.items():
            if k in names[len(a.posonlyargs):] or k in [x.arg for x in a.kwonlyargs]:
                if k in fr.locals:
                    raise PyRaise(TypeError("%s() got multiple values for argument %s" % (fv.name, k)))
                fr.locals[k] = v
            elif a.kwarg:
                extra[k] = v
            else:
                raise PyRaise(TypeError("%s() got an unexpected keyword argument %s" % (fv.name, k)))
        if a.kwarg:
            fr.locals[a.kwarg.arg] = extra
        nd = len(fv.defaults)
        for i, n in enumerate(names):
            if n not in fr.locals:
                j = i - (len(names) - nd)
                if j >= 0:
                    fr.locals[n] = fv.defaults[j]
                else:
                    raise PyRaise(TypeError("%s() missing argument %s" % (fv.name, n)))
        for k in a.kwonlyargs:
            if k.arg not in fr.locals:
                if k.arg in fv.kw_defaults:
                    fr.locals[k.arg] = fv.kw_defaults[k.arg]
                else:
                    raise PyRaise(TypeError("%s() missing keyword argument %s" % (fv.name, k.arg)))
        if names:
            fr.self_obj = fr.locals.get(names[0])
        if isinstance(node, ast.Lambda):
            return self.eval(node.body, fr)
        if fv.is_generator:
            fr.yields = []
            try:
                self.exec_block(node.body, fr)
            except _Return:
                pass
            return list(fr.yields)
        try:
            self.exec_block(node.body, fr)
        except _Return as r:
            return r.value
        return None

    def instantiate(self, cv, args, kwargs):
        nb = cv.native_base()
        inst = InstanceVal(cv)
        if nb is not None:
            if issubclass(nb, BaseException):
                inst.attrs["args"] = tuple(args)
            elif nb in (list, dict, set) and self.native_instances:
                inst.attrs["__native__"] = nb()
            elif nb in (bytes, str, int, float, frozenset) and cv.lookup("__new__")[1] is _MISSING and cv.lookup("__init__")[1] is _MISSING:
                try:
                    return nb(*args, **kwargs)     # value semantics only (repr/str overrides are irrelevant to tables)
                except Exception as ex:
                    raise PyRaise(ex)
            else:
                return Unknown("instance of %s (native base %s)" % (cv.name, nb.__name__))
        k, init = cv.lookup("__init__")
        if init is not _MISSING:
            f = init.func if isinstance(init, (ClassMethodMark, StaticMethodMark)) else init
            self.call_func(f, [inst] + list(args), kwargs)
        elif (args or kwargs) and nb is None:
            raise PyRaise(TypeError("%s() takes no arguments" % cv.name))
        return inst

    def call_builtin(self, name, args, kwargs, fr, node):
        if name == "getattr":
            if isinstance(args[1], Unknown):
                return Unknown("getattr with unknown name")
            return self.getattr(args[0], args[1], *( [args[2]] if len(args) > 2 else []))
        if name == "setattr":
            if isinstance(args[1], Unknown):
                raise Unsupported("setattr with unknown name")
            self.setattr(args[0], args[1], args[2])
            return None
        if name == "hasattr":
            try:
                v = self.getattr(args[0], args[1])
            except PyRaise:
                return False
            return True
        if name == "dir":
            o = args[0]
            if isinstance(o, ModVal):
                return sorted(o.ns)
            if isinstance(o, ClassVal):
                s = set()
                for k in o.mro():
                    if isinstance(k, ClassVal):
                        s.update(k.ns)
                return sorted(s)
            if isinstance(o, InstanceVal):
                return sorted(set(o.attrs) | set(self.call_builtin("dir", [o.cls], {}, fr, node)))
            raise Unsupported("dir()")
        if name == "exec":
            if fr is None or not isinstance(args[0], str):
                raise Unsupported("exec")
            tree = ast.parse(args[0])
            for st in tree.body:
                self.exec_stmt(st, fr)
            return None
        if name == "super":
            if args:
                cls, obj = args[0], args[1]
            else:
                if fr is None:
                    raise Unsupported("super()")
                f = fr
                while f is not None and f.defcls is None:
                    f = f.parent
                if f is None:
                    raise Unsupported("super() outside class")
                cls, obj = f.defcls, f.self_obj
            return _Super(cls, obj)
        if name == "type":
            if len(args) == 1:
                o = args[0]
                if isinstance(o, InstanceVal):
                    return o.cls
                if isinstance(o, (FuncVal, BoundMethod, ClassVal, ModVal, Unknown)):
                    raise Unsupported("type() of interpreted object")
                return type(o)
            nm, bases, ns = args
            cv = ClassVal(nm, nm, list(bases), fr.module if fr else None)
            cv.ns.update(ns)
            return cv
        if name == "print":
            return None
        raise Unsupported("builtin %s" % name)

    # ---------------------------------------------------------------- utils
    def truth(self, v):
        if isinstance(v, Unknown):
            raise Unsupported("branch on unknown value (%s)" % v.reason)
        if isinstance(v, InstanceVal):
            nv = v.attrs.get("__native__")
            if nv is not None:
                return bool(nv)
            k, f = v.cls.lookup("__len__")
            if f is not _MISSING:
                return bool(self.call(self.bind(f, v, v.cls), [], {}))
            k, f = v.cls.lookup("__bool__")
            if f is not _MISSING:
                return bool(self.call(self.bind(f, v, v.cls), [], {}))
            return True
        if isinstance(v, (FuncVal, BoundMethod, ClassVal, ModVal, _Builtin, NativeMod)):
            return True
        return bool(v)

    def iterate(self, v):
        if isinstance(v, Unknown):
            raise Unsupported("iterate unknown (%s)" % v.reason)
        if isinstance(v, InstanceVal):
            nv = v.attrs.get("__native__")
            if nv is not None:
                return list(nv)
            raise Unsupported("iterate instance")
        try:
            return list(v) if not isinstance(v, (list, tuple, range, str, bytes, dict, set, frozenset)) else v
        except TypeError as ex:
            raise PyRaise(ex)


class _Builtin:
    def __init__(self, name):
        self.name = name

    def __repr__(self):
        return "<builtin %s>" % self.name


class _Super:
    def __init__(self, cls, obj):
        self.cls = cls
        self.obj = obj


def _super_getattr(interp, sup, name):
    objcls = sup.obj.cls if isinstance(sup.obj, InstanceVal) else sup.obj
    mro = objcls.mro()
    i = mro.index(sup.cls)
    for k in mro[i + 1:]:
        if isinstance(k, ClassVal) and name in k.ns:
            return interp.bind(k.ns[name], sup.obj if isinstance(sup.obj, InstanceVal) else None, objcls)
        if isinstance(k, type) and hasattr(k, name):
            if name == "__init__":
                return lambda *a, **kw: None
            raise Unsupported("super() reaches native %s.%s" % (k.__name__, name))
    raise PyRaise(AttributeError(name))


_orig_getattr = Interp.getattr


def _getattr(self, obj, name, default=_MISSING):
    if isinstance(obj, _Super):
        return _super_getattr(self, obj, name)
    if isinstance(obj, InstanceVal) and "__native__" in obj.attrs and name not in obj.attrs:
        k, v = obj.cls.lookup(name)
        if v is _MISSING:
            return getattr(obj.attrs["__native__"], name)
    return _orig_getattr(self, obj, name, default)


Interp.getattr = _getattr


def _as_load(t):
    t2 = ast.parse(ast.unparse(t), mode="eval").body
    return t2


def _walk_fn(node):
    stack = list(node.body)
    while stack:
        n = stack.pop()
        yield n
        for ch in ast.iter_child_nodes(n):
            if isinstance(ch, (ast.FunctionDef, ast.AsyncFunctionDef, ast.ClassDef, ast.Lambda)):
                continue
            stack.append(ch)


def _bound_names(st):
    out = []
    if isinstance(st, (ast.FunctionDef, ast.ClassDef, ast.AsyncFunctionDef)):
        out.append(st.name)
    for n in ast.walk(st):
        if isinstance(n, ast.Name) and isinstance(n.ctx, ast.Store):
            out.append(n.id)
        elif isinstance(n, ast.alias):
            out.append((n.asname or n.name).split(".")[0])
    return out
