"""Transcription of every function of pycoin/solve/ConstraintSolver.py as of the reviewed tree (see DESIGN.md section 12).
NEVER IMPORTED OR EXECUTED: parsed and compared in canonical form (sa/sym.py) with the functions in /repo."""


_CONSTS = {

}


# pycoin/solve/ConstraintSolver.py :: CONSTANT.__init__
def q__CONSTANT____init__(self, name):
    self._name = name


# pycoin/solve/ConstraintSolver.py :: CONSTANT.match
def q__CONSTANT__match(self, c):
    if not isinstance(c, Atom):
        return {self._name: c}
    return False


# pycoin/solve/ConstraintSolver.py :: VAR.__init__
def q__VAR____init__(self, name):
    self._name = name


# pycoin/solve/ConstraintSolver.py :: VAR.match
def q__VAR__match(self, c):
    if isinstance(c, Atom) and (not isinstance(c, Operator)):
        return {self._name: c}
    return False


# pycoin/solve/ConstraintSolver.py :: LIST.__init__
def q__LIST____init__(self, name):
    self._name = name


# pycoin/solve/ConstraintSolver.py :: LIST.match
def q__LIST__match(self, c):
    if isinstance(c, (tuple, list)):
        return {self._name: c}
    return False


# pycoin/solve/ConstraintSolver.py :: ConstraintSolver.__init__
def q__ConstraintSolver____init__(self):
    self._solvers_for_patterns = {}


# pycoin/solve/ConstraintSolver.py :: ConstraintSolver.register_solver
def q__ConstraintSolver__register_solver(self, pattern, solver_f):
    self._solvers_for_patterns[pattern] = solver_f


# pycoin/solve/ConstraintSolver.py :: ConstraintSolver.solutions_for_constraint
def q__ConstraintSolver__solutions_for_constraint(self, c):
    for pattern, f_factory in self._solvers_for_patterns.items():
        m = self.constraint_matches(c, pattern)
        if m:
            return f_factory(m)


# pycoin/solve/ConstraintSolver.py :: ConstraintSolver.constraint_matches
def q__ConstraintSolver__constraint_matches(self, c, m):
    if isinstance(m, tuple):
        d = {}
        if isinstance(c, Operator) and c._op_name == m[0]:
            for c1, m1 in zip(c._args, m[1:]):
                r = self.constraint_matches(c1, m1)
                if r is False:
                    return r
                d.update(r)
            return d
        return False
    return m.match(c)
