"""Shared helpers for rule files."""
from __future__ import annotations

import ast

from .pm import AnalysisError, norm, body_nodes
from . import df, gi


def is_raise_of(*names):
    def pred(e):
        if e.kind != "raise" or e.value is None:
            return False
        d = df.dotted(e.value.func if isinstance(e.value, ast.Call) else e.value) or ""
        return any(d == n or d.endswith("." + n) for n in names)
    return pred


def is_raise(e):
    return e.kind == "raise"


def const_resolver(ctx, fi, sym_texts, extra=None):
    """ints from literals / module constants / class constants; the expressions in sym_texts map to SYMBOL (+k)."""
    defs = df.single_defs(fi.node)
    it = ctx.interp

    def const(e):
        if norm(e) in sym_texts:
            return ("s", 0)
        if isinstance(e, ast.BinOp) and isinstance(e.op, (ast.Add, ast.Sub)) and norm(e.left) in sym_texts and df.const_int(e.right) is not None:
            k = df.const_int(e.right)
            return ("s", k if isinstance(e.op, ast.Add) else -k)
        e = df.expand(e, defs)
        t = norm(e)
        if t in sym_texts:
            return ("s", 0)
        if isinstance(e, ast.BinOp) and isinstance(e.op, (ast.Add, ast.Sub)) and norm(e.left) in sym_texts:
            k = df.const_int(e.right)
            if k is not None:
                return ("s", k if isinstance(e.op, ast.Add) else -k)
        v = df.const_int(e)
        if v is not None:
            return v
        if extra is not None:
            v = extra(e)
            if v is not None:
                return v
        if isinstance(e, (ast.Name, ast.Attribute)):
            r = ctx.p.resolve_expr_static(fi.module, e)
            if isinstance(r, tuple) and r[0] == "const":
                try:
                    val = it.get(r[1].name, r[2])
                except Exception:
                    return None
                if isinstance(val, int) and not isinstance(val, bool):
                    return val
            if isinstance(e, ast.Attribute) and norm(e.value) in ("self", "cls", "class_") and fi.cls is not None:
                try:
                    cv = it.get(fi.module.name, fi.cls.name)
                    val = it.getattr(cv, e.attr)
                except Exception:
                    return None
                if isinstance(val, int) and not isinstance(val, bool):
                    return val
        return None
    return const


def subject(texts, defs=None):
    texts = set(texts)

    def is_subject(e):
        if norm(e) in texts:
            return True
        if defs:
            e = df.expand(e, defs)
        return norm(e) in texts
    return is_subject


def guarded_by_subject(root, walker):
    """predicate on exits: the innermost `if` around the exit statement constrains the subject
    (its test atomizes to a formula containing a value-set atom)"""
    def pred(e):
        if e.node is None:
            return False
        t = enclosing_test(root, e.node)
        if t is None:
            return False
        return gi.involves_subject(walker.atomize(t))
    return pred


def enclosing_test(root, stmt):
    """test expression of the innermost `if` whose body (not orelse) contains stmt"""
    best = None
    for n in ast.walk(root):
        if isinstance(n, ast.If):
            for s in n.body:
                if any(x is stmt for x in ast.walk(s)):
                    best = n.test
    return best


def eval_in_module(ctx, module_info, expr, env=None):
    from .interp import Frame
    it = ctx.interp
    mv = it.module(module_info.name)
    return it.eval(expr, Frame(mv, None, dict(env or {})))


def opaque(t):
    return ("op", norm(t))


def guard_reject_set(root, walker, exits, pred, univ, empty, pure=False, allow=()):
    """Union over exits satisfying pred of the subject values their innermost guard rejects on its own
    (opaque atoms of that guard taken as false).  pure=True keeps only guards without other atoms (except `allow`)."""
    s = empty
    n = 0
    for e in exits:
        if not pred(e) or e.node is None:
            continue
        t = enclosing_test(root, e.node)
        if t is None:
            continue
        f = walker.atomize(t)
        if not gi.involves_subject(f):
            continue
        ops = gi.f_opaques(f)
        if pure and any(o not in allow for o in ops):
            continue
        n += 1
        # union over those truth assignments of the other atoms under which the subject is decisive
        import itertools
        for bits in itertools.product((False, True), repeat=len(ops)):
            sa = gi.f_eval(f, dict(zip(ops, bits)), univ, empty)
            if not (sa == univ):
                s = s | sa
    return s, n
