"""C07 - transaction and spendable codecs: structural obligations (DESIGN.md section 4, C07)."""
from __future__ import annotations

import ast

from sa.core import Ob
from sa.pm import AnalysisError, norm, body_nodes
from sa import gi, df, ru, ct, sym
from sa.pm import Undecided
from sa.gi import IntSet, iv, GuardWalker, SymbolicAtomizer, reach_sets

TX = "pycoin/coins/bitcoin/Tx.py"
CTX = "pycoin/coins/Tx.py"
TXIN = "pycoin/coins/bitcoin/TxIn.py"
TXOUT = "pycoin/coins/bitcoin/TxOut.py"
SP = "pycoin/coins/bitcoin/Spendable.py"
SINT = "pycoin/satoshi/satoshi_int.py"
SSTR = "pycoin/satoshi/satoshi_string.py"
U, E = IntSet.all(), IntSet.empty()


_REF = None


def _ref():
    global _REF
    if _REF is None:
        import os
        _REF = ast.parse(open(os.path.join(os.path.dirname(os.path.dirname(os.path.abspath(__file__))), "spec", "ref_tx.py")).read())
    return _REF


INTS = lambda t: t in ("v", "v1", "v2", "count", "size", "i", "version", "lock_time") or t.startswith(("len(", "ord(", "int("))


def _refcheck(ctx, rel, dotted, refname, key, ints=None):
    fi = ctx.p.functions.get(ctx.p.module(rel).name + "." + dotted) or ctx.func(rel, dotted)
    return sym.against_reference(ctx, fi, _ref(), refname, key, ints or INTS)


# ------------------------------------------------------------------ C07.1
def c07_1(ctx):
    _refcheck(ctx, TX, "Tx.stream", "tx_stream", "tx-writer")
    _refcheck(ctx, TX, "Tx.has_witness_data", "tx_has_witness_data", "has-witness")
    _refcheck(ctx, TX, "Tx.parse", "tx_parse", "tx-reader")
    for rel, cls, pre in ((TXIN, "TxIn", "txin"), (TXOUT, "TxOut", "txout")):
        _refcheck(ctx, rel, cls + ".stream", pre + "_stream", "writer:%s" % cls)
        _refcheck(ctx, rel, cls + ".parse", pre + "_parse", "reader:%s" % cls)
        _refcheck(ctx, rel, cls + ".__init__", pre + "_init", "fields:%s" % cls)
    # BIP144: the extended form is used iff some input has a non-empty witness STACK (its items may well be empty: a FALSE
    # argument of a P2WSH script is the empty item)
    import re as _re
    hw = ctx.func(TX, "Tx.has_witness_data")
    fm = sym.truth_formula(sym.walk(ctx, hw))
    txt = fm[1] if isinstance(fm, tuple) and fm[0] == "op" and isinstance(fm[1], str) else None
    if txt is None:
        raise Undecided("Tx.has_witness_data is not one `any input ...` test (%s); this rule does not read it" % (str(fm)[:80],))
    if _re.fullmatch(r"any\{truthy\((\w+)\.witness\)(#\d+)? for \1 in self\.txs_in\}", txt):
        ctx.ok("witness-flag-per-stack", sample={"predicate": txt})
    elif (txt.count(" for ") >= 2 or _re.search(r"\b(any|all)\(\w+\.witness\)", txt)) and ".witness" in txt and "self.txs_in" in txt:
        ctx.bad("witness-flag-per-stack", ctx.where(hw), "Tx.has_witness_data asks `%s`: it iterates INTO the witness stacks, so a transaction whose witness items are all empty ([b'']) is serialised in the legacy form and loses them"
                % txt[:120], sample={"predicate": txt[:160]})
    else:
        raise Undecided("Tx.has_witness_data tests `%s`; this rule reads `any input has a non-empty witness stack` only" % txt[:100])


# ------------------------------------------------------------------ C07.2
def c07_2(ctx):
    _refcheck(ctx, TX, "Tx.hash", "tx_hash", "txid-strips-witness")
    _refcheck(ctx, TX, "Tx.w_hash", "tx_w_hash", "wtxid-full")
    _refcheck(ctx, CTX, "Tx.as_bin", "btx_as_bin", "as-bin")
    a = ctx.func(TX, "Tx.stream").node.args
    names = [x.arg for x in a.args]
    d = dict(zip(names[len(names) - len(a.defaults):], a.defaults))
    ctx.check(all(isinstance(d.get(k), ast.Constant) for k in ("include_witness_data", "include_unspents", "blank_solutions")) and d["include_witness_data"].value is True and d["include_unspents"].value is False and d["blank_solutions"].value is False,
              "stream-defaults", TX + ":1", "Tx.stream defaults are not (blank_solutions=False, include_unspents=False, include_witness_data=True)")
    _refcheck(ctx, CTX, "Tx.id", "btx_id", "txid-text")
    _refcheck(ctx, TX, "Tx.w_id", "tx_w_id", "wtxid-text")
    _refcheck(ctx, CTX, "Tx.from_bin", "btx_from_bin", "from-bin")
    _refcheck(ctx, CTX, "Tx.from_hex", "btx_from_hex", "from-hex")
    _refcheck(ctx, CTX, "Tx.as_hex", "btx_as_hex", "as-hex")


# ------------------------------------------------------------------ C07.3
def c07_3(ctx):
    f = ctx.func(SINT, "stream_satoshi_int")
    v = f.params()[1]
    w = sym.int_walk(ctx, f, {v})
    got = {}
    for e in sym.calls_matching(w, ".write"):
        a = e.call.args[0] if e.call.args else None
        if a is None:
            continue
        parts = df.flatten_add(a)
        prefix = parts[0].value.hex() if len(parts) == 2 and isinstance(parts[0], ast.Constant) and isinstance(parts[0].value, bytes) else ""
        pk = parts[-1]
        fmt = pk.args[0].value if isinstance(pk, ast.Call) and norm(pk.func) == "struct.pack" and pk.args and isinstance(pk.args[0], ast.Constant) else None
        got[(prefix, fmt)] = got.get((prefix, fmt), E) | sym.may_set(e.reach, U, E)
    if not got or any(k[1] is None for k in got):
        raise Undecided("stream_satoshi_int: the bytes written are not `prefix + struct.pack(<format>, v)` on every path the walker can follow (%s)" % sorted(got, key=repr)[:4])
    want = {("", "<B"): iv(None, 252), ("fd", "<H"): iv(253, 65535), ("fe", "<L"): iv(65536, 0xFFFFFFFF), ("ff", "<Q"): iv(0x100000000, None)}
    for k in sorted(set(got) | set(want), key=repr):
        g, wv = got.get(k), want.get(k)
        ctx.check(g == wv, "compact-size-writer:%s" % (k[1],), ctx.where(f),
                  "stream_satoshi_int uses prefix %r / format %r for values %s; the compact-size encoding requires %s" % (k[0], k[1], g.fmt() if g is not None else None, wv.fmt() if wv is not None else "nothing"),
                  sample={"prefix": k[0], "format": k[1], "values": g.fmt() if g is not None else None})
    _refcheck(ctx, SINT, "stream_satoshi_int", "si_stream", "compact-size-writer-form")
    _refcheck(ctx, SINT, "parse_satoshi_int", "si_parse", "compact-size-reader")
    # a first byte handed in by the caller (Tx.parse peeks at it for the segwit marker) is dispatched on like one read here:
    # the 2 / 4 / 8 byte reads are reachable with `v is not None`
    pf = ctx.func(SINT, "parse_satoshi_int")
    pv = [p_ for p_ in pf.params() if p_ != pf.params()[0]]
    if pv:
        given = ("not", ("op", "%s is None" % pv[0]))
        wp = sym.walk(ctx, pf)
        wide = [e for e in wp.exits if e.kind == "return" and e.value is not None and "struct.unpack(" in norm(e.value)]
        if not wide:
            raise Undecided("parse_satoshi_int: no struct.unpack read of a wider form found")
        from rules.C09 import _sat
        ctx.check(all(_sat(gi.f_and(e.cond, given)) for e in wide), "reader-dispatches-given-byte", ctx.where(pf),
                  "parse_satoshi_int reads the 2 / 4 / 8 byte forms only when it read the first byte itself: a prefix byte 0xfd / 0xfe / 0xff handed in by the caller is returned as the count")
    _refcheck(ctx, SSTR, "stream_satoshi_string", "ss_stream", "var-string-writer")
    _refcheck(ctx, SSTR, "parse_satoshi_string", "ss_parse", "var-string-reader")


# ------------------------------------------------------------------ C07.4
def c07_4(ctx):
    c = ctx.p.cls(SP, "Spendable")
    assigned = set()
    for k in ctx.p.mro(c):
        i = k.methods.get("__init__")
        if i is not None:
            for st in body_nodes(i.node):
                if isinstance(st, ast.Assign) and isinstance(st.targets[0], ast.Attribute) and norm(st.targets[0].value) == "self":
                    assigned.add(st.targets[0].attr)
    s = ctx.func(SP, "Spendable.stream")
    methods = {m for k in ctx.p.mro(c) for m in k.methods}
    cattrs = {a for k in ctx.p.mro(c) for a in k.attrs}
    for n in ast.walk(s.node):
        if isinstance(n, ast.Attribute) and norm(n.value) == "self" and isinstance(n.ctx, ast.Load) and n.attr not in assigned and n.attr not in methods and n.attr not in cattrs:
            ctx.bad("writer-reads-missing-attribute:%s" % n.attr, ctx.where(s, n), "Spendable.stream reads self.%s, which no constructor of the class assigns (AttributeError)" % n.attr)
    for nm in ("__init__", "stream", "parse", "as_text", "from_text", "as_dict", "from_dict", "tx_in"):
        _refcheck(ctx, SP, "Spendable." + nm, "sp_" + nm.strip("_"), "spendable:%s" % nm)


# ------------------------------------------------------------------ C07.5
def c07_5(ctx):
    _refcheck(ctx, TX, "Tx.stream_unspents", "tx_stream_unspents", "unspents-writer")
    _refcheck(ctx, TX, "Tx.parse_unspents", "tx_parse_unspents", "unspents-reader")
    _refcheck(ctx, CTX, "Tx.set_unspents", "btx_set_unspents", "unspents-count")


OBLIGATIONS = [
    Ob("C07.1", "Tx / TxIn / TxOut writer and reader traces agree with BIP144", c07_1, floor=9, engines="SYM", breaks_if="witness transactions; empty witness items; mixed inputs"),
    Ob("C07.2", "txid hashes the witness-stripped form, wtxid the full form; hex/bin wrappers", c07_2, floor=9, engines="SYM"),
    Ob("C07.3", "compact-size partition: writer intervals and reader prefixes symmetric", c07_3, floor=8, engines="SYM,GI", breaks_if="lengths/counts of exactly 252, 253, 65535, 65536, 2^32"),
    Ob("C07.4", "Spendable binary / text / dict forms are field-symmetric with exact integer conversions", c07_4, floor=8, engines="SYM,PM", breaks_if="amounts above 2^53 in the text form; binary form"),
    Ob("C07.5", "unspents extension: zero amount <-> unknown", c07_5, floor=3, engines="SYM", breaks_if="spent output with empty script and non-zero amount"),
]
