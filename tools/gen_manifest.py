#!/venv/bin/python
"""Regenerate /verif/MANIFEST.json from the rule files that exist (one check per property with obligations)."""
import importlib
import json
import os
import sys

HERE = os.path.dirname(os.path.dirname(os.path.abspath(__file__)))
sys.path.insert(0, HERE)
sys.dont_write_bytecode = True

NOT_DECIDED = {
    "C01": "that the equation holds for honest signatures; numeric equality with RFC 6979; what the C libraries behind ctypes compute; recovery completeness",
    "C02": "associativity / commutativity, k*P = repeated addition, pure vs native coordinate equality, ladder correctness (numerical)",
    "C03": "equivalence with Bitcoin Core's interpreter as a whole: operand semantics of each operation beyond the listed clauses, multisig matching order, everything quantified over programs",
    "C04": "digest values as numbers",
    "C05": "that produced scripts validate under the policy flag set, order independence of partial signing, completeness over puzzle kinds",
    "C06": "the accept/reject consequence of each individual mutation (follows from the commitment contents only under the trusted hash)",
    "C07": "value equality of round trips beyond trace symmetry; boundary arithmetic inside struct",
    "C08": "injectivity of base58/bech32 (C11); classification of arbitrary scripts beyond the template/minimal-push clauses",
    "C09": "agreement with the BIP32 vectors, commutation as a numerical fact",
    "C10": "losslessness of the round trips as such",
    "C11": "exact inversion including leading zeros as a numerical fact; the <= 4-error detection guarantee of the BCH code",
    "C12": "bijection over all integers; byte-for-byte recompilation of arbitrary scripts",
    "C13": "the arithmetic identity itself beyond the divmod polynomial identity; decimal conversions as numbers",
    "C14": "acceptance of every honest proof / rejection of every corruption",
    "C15": "that the reported chain is heaviest for every delivery history, equivalence under batching, tie-breaking stability: only the structural clauses are decided",
    "C16": "value equality after the round trip beyond trace symmetry",
    "C17": "that signatures verify for the signer only; armour round trip",
    "C18": "equality of re-parsed objects",
    "C19": "digest equality for all inputs",
    "C20": "nothing beyond the listed clauses: the check is two-sided on every numeric rule, but acceptance of 'every well-formed transaction' also depends on the serializer (C07)",
}
TECH = {
    "C01": "guard -> interval abstraction (symbolic endpoint = group order), def-use matching of the ECDSA/RFC 6979 formulas, infinity-guard dominance",
    "C02": "on-curve-by-construction return analysis, modular guard normalisation, infinity-guard dominance, linear blinding identity, sibling prelude comparison",
    "C03": "abstract interpretation of the import-time dispatch table (256 entries) vs a consensus table; guard intervals; dominance of bounds; flag-plumbing def-use",
    "C04": "finite partition of all 256 hash types through the branch guards; codec traces of the BIP143 pre-image; freshness/effect analysis",
    "C05": "effect set with freshness, dominance of low-S normalisation and of the failed-validation handler, sibling comparison of fork-id solvers",
    "C06": "effect/freshness analysis of the validation call tree, cache-scope def-use, guard intervals on the unspent guard, shared commitment partitions",
    "C07": "writer/reader codec traces compared field by field; compact-size partition as intervals",
    "C08": "configuration table predicates over all symbol files; guard intervals on payload lengths; template agreement; minimal-push def-use",
    "C09": "dominance of the hardened-from-public refusal, cache-key def-use, serialisation layout traces, CKD message shapes",
    "C10": "finite decision table (prefix byte x length class x strict) through the SEC decoder's guards; intervals vs field prime / order; DER remainder def-use",
    "C11": "literal tables vs the standards; decode decision guards as intervals; checksum dominance",
    "C12": "abstract interpretation of the push encoder/decoder registries (captured constants), guard intervals, finite partition of the disassembler over 256 opcodes",
    "C13": "dominance of insufficiency guards over amount writes; def-use of the fee and pairing definitions; per-input coverage of the mismatch guards",
    "C14": "header codec traces; merkle check dominance; BIP37 rejection-guard inventory as formulas",
    "C15": "structural clauses only: argmax idiom, ops/index-map lock-step, affine index maps, work-set consumption consistency, single notion of known hash",
    "C16": "exhaustive layout/letter table, codec pair wire types, struct call shapes, array symmetry",
    "C17": "exception-escape analysis of verify_message; header-byte partition; recovery arithmetic kinds",
    "C18": "exception-escape analysis of all parse entry points; length-guard intervals; binding completeness",
    "C19": "RIPEMD-160 tables re-derived from the specification's permutations; murmur3 constants; 32-bit width hygiene; selection fall-through",
    "C20": "guard -> interval abstraction with per-coin symbolic endpoints; def-use of the duplicate-outpoint key; null-outpoint predicate",
}

props = {}
for l in open(os.path.join(HERE, "properties.jsonl")):
    d = json.loads(l)
    props[d["id"]] = d

checks = []
na = []
for i in range(1, 21):
    pid = "C%02d" % i
    path = os.path.join(HERE, "rules", pid + ".py")
    if not os.path.exists(path):
        na.append({"property_id": pid, "reason": "check not built yet (build in progress; see DESIGN.md section 9)"})
        continue
    mod = importlib.import_module("rules." + pid)
    obs = mod.OBLIGATIONS
    n = len(obs)
    checks.append({
        "property_id": pid,
        "quick_cmd": "./check %s --tier quick" % pid,
        "thorough_cmd": "./check %s --tier thorough" % pid,
        "evidence_file": "/verif/evidence/%s.json" % pid,
        "replay_cmd_template": "./check --replay {path}",
        "engine": "sa",
        "level_claimed": {
            "category": "other",
            "text": ("static analysis of /repo's working tree: %d structural obligations (%s), each a necessary condition of %s; the check decides those clauses "
                     "on every run and does not decide the behavioural universal statement" % (n, ", ".join(o.id for o in obs), pid)),
            "design_ref": "DESIGN.md section 4, %s" % pid,
        },
        "level_note": "not decided: %s. Trusted: CPython ast, the reference tables in /verif/spec, semantics of struct/hashlib/hmac/binascii, the abstract interpreter /verif/sa/interp.py; Any-typed receivers resolved by method name." % NOT_DECIDED[pid],
        "technique": TECH[pid],
    })

manifest = {
    "version": 1,
    "setup_cmd": "true",
    "hooks": {
        "guard": "PYCOIN_VERIF",
        "enable": "none: static analysis reads /repo's working tree, no instrumentation exists (the guard name is unused)",
        "baseline_off_cmd": "cd /repo && /venv/bin/python -m pytest -ra -q -p no:cacheprovider --timeout=900 --continue-on-collection-errors",
        "source_commits": [],
        "add_only": True,
    },
    "engines": [{"name": "sa", "path": "/verif/sa", "serves_properties": [c["property_id"] for c in checks],
                 "kind_free_text": "repository-specific static analysis: program model over ast, abstract interpreter for import-time tables, guard->value-set abstraction, "
                                   "CFG/dominance, codec traces, effect/freshness, exception escape"}],
    "checks": checks,
    "notes": "All checks are interpreted (no build step). Genuine defects found on the pinned tree were repaired in /repo by unguarded 'fix:' commits and are listed in /verif/known_findings.json as fixed.",
    "not_applicable": na,
}
json.dump(manifest, open(os.path.join(HERE, "MANIFEST.json"), "w"), indent=1)
print("checks:", len(checks), "not_applicable:", len(na))
