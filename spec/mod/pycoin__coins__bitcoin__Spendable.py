"""Transcription of every function of pycoin/coins/bitcoin/Spendable.py as of the reviewed tree (see DESIGN.md section 12).
NEVER IMPORTED OR EXECUTED: parsed and compared in canonical form (sa/sym.py) with the functions in /repo."""


_CONSTS = {

}


# pycoin/coins/bitcoin/Spendable.py :: Spendable.__init__
def q__Spendable____init__(self, coin_value, script, tx_hash, tx_out_index, block_index_available=0, does_seem_spent=False, block_index_spent=0):
    super(Spendable, self).__init__(coin_value, script)
    self.tx_hash = tx_hash
    self.tx_out_index = tx_out_index
    self.block_index_available = block_index_available
    self.does_seem_spent = int(does_seem_spent)
    self.block_index_spent = block_index_spent


# pycoin/coins/bitcoin/Spendable.py :: Spendable.stream
def q__Spendable__stream(self, f, as_spendable=False):
    super(Spendable, self).stream(f)
    if as_spendable:
        stream_struct('#LIbI', f, self.tx_hash, self.tx_out_index, self.block_index_available, bool(self.does_seem_spent), self.block_index_spent)


# pycoin/coins/bitcoin/Spendable.py :: Spendable.parse
def q__Spendable__parse(cls, f):
    return cls(*parse_struct('QS#LIbI', f))


# pycoin/coins/bitcoin/Spendable.py :: Spendable.from_bin
def q__Spendable__from_bin(cls, blob):
    f = io.BytesIO(blob)
    return cls.parse(f)


# pycoin/coins/bitcoin/Spendable.py :: Spendable.as_bin
def q__Spendable__as_bin(self, as_spendable=False):
    f = io.BytesIO()
    self.stream(f, as_spendable=as_spendable)
    return f.getvalue()


# pycoin/coins/bitcoin/Spendable.py :: Spendable.as_dict
def q__Spendable__as_dict(self):
    return dict(coin_value=self.coin_value, script_hex=b2h(self.script), tx_hash_hex=b2h_rev(self.tx_hash), tx_out_index=self.tx_out_index, block_index_available=self.block_index_available, does_seem_spent=int(self.does_seem_spent), block_index_spent=self.block_index_spent)


# pycoin/coins/bitcoin/Spendable.py :: Spendable.from_dict
def q__Spendable__from_dict(cls, d):
    return cls(d['coin_value'], h2b(d['script_hex']), h2b_rev(d['tx_hash_hex']), d['tx_out_index'], d.get('block_index_available', 0), d.get('does_seem_spent', 0), d.get('block_index_spent', 0))


# pycoin/coins/bitcoin/Spendable.py :: Spendable.from_tx_out
def q__Spendable__from_tx_out(cls, tx_out, previous_hash, previous_index, block_index_available=0):
    return Spendable(tx_out.coin_value, tx_out.script, previous_hash, previous_index, block_index_available)


# pycoin/coins/bitcoin/Spendable.py :: Spendable.as_text
def q__Spendable__as_text(self):
    return '/'.join([b2h_rev(self.tx_hash), str(self.tx_out_index), b2h(self.script), str(self.coin_value), str(self.block_index_available), '%d' % self.does_seem_spent, str(self.block_index_spent)])


# pycoin/coins/bitcoin/Spendable.py :: Spendable.from_text
def q__Spendable__from_text(cls, text):
    parts = (text.split('/') + ['0', '0', '0'])[:7]
    tx_hash_hex, tx_out_index_str, script_hex, coin_value, block_index_available, does_seem_spent, block_index_spent = parts
    tx_hash = h2b_rev(str(tx_hash_hex))
    tx_out_index = int(tx_out_index_str)
    script = h2b(str(script_hex))
    coin_value_int = int(coin_value)
    return cls(coin_value_int, script, tx_hash, tx_out_index, int(block_index_available), bool(int(does_seem_spent)), int(block_index_spent))


# pycoin/coins/bitcoin/Spendable.py :: Spendable.tx_in
def q__Spendable__tx_in(self, script=b'', sequence=4294967295):
    return self.TxIn(self.tx_hash, self.tx_out_index, script, sequence)


# pycoin/coins/bitcoin/Spendable.py :: Spendable.__str__
def q__Spendable____str__(self):
    return 'Spendable<%s mbtc "%s:%d" %s/%s/%s>' % (satoshi_to_mbtc(self.coin_value), b2h_rev(self.tx_hash), self.tx_out_index, self.block_index_available, self.does_seem_spent, self.block_index_spent)


# pycoin/coins/bitcoin/Spendable.py :: Spendable.__repr__
def q__Spendable____repr__(self):
    return str(self)
