"""Call-tree obligation: every function of the modules a property is anchored in computes what it computed on the reviewed
tree (canonical form, sa/sym.py) -- spec/mod/<module>.py holds the transcriptions (parsed, never imported).
same => holds;  a component computes something else / happens under another condition => VIOLATED;
organised differently => UNDECIDED;  function absent from the transcription (added since) => not judged;
transcribed function absent from the module (removed / renamed) => UNDECIDED."""
from __future__ import annotations

import ast
import json
import os

from .pm import AnalysisError
from . import sym

HERE = os.path.dirname(os.path.dirname(os.path.abspath(__file__)))
_TREES = {}

GENERIC_INTS = ("i", "j", "k", "n", "idx", "index", "count", "size", "length", "pos", "offset", "total", "depth", "version", "lock_time", "sequence", "hash_type", "flags", "pc", "v", "e", "r", "s", "x", "y", "p", "order")


def generic_ints(extra=None):
    def pred(t):
        if t in GENERIC_INTS or t.startswith(("len(", "ord(", "int(", "abs(")):
            return True
        return bool(extra and extra(t))
    return pred


def anchor_files(pid):
    for l in open(os.path.join(HERE, "properties.jsonl")):
        d = json.loads(l)
        if d["id"] == pid:
            return [f for f in d["anchors"]["files"] if f.endswith(".py")]
    return []


def _tree(modname):
    if modname not in _TREES:
        path = os.path.join(HERE, "spec", "mod", modname.replace(".", "__") + ".py")
        _TREES[modname] = ast.parse(open(path).read()) if os.path.exists(path) else None
    return _TREES[modname]


def call_tree(ctx, pid, ints=None, floor_note=True):
    rels = anchor_files(pid)
    ints = generic_ints(ints)
    n_mod = 0
    for rel in rels:
        try:
            m = ctx.p.module(rel)
        except AnalysisError:
            ctx.undecided("module:%s" % rel, "%s:1" % rel, "anchor module %s is gone" % rel)
            continue
        tree = _tree(m.name)
        if tree is None:
            continue
        n_mod += 1
        names = {n.name for n in tree.body if isinstance(n, ast.FunctionDef)}
        seen = set()
        for q, f in sorted(ctx.p.functions.items()):
            if f.module is not m or isinstance(f.node, ast.Lambda):
                continue
            rn = "q__" + q[len(m.name) + 1:].replace(".", "__").replace("<", "").replace(">", "")
            if rn not in names:
                ctx.note("not judged (added since the transcription): %s" % q)
                continue
            seen.add(rn)
            key = (q, "modref")
            cache = ctx.cache.setdefault("modref", {})
            if key not in cache:
                try:
                    status, details, s_ref, _ = sym.reference_status(ctx, f, tree, rn, ints)
                except Exception as e:
                    status, details = "unrecognised", [("error", "engine", "%s: %s" % (type(e).__name__, str(e)[:80]), None, 0.0)]
                cache[key] = (status, details)
            status, details = cache[key]
            where = "%s:%d" % (rel, f.node.lineno)
            if status == "same":
                ctx.ok("fn:%s" % q, nontrivial=True)
            elif status == "differs":
                for d in details[:3]:
                    ctx.bad("fn:%s:%s" % (q.split(".", 1)[-1], d[1]), where,
                            "%s computes `%s` where the reviewed tree computes `%s`" % (q, (d[3] or "")[:260], (d[2] or "")[:260]))
            else:
                ctx.undecided("fn:%s" % q, where, "%s is organised differently from its transcription (%s); no verdict"
                              % (q, "; ".join("%s %s" % (d[0], (d[2] or d[3] or "")[:70]) for d in details[:2])))
        for rn in sorted(names - seen):
            ctx.undecided("fn-gone:%s" % rn, "%s:1" % rel, "%s of %s is no longer there under that name (removed, renamed or moved): no verdict on it" % (rn[3:].replace("__", "."), rel))
    if n_mod == 0:
        raise AnalysisError("no transcribed anchor module of %s found" % pid)


def transcribed_count(pid):
    n = 0
    for rel in anchor_files(pid):
        t = _tree(rel[:-3].replace("/", ".").replace(".__init__", ""))
        if t is not None:
            n += sum(1 for x in t.body if isinstance(x, ast.FunctionDef))
    return n


def obligation(pid, ints=None):
    from .core import Ob
    return Ob(pid + ".T", "call tree: every function of the anchor modules computes what its reviewed transcription computes (canonical forms; organised differently => undecided)",
              lambda ctx: call_tree(ctx, pid, ints), floor=max(1, transcribed_count(pid)), engines="SYM",
              breaks_if="inputs reaching the named function's changed component")


def ref_name(fi):
    return "q__" + fi.qualname[len(fi.module.name) + 1:].replace(".", "__").replace("<", "").replace(">", "")


def is_reviewed(fi):
    """the function is part of the reviewed transcription of its module (or the module has none: nothing to tell apart)"""
    tree = _tree(fi.module.name)
    if tree is None:
        return True
    key = "names:" + fi.module.name
    if key not in _TREES:
        _TREES[key] = {n.name for n in tree.body if isinstance(n, ast.FunctionDef)}
    return ref_name(fi) in _TREES[key]
