"""Reference transcriptions for C19.  THIS FILE IS NEVER IMPORTED OR EXECUTED: the checker parses it and compares
canonical forms (sa/sym.py) with the functions in /repo.

  * RIPEMD-160: Dobbertin, Bosselaers, Preneel, "RIPEMD-160: a strengthened version of RIPEMD" (1996), pseudo-code
    of appendix A: two lines of 80 steps  T = rol_s(A + f(B,C,D) + X[r] + K) + E; A = E; E = D; D = rol_10(C); C = B; B = T,
    left line uses f_(j/16), right line f_(4 - j/16); final combination h1+C+D', h2+D+E', h3+E+A', h4+A+B', h0+B+C';
    Merkle-Damgard padding: 0x80, zeros to 56 mod 64, 64-bit little-endian BIT length.
  * MurmurHash3_x86_32: Appleby's MurmurHash3.cpp (body / tail / fmix32), on Python's unbounded integers
    (only right shifts need the operand reduced to 32 bits; the result is reduced at the end).
  * BIP37: nHashNum * 0xFBA4C795 + nTweak, bit index = hash mod (8 * size), bit b of the filter is bit (b & 7) of byte (b >> 3).
"""


def fi(x, y, z, i):
    if i == 0:
        return x ^ y ^ z
    elif i == 1:
        return (x & y) | (~x & z)
    elif i == 2:
        return (x | ~y) ^ z
    elif i == 3:
        return (x & z) | (y & ~z)
    elif i == 4:
        return x ^ (y | ~z)
    else:
        assert False


def rol(x, i):
    return ((x << i) | ((x & 0xFFFFFFFF) >> (32 - i))) & 0xFFFFFFFF


def compress(h0, h1, h2, h3, h4, block):
    al, bl, cl, dl, el = h0, h1, h2, h3, h4
    ar, br, cr, dr, er = h0, h1, h2, h3, h4
    x = [struct.unpack("<L", block[4 * i:4 * i + 4])[0] for i in range(16)]
    for j in range(80):
        tl = rol(al + fi(bl, cl, dl, j >> 4) + x[ML[j]] + KL[j >> 4], RL[j]) + el
        al, el, dl, cl, bl = el, dl, rol(cl, 10), bl, tl
        tr = rol(ar + fi(br, cr, dr, 4 - (j >> 4)) + x[MR[j]] + KR[j >> 4], RR[j]) + er
        ar, er, dr, cr, br = er, dr, rol(cr, 10), br, tr
    return h1 + cl + dr, h2 + dl + er, h3 + el + ar, h4 + al + br, h0 + bl + cr


def compress_v2(h0, h1, h2, h3, h4, block):
    al, bl, cl, dl, el = h0, h1, h2, h3, h4
    ar, br, cr, dr, er = h0, h1, h2, h3, h4
    x = struct.unpack("<16L", block)
    for j in range(80):
        tl = rol(al + fi(bl, cl, dl, j >> 4) + x[ML[j]] + KL[j >> 4], RL[j]) + el
        al, el, dl, cl, bl = el, dl, rol(cl, 10), bl, tl
        tr = rol(ar + fi(br, cr, dr, 4 - (j >> 4)) + x[MR[j]] + KR[j >> 4], RR[j]) + er
        ar, er, dr, cr, br = er, dr, rol(cr, 10), br, tr
    return h1 + cl + dr, h2 + dl + er, h3 + el + ar, h4 + al + br, h0 + bl + cr


def ripemd160(data):
    state = (0x67452301, 0xEFCDAB89, 0x98BADCFE, 0x10325476, 0xC3D2E1F0)
    for b in range(len(data) >> 6):
        state = compress(*state, data[64 * b:64 * (b + 1)])
    pad = b"\x80" + b"\x00" * ((119 - len(data)) & 63)
    fin = data[len(data) & ~63:] + pad + struct.pack("<Q", 8 * len(data))
    for b in range(len(fin) >> 6):
        state = compress(*state, fin[64 * b:64 * (b + 1)])
    return b"".join(struct.pack("<L", h & 0xFFFFFFFF) for h in state)


def ripemd160_v2(data):
    state = (0x67452301, 0xEFCDAB89, 0x98BADCFE, 0x10325476, 0xC3D2E1F0)
    for b in range(len(data) >> 6):
        state = compress(*state, data[64 * b:64 * (b + 1)])
    pad = b"\x80" + b"\x00" * ((119 - len(data)) & 63)
    fin = data[len(data) & ~63:] + pad + struct.pack("<Q", 8 * len(data))
    for b in range(len(fin) >> 6):
        state = compress(*state, fin[64 * b:64 * (b + 1)])
    return struct.pack("<5L", *[h & 0xFFFFFFFF for h in state])


def murmur3(data, seed=0):
    h1 = seed
    nblocks4 = len(data) & 0xFFFFFFFC
    for i in range(0, nblocks4, 4):
        k1 = (data[i] & 0xFF) | ((data[i + 1] & 0xFF) << 8) | ((data[i + 2] & 0xFF) << 16) | (data[i + 3] << 24)
        k1 = k1 * 0xCC9E2D51
        k1 = (k1 << 15) | ((k1 & 0xFFFFFFFF) >> 17)
        k1 = k1 * 0x1B873593
        h1 = h1 ^ k1
        h1 = (h1 << 13) | ((h1 & 0xFFFFFFFF) >> 19)
        h1 = h1 * 5 + 0xE6546B64
    k1 = 0
    tail = len(data) & 3
    if tail == 3:
        k1 = (data[nblocks4 + 2] & 0xFF) << 16
    if tail in (2, 3):
        k1 |= (data[nblocks4 + 1] & 0xFF) << 8
    if tail in (1, 2, 3):
        k1 |= data[nblocks4] & 0xFF
        k1 *= 0xCC9E2D51
        k1 = (k1 << 15) | ((k1 & 0xFFFFFFFF) >> 17)
        k1 *= 0x1B873593
        h1 ^= k1
    h1 ^= len(data)
    h1 ^= (h1 & 0xFFFFFFFF) >> 16
    h1 *= 0x85EBCA6B
    h1 ^= (h1 & 0xFFFFFFFF) >> 13
    h1 *= 0xC2B2AE35
    h1 ^= (h1 & 0xFFFFFFFF) >> 16
    return h1 & 0xFFFFFFFF


def bloom_init(self, size_in_bytes, hash_function_count, tweak):
    if size_in_bytes > 36000:
        raise ValueError("too large")
    self.filter_bytes = bytearray(size_in_bytes)
    self.bit_count = 8 * size_in_bytes
    self.hash_function_count = hash_function_count
    self.tweak = tweak


def bloom_add_item(self, item_bytes):
    for n in range(self.hash_function_count):
        self.set_bit(murmur3(item_bytes, seed=n * 0xFBA4C795 + self.tweak) % self.bit_count)


def bloom_index_for_bit(self, v):
    b = v % self.bit_count
    return b >> 3, self.MASK_ARRAY[b & 7]


def bloom_set_bit(self, v):
    byte_index, mask = self._index_for_bit(v)
    self.filter_bytes[byte_index] |= mask


def bloom_check_bit(self, v):
    byte_index, mask = self._index_for_bit(v)
    return (self.filter_bytes[byte_index] & mask) == mask


# ---- pycoin.encoding.hash
def ripemd160_native(data):
    return hashlib.new("ripemd160", data)


def pure_init(self, data):
    self._digest = pycoin.contrib.ripemd160.ripemd160(data)


def pure_digest(self):
    return self._digest


def get_best_ripemd160():
    if "ripemd160" in hashlib.algorithms_available and not os.getenv("PYCOIN_USE_PYTHON_RIPEMD160"):
        try:
            ripemd160_native(b"").digest()
            return ripemd160_native
        except Exception:
            pass
    try:
        from Crypto.Hash.RIPEMD import RIPEMD160Hash
        return cast(HashFactory, RIPEMD160Hash)
    except Exception:
        return _PurePythonRIPEMD160


def double_sha256(data):
    return bytes_as_revhex(hashlib.sha256(hashlib.sha256(data).digest()).digest())


def hash160(data):
    return ripemd160(hashlib.sha256(data).digest()).digest()
