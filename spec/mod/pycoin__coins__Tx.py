"""Transcription of every function of pycoin/coins/Tx.py as of the reviewed tree (see DESIGN.md section 12).
NEVER IMPORTED OR EXECUTED: parsed and compared in canonical form (sa/sym.py) with the functions in /repo."""


_CONSTS = {

}


# pycoin/coins/Tx.py :: Tx.parse
def q__Tx__parse(class_, f):
    raise NotImplementedError()


# pycoin/coins/Tx.py :: Tx.from_bin
def q__Tx__from_bin(class_, blob):
    f = io.BytesIO(blob)
    tx = class_.parse(f)
    try:
        tx.parse_unspents(f)
    except Exception:
        tx.unspents = []
    return tx


# pycoin/coins/Tx.py :: Tx.from_hex
def q__Tx__from_hex(class_, hex_string):
    return class_.from_bin(h2b(hex_string))


# pycoin/coins/Tx.py :: Tx.__init__
def q__Tx____init__(self, *args, **kwargs):
    raise NotImplementedError()


# pycoin/coins/Tx.py :: Tx.stream
def q__Tx__stream(self, f, *args, **kwargs):
    raise NotImplementedError()


# pycoin/coins/Tx.py :: Tx.as_bin
def q__Tx__as_bin(self, *args, **kwargs):
    f = io.BytesIO()
    self.stream(f, *args, **kwargs)
    return f.getvalue()


# pycoin/coins/Tx.py :: Tx.as_hex
def q__Tx__as_hex(self, *args, **kwargs):
    return b2h(self.as_bin(*args, **kwargs))


# pycoin/coins/Tx.py :: Tx.hash
def q__Tx__hash(self, hash_type=None):
    raise NotImplementedError()


# pycoin/coins/Tx.py :: Tx.id
def q__Tx__id(self):
    return b2h_rev(self.hash())


# pycoin/coins/Tx.py :: Tx.total_out
def q__Tx__total_out(self):
    return sum((tx_out.coin_value for tx_out in self.txs_out))


# pycoin/coins/Tx.py :: Tx.tx_outs_as_spendable
def q__Tx__tx_outs_as_spendable(self, block_index_available=0):
    h = self.hash()
    return [self.Spendable.from_tx_out(tx_out, h, tx_out_index, block_index_available) for tx_out_index, tx_out in enumerate(self.txs_out)]


# pycoin/coins/Tx.py :: Tx.__str__
def q__Tx____str__(self):
    raise NotImplementedError()


# pycoin/coins/Tx.py :: Tx.__repr__
def q__Tx____repr__(self):
    raise NotImplementedError()


# pycoin/coins/Tx.py :: Tx.check
def q__Tx__check(self):
    raise NotImplementedError()


# pycoin/coins/Tx.py :: Tx.set_unspents
def q__Tx__set_unspents(self, unspents):
    if len(unspents) != len(self.txs_in):
        raise ValueError()
    self.unspents = unspents


# pycoin/coins/Tx.py :: Tx.sign
def q__Tx__sign(self, *args, **kwargs):
    self.Solver(self).sign(*args, **kwargs)
    return self


# pycoin/coins/Tx.py :: Tx.check_solution
def q__Tx__check_solution(self, tx_in_idx, *args, **kwargs):
    if len(self.unspents) <= tx_in_idx or self.unspents[tx_in_idx] is None:
        raise ScriptError()
    sc = self.SolutionChecker(self)
    tx_context = sc.tx_context_for_idx(tx_in_idx)
    sc.check_solution(tx_context, *args, **kwargs)


# pycoin/coins/Tx.py :: Tx.is_solution_ok
def q__Tx__is_solution_ok(self, tx_in_idx, *args, **kwargs):
    if len(self.unspents) <= tx_in_idx or self.unspents[tx_in_idx] is None:
        return False
    try:
        self.check_solution(tx_in_idx, *args, **kwargs)
        return True
    except ScriptError:
        return False


# pycoin/coins/Tx.py :: Tx.bad_solution_count
def q__Tx__bad_solution_count(self, *args, **kwargs):
    return sum((0 if self.is_solution_ok(idx, *args, **kwargs) else 1 for idx in range(len(self.txs_in))))
