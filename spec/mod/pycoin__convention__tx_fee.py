"""Transcription of every function of pycoin/convention/tx_fee.py as of the reviewed tree (see DESIGN.md section 12).
NEVER IMPORTED OR EXECUTED: parsed and compared in canonical form (sa/sym.py) with the functions in /repo."""


_CONSTS = {
    'TX_FEE_PER_THOUSAND_BYTES': 10000,
}


# pycoin/convention/tx_fee.py :: recommended_fee_for_tx
def q__recommended_fee_for_tx(tx):
    s = io.BytesIO()
    tx.stream(s)
    tx_byte_count = len(s.getvalue())
    tx_fee = TX_FEE_PER_THOUSAND_BYTES * ((999 + tx_byte_count) // 1000)
    return tx_fee
