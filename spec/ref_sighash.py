"""Reference transcriptions for C04 / C05 / C06 (signature hashes and the validation they feed).  NEVER IMPORTED OR
EXECUTED: parsed and compared in canonical form (sa/sym.py) with the functions in /repo.  Reviewed against Bitcoin
Core's SignatureHash (legacy: OP_CODESEPARATOR removed, other inputs' scripts blanked, NONE drops the outputs and zeroes
the other sequences, SINGLE keeps output[idx] after idx blanked ones and returns 1 for idx >= number of outputs,
ANYONECANPAY keeps only the signed input, hash type appended as u32) and BIP143 (hashPrevouts / hashSequence /
hashOutputs zeroing rules with the base type taken as hash_type & 0x1f, pre-image field order)."""


SIGHASH_ALL = 1
SIGHASH_NONE = 2
SIGHASH_SINGLE = 3
SIGHASH_FORKID = 0x40
SIGHASH_ANYONECANPAY = 0x80
ZERO32 = b"\x00\x00\x00\x00\x00\x00\x00\x00\x00\x00\x00\x00\x00\x00\x00\x00\x00\x00\x00\x00\x00\x00\x00\x00\x00\x00\x00\x00\x00\x00\x00\x00"


# pycoin/coins/bitcoin/SolutionChecker.py :: BitcoinSolutionChecker._signature_hash
def bsc_signature_hash(self, tx_out_script, unsigned_txs_out_idx, hash_type):
    tx_out_script = self.delete_subscript(tx_out_script, self.ScriptTools.compile('OP_CODESEPARATOR'))
    txs_in = [self._tx_in_for_idx(i, tx_in, tx_out_script, unsigned_txs_out_idx) for i, tx_in in enumerate(self.tx.txs_in)]
    txs_out = self.tx.txs_out
    if hash_type & 31 == SIGHASH_NONE:
        txs_out = []
        for i in range(len(txs_in)):
            if i != unsigned_txs_out_idx:
                txs_in[i].sequence = 0
    elif hash_type & 31 == SIGHASH_SINGLE:
        if unsigned_txs_out_idx >= len(txs_out):
            return 1 << 248
        txs_out = [self.tx.TxOut(18446744073709551615, b'')] * unsigned_txs_out_idx
        txs_out.append(self.tx.txs_out[unsigned_txs_out_idx])
        for i in range(len(txs_in)):
            if i != unsigned_txs_out_idx:
                txs_in[i].sequence = 0
    if hash_type & SIGHASH_ANYONECANPAY:
        txs_in = [txs_in[unsigned_txs_out_idx]]
    tmp_tx = self.tx.__class__(self.tx.version, txs_in, txs_out, self.tx.lock_time)
    return from_bytes_32(tmp_tx.hash(hash_type=hash_type))


# pycoin/coins/bitcoin/SolutionChecker.py :: BitcoinSolutionChecker._tx_in_for_idx
def bsc_tx_in_for_idx(self, idx, tx_in, tx_out_script, unsigned_txs_out_idx):
    if idx == unsigned_txs_out_idx:
        return self.tx.TxIn(tx_in.previous_hash, tx_in.previous_index, tx_out_script, tx_in.sequence)
    return self.tx.TxIn(tx_in.previous_hash, tx_in.previous_index, b'', tx_in.sequence)


# pycoin/coins/bitcoin/SolutionChecker.py :: BitcoinSolutionChecker._make_sighash_f.sig_for_hash_type_f
def bsc_sig_for_hash_type_f(hash_type, sig_blobs, vm):
    script = vm.script[vm.begin_code_hash:]
    for sig_blob in sig_blobs:
        script = self._delete_signature(script, sig_blob)
    return self._signature_hash(script, tx_in_idx, hash_type)


# pycoin/coins/bitcoin/SolutionChecker.py :: BitcoinSolutionChecker._delete_signature
def bsc_delete_signature(self, script, sig_blob):
    subscript = self.ScriptTools.compile_push_data_list([sig_blob])
    new_script = bytearray()
    pc = 0
    for opcode, data, pc, new_pc in self.ScriptTools.get_opcodes(script):
        section = script[pc:new_pc]
        if section != subscript:
            new_script.extend(section)
    return bytes(new_script)


# pycoin/coins/bitcoin/SolutionChecker.py :: BitcoinSolutionChecker.delete_subscript
def bsc_delete_subscript(class_, script, subscript):
    new_script = bytearray()
    pc = 0
    for opcode, data, pc, new_pc in class_.ScriptTools.get_opcodes(script):
        section = script[pc:new_pc]
        if section != subscript:
            new_script.extend(section)
    return bytes(new_script)


# pycoin/coins/bitcoin/SolutionChecker.py :: BitcoinSolutionChecker.tx_context_for_idx
def bsc_tx_context_for_idx(self, tx_in_idx):
    tx_in = self.tx.txs_in[tx_in_idx]
    tx_context = TxContext()
    tx_context.lock_time = self.tx.lock_time
    tx_context.version = self.tx.version
    tx_context.puzzle_script = b'' if self.tx.missing_unspent(tx_in_idx) else self.tx.unspents[tx_in_idx].script
    tx_context.solution_script = tx_in.script
    tx_context.witness_solution_stack = tx_in.witness
    tx_context.sequence = tx_in.sequence
    tx_context.tx_in_idx = tx_in_idx
    return tx_context


# pycoin/coins/bitcoin/SegwitChecker.py :: SegwitChecker._hash_prevouts
def seg_hash_prevouts(self, hash_type):
    if hash_type & SIGHASH_ANYONECANPAY:
        return ZERO32
    f = io.BytesIO()
    for tx_in in self.tx.txs_in:
        f.write(tx_in.previous_hash)
        stream_struct('L', f, tx_in.previous_index)
    return double_sha256(f.getvalue())


# pycoin/coins/bitcoin/SegwitChecker.py :: SegwitChecker._hash_sequence
def seg_hash_sequence(self, hash_type):
    if hash_type & SIGHASH_ANYONECANPAY or hash_type & 31 == SIGHASH_SINGLE or hash_type & 31 == SIGHASH_NONE:
        return ZERO32
    f = io.BytesIO()
    for tx_in in self.tx.txs_in:
        stream_struct('L', f, tx_in.sequence)
    return double_sha256(f.getvalue())


# pycoin/coins/bitcoin/SegwitChecker.py :: SegwitChecker._hash_outputs
def seg_hash_outputs(self, hash_type, tx_in_idx):
    txs_out = self.tx.txs_out
    if hash_type & 31 == SIGHASH_SINGLE:
        if tx_in_idx >= len(txs_out):
            return ZERO32
        txs_out = txs_out[tx_in_idx:tx_in_idx + 1]
    elif hash_type & 31 == SIGHASH_NONE:
        return ZERO32
    f = io.BytesIO()
    for tx_out in txs_out:
        stream_struct('QS', f, tx_out.coin_value, tx_out.script)
    return double_sha256(f.getvalue())


# pycoin/coins/bitcoin/SegwitChecker.py :: SegwitChecker._segwit_signature_preimage
def seg_preimage(self, script, tx_in_idx, hash_type):
    f = io.BytesIO()
    stream_struct('L', f, self.tx.version)
    f.write(self._hash_prevouts(hash_type))
    f.write(self._hash_sequence(hash_type))
    tx_in = self.tx.txs_in[tx_in_idx]
    f.write(tx_in.previous_hash)
    stream_struct('L', f, tx_in.previous_index)
    tx_out = self.tx.unspents[tx_in_idx]
    stream_satoshi_string(f, script)
    stream_struct('Q', f, tx_out.coin_value)
    stream_struct('L', f, tx_in.sequence)
    f.write(self._hash_outputs(hash_type, tx_in_idx))
    stream_struct('L', f, self.tx.lock_time)
    stream_struct('L', f, hash_type)
    return f.getvalue()


# pycoin/coins/bitcoin/SegwitChecker.py :: SegwitChecker._signature_for_hash_type_segwit
def seg_signature_for_hash_type(self, script, tx_in_idx, hash_type):
    return from_bytes_32(double_sha256(self._segwit_signature_preimage(script, tx_in_idx, hash_type)))


# pycoin/coins/bcash/SolutionChecker.py :: BcashSolutionChecker._signature_hash
def bch_signature_hash(self, tx_out_script, unsigned_txs_out_idx, hash_type):
    if hash_type & SIGHASH_FORKID != SIGHASH_FORKID:
        raise self.ScriptError()
    return self._signature_for_hash_type_segwit(tx_out_script, unsigned_txs_out_idx, hash_type)


# pycoin/coins/bgold/SolutionChecker.py :: BgoldSolutionChecker._signature_hash
def btg_signature_hash(self, tx_out_script, unsigned_txs_out_idx, hash_type):
    if hash_type & SIGHASH_FORKID != SIGHASH_FORKID:
        raise self.ScriptError()
    return self._signature_for_hash_type_segwit(tx_out_script, unsigned_txs_out_idx, hash_type)


# pycoin/coins/bgold/SolutionChecker.py :: BgoldSolutionChecker._signature_for_hash_type_segwit
def btg_signature_for_hash_type(self, script, tx_in_idx, hash_type):
    hash_type |= 79 << 8
    return from_bytes_32(double_sha256(self._segwit_signature_preimage(script, tx_in_idx, hash_type)))


# pycoin/coins/bitcoin/Tx.py :: Tx.hash
def tx_hash(self, hash_type=None):
    s = io.BytesIO()
    self.stream(s, include_witness_data=False)
    if hash_type is not None:
        stream_struct('L', s, hash_type)
    return double_sha256(s.getvalue())


# pycoin/coins/groestlcoin/Tx.py :: Tx.hash
def grs_tx_hash(self, hash_type=None):
    s = io.BytesIO()
    self.stream(s, include_witness_data=False)
    if hash_type is not None:
        stream_struct('L', s, hash_type)
    return sha256(s.getvalue())


# pycoin/coins/Tx.py :: Tx.is_solution_ok
def btx_is_solution_ok(self, tx_in_idx, *args, **kwargs):
    if len(self.unspents) <= tx_in_idx or self.unspents[tx_in_idx] is None:
        return False
    try:
        self.check_solution(tx_in_idx, *args, **kwargs)
        return True
    except ScriptError:
        return False


# pycoin/coins/bitcoin/Tx.py :: Tx.missing_unspent
def tx_missing_unspent(self, idx):
    if self.is_coinbase():
        return True
    if len(self.unspents) <= idx:
        return True
    return self.unspents[idx] is None


# pycoin/coins/bitcoin/Tx.py :: Tx.is_coinbase
def tx_is_coinbase(self):
    return len(self.txs_in) == 1 and self.txs_in[0].is_coinbase()


# pycoin/coins/Tx.py :: Tx.check_solution
# pycoin/coins/Tx.py :: Tx.check_solution
def btx_check_solution(self, tx_in_idx, *args, **kwargs):
    if len(self.unspents) <= tx_in_idx or self.unspents[tx_in_idx] is None:
        raise ScriptError()
    sc = self.SolutionChecker(self)
    tx_context = sc.tx_context_for_idx(tx_in_idx)
    sc.check_solution(tx_context, *args, **kwargs)


# pycoin/satoshi/checksigops.py :: checksigs
# pycoin/satoshi/checksigops.py :: checksigs
def cs_checksigs(vm, sig_blobs, public_pair_blobs):
    sig_blobs_remaining = list(sig_blobs)
    flags = vm.flags
    sighash_cache = {}
    verify_witness_pubkeytype = flags & VERIFY_WITNESS_PUBKEYTYPE
    verify_strict = not not flags & VERIFY_STRICTENC
    any_nonblank = flags & VERIFY_NULLFAIL and any((len(s) > 0 for s in sig_blobs))
    while len(sig_blobs_remaining) > 0:
        sig_blob = sig_blobs_remaining.pop()
        try:
            sig_pair, signature_type = parse_and_check_signature_blob(sig_blob, flags, vm)
        except (der.UnexpectedDER, ValueError):
            sig_pair = None
        while len(sig_blobs_remaining) < len(public_pair_blobs):
            pair_blob = public_pair_blobs.pop()
            if sig_pair is None:
                check_public_key_flags(pair_blob, verify_witness_pubkeytype, verify_strict)
                continue
            if checksig(vm, sig_pair, signature_type, pair_blob, sig_blobs, sighash_cache, verify_witness_pubkeytype, verify_strict):
                break
        else:
            if any_nonblank:
                raise ScriptError()
            vm.append(vm.VM_FALSE)
            return
    vm.append(vm.VM_TRUE)


# pycoin/satoshi/checksigops.py :: checksig
# pycoin/satoshi/checksigops.py :: checksig
def cs_checksig(vm, sig_pair, signature_type, pair_blob, blobs_to_delete, sighash_cache, verify_witness_pubkeytype, verify_strict):
    generator = vm.generator_for_signature_type(signature_type)
    check_public_key_flags(pair_blob, verify_witness_pubkeytype, verify_strict)
    try:
        public_pair = sec_to_public_pair(pair_blob, generator, strict=verify_strict)
    except (ValueError, EncodingError):
        return False
    if signature_type not in sighash_cache:
        sighash_cache[signature_type] = vm.signature_for_hash_type_f(signature_type, blobs_to_delete, vm)
    try:
        if generator.verify(public_pair, sighash_cache[signature_type], sig_pair):
            return True
    except ValueError:
        pass
    return False


