#!/venv/bin/python
"""mkdigests.py: record the sha256 of every source file of /repo/pycoin as of the reviewed tree (spec/mod/DIGESTS.json).
Run after every reviewed change of /repo (a `fix:` commit), together with mkmodref.py / reref.py.  The checks use it for one thing:
an analysis that cannot run (anchor gone, instance floor missed, engine limit) is a broken check (exit 2) on the reviewed tree and
`no verdict` (UNDECIDED) on a tree that differs from it in the files the rule consulted."""
import hashlib, json, os
root = os.environ.get("VERIF_REPO", "/repo")
out = {}
for dp, dn, fn in os.walk(os.path.join(root, "pycoin")):
    dn[:] = [d for d in dn if d != "__pycache__"]
    for f in fn:
        if f.endswith(".py"):
            p = os.path.join(dp, f)
            out[os.path.relpath(p, root)] = hashlib.sha256(open(p, "rb").read()).hexdigest()
dest = os.path.join(os.path.dirname(os.path.dirname(os.path.abspath(__file__))), "spec", "mod", "DIGESTS.json")
json.dump(out, open(dest, "w"), indent=0, sort_keys=True)
print(len(out), "files ->", dest)
