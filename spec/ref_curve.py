"""Reference transcriptions for C02 (elliptic-curve group law).  NEVER IMPORTED OR EXECUTED: parsed and compared in
canonical form (sa/sym.py) with the functions in /repo.  Written from the tree after the fix d529ca3 and reviewed against
the affine short-Weierstrass group law (SEC1 2.2.1: identity cases, P + (-P) = O decided modulo p, tangent slope
(3x^2 + a) / 2y, chord slope (y1 - y0) / (x1 - x0), x3 = s^2 - x0 - x1, y3 = s(x0 - x3) - y0), extended Euclid,
the (e, 3e) signed-digit ladder, and square roots by a^((p+1)/4) for p = 3 mod 4."""


# pycoin/ecdsa/Curve.py :: Curve.add
def cv_add(self, p0, p1):
    p = self._p
    infinity = self._infinity
    if p0 == infinity:
        return p1
    if p1 == infinity:
        return p0
    x0, y0 = p0
    x1, y1 = p1
    assert x0 is not None and y0 is not None
    assert x1 is not None and y1 is not None
    if (x0 - x1) % p == 0:
        if (y0 + y1) % p == 0:
            return infinity
        else:
            slope = (3 * x0 * x0 + self._a) * self.inverse_mod(2 * y0, p) % p
    else:
        slope = (y1 - y0) * self.inverse_mod(x1 - x0, p) % p
    x3 = (slope * slope - x0 - x1) % p
    y3 = (slope * (x0 - x3) - y0) % p
    return self.Point(x3, y3)


# pycoin/ecdsa/Curve.py :: Curve.multiply
def cv_multiply(self, p, e):
    if self._order:
        e %= self._order
    if p == self._infinity or e == 0:
        return self._infinity
    e3 = 3 * e
    i = _leftmost_bit(e3) >> 1
    result = p
    while i > 1:
        result += result
        if e3 & i:
            v = [result, result + p]
        else:
            v = [result - p, result]
        result = v[0 if e & i else 1]
        i >>= 1
    return result


# pycoin/ecdsa/Curve.py :: Curve.inverse_mod
def cv_inverse_mod(self, a, m):
    if a < 0 or m <= a:
        a = a % m
    c, d = (a, m)
    uc, vc, ud, vd = (1, 0, 0, 1)
    while c != 0:
        q, c, d = divmod(d, c) + (c,)
        uc, vc, ud, vd = (ud - q * uc, vd - q * vc, uc, vc)
    assert d == 1
    if ud > 0:
        return ud
    else:
        return ud + m


# pycoin/ecdsa/Curve.py :: Curve.contains_point
# pycoin/ecdsa/Curve.py :: Curve.contains_point
def cv_contains_point(self, x, y):
    if x is None and y is None:
        return True
    assert x is not None and y is not None
    if not (0 <= x < self._p and 0 <= y < self._p):
        return False
    return (y * y - (x * x * x + self._a * x + self._b)) % self._p == 0


# pycoin/ecdsa/Curve.py :: Curve.Point
def cv_point(self, x, y):
    return Point(x, y, self)


# pycoin/ecdsa/Curve.py :: _leftmost_bit
def cv_leftmost_bit(x):
    assert x > 0
    result = 1
    while result <= x:
        result <<= 1
    return result >> 1


# pycoin/ecdsa/Point.py :: Point.__init__
def pt_init(self, x, y, curve):
    self._curve = curve
    super(Point, self).__init__()
    self.check_on_curve()


# pycoin/ecdsa/Point.py :: Point.check_on_curve
def pt_check_on_curve(self):
    if not self._curve.contains_point(*self):
        raise NoSuchPointError()


# pycoin/ecdsa/Point.py :: Point.__new__
def pt_new(cls, x, y, curve):
    return tuple.__new__(cls, (x, y))


# pycoin/ecdsa/Point.py :: Point.__neg__
# pycoin/ecdsa/Point.py :: Point.__neg__
def pt_neg(self):
    if self[1] is None:
        return self
    return self._curve.Point(self[0], self._curve.p() - self[1])


# pycoin/ecdsa/Point.py :: Point.__sub__
def pt_sub(self, other):
    return self._curve.add(self, -other)


# pycoin/ecdsa/Point.py :: Point.__add__
def pt_add(self, other):
    return self._curve.add(self, other)


# pycoin/ecdsa/Point.py :: Point.__mul__
def pt_mul(self, e):
    return self._curve.multiply(self, e)


# pycoin/ecdsa/Generator.py :: Generator.__init__
def gn_init(self, p, a, b, basis, order, entropy_f=os.urandom):
    Curve.__init__(self, p, a, b, order)
    Point.__init__(self, basis[0], basis[1], self)
    self._powers = []
    Gp = self
    for _ in range(max(256, order.bit_length())):
        self._powers.append(Gp)
        Gp += Gp
    assert p % 4 == 3, 'p % 4 must be 3 due to modular_sqrt optimization'
    self._mod_sqrt_power = (p + 1) // 4
    self._blinding_factor = int.from_bytes(entropy_f(32), 'big') % order
    self._minus_blinding_factor_g = self.raw_mul(-self._blinding_factor)


# pycoin/ecdsa/Generator.py :: Generator.raw_mul
def gn_raw_mul(self, e):
    assert self._order is not None
    e %= self._order
    P = self._infinity
    for bit in range(len(self._powers)):
        a = [P, P + self._powers[bit]]
        P = a[e & 1]
        e >>= 1
    return P


# pycoin/ecdsa/Generator.py :: Generator.__mul__
def gn_mul(self, e):
    return self.raw_mul(e + self._blinding_factor) + self._minus_blinding_factor_g


# pycoin/ecdsa/Generator.py :: Generator.__rmul__
def gn_rmul(self, e):
    return self.__mul__(e)


# pycoin/ecdsa/Generator.py :: Generator.modular_sqrt
def gn_modular_sqrt(self, a):
    return pow(a, self._mod_sqrt_power, self._p)


# pycoin/ecdsa/Generator.py :: Generator.points_for_x
# pycoin/ecdsa/Generator.py :: Generator.points_for_x
def gn_points_for_x(self, x):
    p = self._p
    if not 0 <= x < p:
        raise ValueError()
    alpha = (pow(x, 3, p) + self._a * x + self._b) % p
    y0 = self.modular_sqrt(alpha)
    if y0 == 0:
        raise ValueError()
    p0, p1 = [self.Point(x, _) for _ in (y0, p - y0)]
    if y0 & 1 == 0:
        return (p0, p1)
    return (p1, p0)


# pycoin/ecdsa/Generator.py :: Generator.inverse
def gn_inverse(self, a):
    assert self._order is not None
    return self.inverse_mod(a, self._order)


