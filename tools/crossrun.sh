#!/bin/bash
# crossrun.sh: every refactoring twin in /verif/seeded against EVERY property check (a twin touches files that are anchors of
# other properties too); prints the alarms.  Scratch copies, /repo untouched.
cd /verif
one() {
  d=$1; name=$(basename $d)
  td=$(mktemp -d /tmp/vx-XXXXXX); cp -r /repo/pycoin $td/pycoin
  (cd $td && patch -p1 -s --no-backup-if-mismatch -i /verif/$d/patch.diff >/dev/null 2>&1) || { echo "$name: patch failed"; rm -rf $td; return; }
  own=$(echo $name | cut -d- -f1)
  res=""
  for i in $(seq -w 1 20); do
    out=$(VERIF_REPO=$td ./check C$i --no-evidence 2>&1); code=$?
    if [ $code -eq 1 ]; then res="$res C$i[$(echo "$out" | grep -E '^VIOLATED' | awk '{print $2}' | sort -u | tr '\n' ',')]"; fi
    if [ $code -eq 2 ]; then res="$res C$i[analysis-error]"; fi
  done
  rm -rf $td
  if [ -n "$res" ]; then echo "$name: ALARM$res"; else echo "$name: silent everywhere"; fi
}
for d in seeded/*-r*; do
  [ -f $d/patch.diff ] || continue
  one $d &
  while [ $(jobs -r | wc -l) -ge 14 ]; do sleep 0.2; done
done
wait
