"""Transcription of every function of pycoin/contrib/msg_signing.py as of the reviewed tree (see DESIGN.md section 12).
NEVER IMPORTED OR EXECUTED: parsed and compared in canonical form (sa/sym.py) with the functions in /repo."""


_CONSTS = {

}


# pycoin/contrib/msg_signing.py :: MessageSigner.__init__
def q__MessageSigner____init__(self, network, generator):
    self._network = network
    self._network_name = network.network_name
    self._generator = generator


# pycoin/contrib/msg_signing.py :: MessageSigner.parse_sections
def q__MessageSigner__parse_sections(class_, msg_in):
    dos_nl = '\r\n' in msg_in
    if dos_nl:
        msg_in = msg_in.replace('\r\n', '\n')
    try:
        _, body = msg_in.split('SIGNED MESSAGE-----\n', 1)
    except ValueError:
        raise EncodingError()
    parts = re.split('\n-----BEGIN [A-Z ]*SIGNATURE-----\n', body)
    if len(parts) < 2:
        raise EncodingError()
    msg, hdr = (''.join(parts[:-1]), parts[-1])
    if dos_nl:
        msg = msg.replace('\n', '\r\n')
    return (msg, hdr)


# pycoin/contrib/msg_signing.py :: MessageSigner.parse_signed_message
def q__MessageSigner__parse_signed_message(class_, msg_in):
    msg, hdr_str = class_.parse_sections(msg_in)
    hdr = list(filter(None, [i.strip() for i in hdr_str.split('\n')]))
    if '-----END' not in hdr[-1]:
        raise EncodingError()
    sig = hdr[-2]
    addr = None
    for line in hdr:
        line = line.strip()
        if not line:
            continue
        if line.startswith('-----END'):
            break
        if ':' in line:
            label, value = [i.strip() for i in line.split(':', 1)]
            if label.lower() == 'address':
                addr = line.split(':')[1].strip()
                break
            continue
        addr = line
        break
    if not addr or addr == sig:
        raise EncodingError()
    return (msg, addr, sig)


# pycoin/contrib/msg_signing.py :: MessageSigner.signature_for_message_hash
def q__MessageSigner__signature_for_message_hash(self, secret_exponent, msg_hash, is_compressed):
    r, s, recid = self._generator.sign_with_recid(secret_exponent, msg_hash)
    first = 27 + recid + (4 if is_compressed else 0)
    sig_bytes = b2a_base64(bytes([first]) + to_bytes_32(r) + to_bytes_32(s)).strip()
    return sig_bytes.decode('utf8')


# pycoin/contrib/msg_signing.py :: MessageSigner.sign_message
def q__MessageSigner__sign_message(self, key, message, verbose=False):
    secret_exponent = key.secret_exponent()
    if not secret_exponent:
        raise ValueError()
    addr = key.address()
    msg_hash = self.hash_for_signing(message)
    is_compressed = key.is_compressed()
    sig = self.signature_for_message_hash(secret_exponent, msg_hash, is_compressed)
    if not verbose or message is None:
        return sig
    return self.signature_template.format(msg=message, sig=sig, addr=addr, net_name=self._network_name.upper())


# pycoin/contrib/msg_signing.py :: MessageSigner.pair_for_message_hash
def q__MessageSigner__pair_for_message_hash(self, signature, msg_hash):
    is_compressed, recid, r, s = self._decode_signature(signature)
    y_parity = recid & 1
    order = self._generator.order()
    if not (1 <= r < order and 1 <= s < order):
        raise EncodingError()
    x = r + order if recid > 1 else r
    if x >= self._generator.p():
        raise EncodingError()
    pairs = self._generator.possible_public_pairs_for_signature(msg_hash, (x, s), y_parity=y_parity)
    if len(pairs) == 0 or pairs[0] == self._generator.infinity():
        raise EncodingError()
    return (pairs[0], is_compressed)


# pycoin/contrib/msg_signing.py :: MessageSigner.pair_matches_key
def q__MessageSigner__pair_matches_key(self, pair, key, is_compressed):
    if hasattr(key, 'public_pair'):
        return bool(key.public_pair() == pair)
    else:
        key_hash160 = key.hash160()
        pair_hash160 = public_pair_to_hash160_sec(pair, compressed=is_compressed)
        return bool(key_hash160 == pair_hash160)


# pycoin/contrib/msg_signing.py :: MessageSigner.verify_message
def q__MessageSigner__verify_message(self, key_or_address, signature, message=None, msg_hash=None):
    if isinstance(key_or_address, str):
        key = self._network.parse.address(key_or_address)
        if key is None:
            return False
    else:
        key = key_or_address
    try:
        resolved_hash = self.hash_for_signing(message) if message is not None else msg_hash or 0
        pair, is_compressed = self.pair_for_message_hash(signature, resolved_hash)
    except EncodingError:
        return False
    return self.pair_matches_key(pair, key, is_compressed)


# pycoin/contrib/msg_signing.py :: MessageSigner.msg_magic_for_netcode
def q__MessageSigner__msg_magic_for_netcode(self):
    return '%s Signed Message:\n' % self._network_name


# pycoin/contrib/msg_signing.py :: MessageSigner._decode_signature
def q__MessageSigner___decode_signature(self, signature):
    try:
        sig = a2b_base64(signature)
    except ValueError:
        raise EncodingError()
    if len(sig) != 65:
        raise EncodingError()
    first = sig[0]
    r = from_bytes_32(sig[1:33])
    s = from_bytes_32(sig[33:33 + 32])
    if not 27 <= first < 35:
        raise EncodingError()
    first -= 27
    is_compressed = bool(first & 4)
    return (is_compressed, first & 3, r, s)


# pycoin/contrib/msg_signing.py :: MessageSigner.hash_for_signing
def q__MessageSigner__hash_for_signing(self, msg):
    magic = self.msg_magic_for_netcode()
    fd = io.BytesIO()
    stream_satoshi_string(fd, magic.encode('utf8'))
    stream_satoshi_string(fd, msg.encode('utf8'))
    return from_bytes_32(double_sha256(fd.getvalue()))
