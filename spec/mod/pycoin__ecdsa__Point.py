"""Transcription of every function of pycoin/ecdsa/Point.py as of the reviewed tree (see DESIGN.md section 12).
NEVER IMPORTED OR EXECUTED: parsed and compared in canonical form (sa/sym.py) with the functions in /repo."""


_CONSTS = {

}


# pycoin/ecdsa/Point.py :: Point.__new__
def q__Point____new__(cls, x, y, curve):
    return tuple.__new__(cls, (x, y))


# pycoin/ecdsa/Point.py :: Point.__init__
def q__Point____init__(self, x, y, curve):
    self._curve = curve
    super(Point, self).__init__()
    self.check_on_curve()


# pycoin/ecdsa/Point.py :: Point.check_on_curve
def q__Point__check_on_curve(self):
    if not self._curve.contains_point(*self):
        raise NoSuchPointError()


# pycoin/ecdsa/Point.py :: Point.__add__
def q__Point____add__(self, other):
    return self._curve.add(self, other)


# pycoin/ecdsa/Point.py :: Point.__sub__
def q__Point____sub__(self, other):
    return self._curve.add(self, -other)


# pycoin/ecdsa/Point.py :: Point.__mul__
def q__Point____mul__(self, e):
    return self._curve.multiply(self, e)


# pycoin/ecdsa/Point.py :: Point.__rmul__
def q__Point____rmul__(self, other):
    return self * other


# pycoin/ecdsa/Point.py :: Point.__neg__
def q__Point____neg__(self):
    if self[1] is None:
        return self
    return self._curve.Point(self[0], self._curve.p() - self[1])


# pycoin/ecdsa/Point.py :: Point.curve
def q__Point__curve(self):
    return self._curve
