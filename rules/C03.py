"""C03 - script evaluation vs consensus: structural obligations (DESIGN.md section 4, C03)."""
from __future__ import annotations

import ast
import os
import re

from sa.core import Ob
from sa.pm import AnalysisError, norm, body_nodes
from sa import gi, df, ru, sym
from sa.pm import Undecided
from sa.gi import IntSet, iv, GuardWalker, SymbolicAtomizer, reach_sets
from sa.cfg import stmt_paths, struct_dominates
from sa.interp import FuncVal, Unknown
from spec import opcodes as SPEC

VM = "pycoin/vm/VM.py"
BVM = "pycoin/coins/bitcoin/VM.py"
INTOPS = "pycoin/satoshi/intops.py"
STACKOPS = "pycoin/satoshi/stackops.py"
MISCOPS = "pycoin/satoshi/miscops.py"
CHECKSIG = "pycoin/satoshi/checksigops.py"
SEG = "pycoin/coins/bitcoin/SegwitChecker.py"
P2S = "pycoin/coins/bitcoin/P2SChecker.py"
BSC = "pycoin/coins/bitcoin/SolutionChecker.py"
COND = "pycoin/vm/ConditionalStack.py"
U, E = IntSet.all(), IntSet.empty()


def _lookup(ctx):
    if "lookup" not in ctx.cache:
        it = ctx.interp
        vm = it.get("pycoin.coins.bitcoin.VM", "BitcoinVM")
        lk = it.getattr(vm, "INSTRUCTION_LOOKUP")
        if not isinstance(lk, list) or len(lk) != 256:
            raise AnalysisError("BitcoinVM.INSTRUCTION_LOOKUP could not be resolved to a 256-entry table (%r)" % (lk if not isinstance(lk, list) else len(lk)))
        ctx.cache["lookup"] = lk
        ctx.cache["by_node"] = {id(f.node): f for f in ctx.p.functions.values()}
        em = it.module("pycoin.satoshi.errno")
        ctx.cache["errno"] = em.ns
    return ctx.cache["lookup"]


def _finfo(ctx, fv):
    return ctx.cache["by_node"].get(id(fv.node))


def _lambda_canon(fv):
    """normalised body of a one/two-parameter lambda with parameters renamed to a, b"""
    if not isinstance(fv, FuncVal):
        return getattr(fv, "__name__", repr(fv))
    node = fv.node
    if not isinstance(node, ast.Lambda):
        return None
    names = [a.arg for a in node.args.args]
    import copy

    class R(ast.NodeTransformer):
        def visit_Name(self, n):
            if n.id in names:
                return ast.Name("ab"[names.index(n.id)], n.ctx)
            return n
    return norm(R().visit(copy.deepcopy(node.body)))


# ------------------------------------------------------------------ C03.1
def c03_1(ctx):
    lk = _lookup(ctx)
    en = ctx.cache["errno"]
    for v in range(256):
        f = lk[v]
        cls, detail = SPEC.classify(v)
        if not isinstance(f, FuncVal):
            ctx.bad("opcode-%d-unresolved" % v, "pycoin/coins/bitcoin/make_instruction_lookup.py:1", "opcode 0x%02x resolves to %r, not to a handler" % (v, f))
            continue
        fi = _finfo(ctx, f)
        where = fi.where if fi else "pycoin/coins/bitcoin/make_instruction_lookup.py:1"
        q = f.qualname
        cv = f.closure_vars()
        outside = bool(f.attrs.get("outside_conditional", False))
        got = None
        if q.endswith("._no_op") or (q.endswith("extra_opcodes.<lambda>") and isinstance(f.node, ast.Lambda) and isinstance(f.node.body, ast.Constant)):
            got = ("push", None)
        elif q.endswith("make_bad_opcode.bad_opcode"):
            err = cv.get("err")
            if err == en.get("DISABLED_OPCODE"):
                got = ("disabled", cv.get("opcode"))
            elif err == en.get("BAD_OPCODE"):
                got = ("always-bad" if outside else "fail-if-executed", cv.get("opcode"))
            else:
                got = ("bad?", cv.get("opcode"))
        elif q.endswith("_make_bad_instruction.f"):
            got = ("invalid", cv.get("v"))
        elif q.endswith("make_if.f"):
            got = ("conditional", "OP_NOTIF" if cv.get("reverse_bool") else "OP_IF")
        elif q.endswith(".discourage_nops"):
            got = ("upgradable-nop", None)
        elif f.name.startswith("do_OP_"):
            nm = f.name[3:]
            if nm in ("OP_ELSE", "OP_ENDIF"):
                got = ("conditional", nm)
            elif nm in SPEC.FAIL_IF_EXECUTED:
                got = ("fail-if-executed", nm)
            elif nm == "OP_NOP":
                got = ("nop", nm)
            elif re.match(r"OP_NOP\d+$", nm):
                got = ("plain-nop", nm)
            else:
                got = ("operation", nm)
        elif q.endswith("make_bin_op.f") or q.endswith("make_bool_bin_op.f") or q.endswith("make_unary_num_op.f"):
            got = ("arith", q.split(".")[-2])
        else:
            got = ("unknown", q)
        ok = True
        msg = ""
        if cls in ("push-const", "push-sized", "push-variable"):
            ok = got[0] == "push"
        elif cls == "disabled":
            ok = got == ("disabled", detail) and outside
        elif cls == "always-bad":
            ok = got == ("always-bad", detail) and outside
        elif cls == "conditional":
            ok = got == ("conditional", detail) and outside
        elif cls == "fail-if-executed":
            ok = got[0] == "fail-if-executed" and got[1] == detail and (outside == (detail == "OP_RESERVED"))
        elif cls == "invalid":
            ok = (got[0] == "invalid" and got[1] == v) or (got[0] == "fail-if-executed" and not outside)
        elif cls == "nop":
            ok = got[0] == "nop" and not outside
        elif cls == "upgradable-nop":
            ok = got[0] == "upgradable-nop" and not outside
        elif cls == "operation":
            if detail in SPEC.ARITH:
                arity, forms = SPEC.ARITH[detail]
                maker = {1: "make_unary_num_op"}.get(arity, "make_bool_bin_op" if detail in SPEC.BOOL_RESULT else "make_bin_op")
                lam = cv.get("binop", cv.get("unary_f"))
                canon = _lambda_canon(lam) if lam is not None else None
                ok = got == ("arith", maker) and canon in forms and not outside
                msg = " (handler built by %s with `%s`)" % (got[1], canon)
            else:
                ok = got == ("operation", detail) and not outside
        ctx.check(ok, "opcode-0x%02x" % v, where,
                  "opcode 0x%02x: consensus class is %s %s, the dispatch table binds it to %s %s outside_conditional=%s%s"
                  % (v, cls, detail, got[0], got[1], outside, msg), what="0x%02x:%s:%s" % (v, got[0], got[1]),
                  sample={"opcode": v, "consensus": [cls, detail], "bound_to": q, "outside_conditional": outside} if v in (0, 80, 99, 101, 126, 147, 177, 186) else None)
    # operand order of the generated arithmetic handlers: binop(second popped, first popped)
    for maker in ("make_bin_op", "make_bool_bin_op"):
        mk = ctx.func(INTOPS, maker)
        inner = ctx.p.functions.get(mk.qualname + ".f")
        if inner is None:
            raise AnalysisError("%s.f not found" % maker)
        txt = norm(inner.node)
        ok = "v1, v2 = [pop_check_bounds(vm) for i in range(2)]" in txt and "binop(v2, v1)" in txt
        tcheck(ctx, ok, "operand-order:%s" % maker, ctx.where(inner), "%s: operands are not passed as binop(deeper, top)" % maker)
    un = ctx.p.functions.get(ctx.func(INTOPS, "make_unary_num_op").qualname + ".f")
    tcheck(ctx, un is not None and "vm.push_int(unary_f(pop_check_bounds(vm)))" in norm(un.node), "unary-shape", ctx.where(un) if un else INTOPS + ":1", "make_unary_num_op does not push unary_f(bounded operand)")
    # duplicate opcode values keep the consensus binding (177 -> CLTV, 178 -> CSV)
    for v, nm in ((177, "do_OP_CHECKLOCKTIMEVERIFY"), (178, "do_OP_CHECKSEQUENCEVERIFY")):
        ctx.check(isinstance(lk[v], FuncVal) and lk[v].name == nm, "dup-opcode-%d" % v, MISCOPS + ":1", "opcode %d is bound to %s, consensus: %s" % (v, getattr(lk[v], "name", lk[v]), nm))


def _live_handlers(ctx):
    """FuncInfo of every handler bound in the dispatch table that can execute (disabled / bad ones excluded), plus direct repo callees."""
    lk = _lookup(ctx)
    out = {}
    for v, f in enumerate(lk):
        if not isinstance(f, FuncVal):
            continue
        if f.qualname.endswith("bad_opcode") or f.qualname.endswith("_make_bad_instruction.f"):
            continue
        fi = _finfo(ctx, f)
        if fi is not None:
            out[fi.qualname] = fi
    # callees by simple name inside the ops modules
    mods = [ctx.p.module(m) for m in (INTOPS, STACKOPS, MISCOPS, CHECKSIG)]
    changed = True
    while changed:
        changed = False
        for fi in list(out.values()):
            for c in df.calls_in(fi.node):
                if isinstance(c.func, ast.Name):
                    for m in mods:
                        t = m.functions.get(c.func.id)
                        if t is not None and t.qualname not in out:
                            out[t.qualname] = t
                            changed = True
    return out


# ------------------------------------------------------------------ C03.2
def _is_stack_item(e, stack_locals):
    t = norm(e)
    if isinstance(e, ast.Name) and e.id in stack_locals:
        return True
    if re.match(r"^(vm|stack|vm\.stack|s)\[-?\d+\]$", t):
        return True
    if t in ("vm.pop()", "stack.pop()", "vm.stack.pop()"):
        return True
    return False


def c03_2(ctx):
    hs = _live_handlers(ctx)
    n = 0
    for fi in hs.values():
        stack_locals = set()
        for name, ds in df.assignments(fi.node).items():
            for v, st in ds:
                if isinstance(v, ast.AST) and _is_stack_item(v, set()):
                    stack_locals.add(name)
        conds = []
        for x in body_nodes(fi.node):
            if isinstance(x, (ast.If, ast.While, ast.IfExp, ast.Assert)):
                conds.append(x.test)
            elif isinstance(x, ast.BoolOp):
                conds.extend(x.values)
            elif isinstance(x, ast.UnaryOp) and isinstance(x.op, ast.Not):
                conds.append(x.operand)
        seen = set()
        for t in conds:
            for leaf in _leaves(t):
                if id(leaf) in seen:
                    continue
                seen.add(id(leaf))
                n += 1
                if isinstance(leaf, ast.Call) and isinstance(leaf.func, ast.Name) and leaf.func.id in ("any", "all") and len(leaf.args) == 1:
                    a0 = leaf.args[0]
                    scanned = a0.generators[0].iter if isinstance(a0, ast.GeneratorExp) and len(a0.generators) == 1 else a0
                    if _is_stack_item(scanned, stack_locals):
                        # byte-wise truth of an item: decided here whatever the rest of the handler looks like (negative zero, 0x80
                        # after zero bytes, has a non-zero byte and is false)
                        from sa.core import Ctx as _Ctx
                        _Ctx.bad(ctx, "bytewise-truthiness:%s" % fi.name, ctx.where(fi, leaf), "%s decides the truth of stack item `%s` with %s() over its bytes; script truthiness (CastToBool) is false for negative zero (0x80, 0x0080, ...)"
                                 % (fi.name, norm(scanned), leaf.func.id), sample={"handler": fi.qualname, "condition": norm(leaf)})
                        continue
                ctx.check(not _is_stack_item(leaf, stack_locals), "python-truthiness:%s:%s" % (fi.name, norm(leaf)), ctx.where(fi, leaf),
                          "%s uses the Python truth value of stack item `%s`; script truthiness (CastToBool: any non-zero byte, except negative zero) differs for 0x00 / 0x80"
                          % (fi.name, norm(leaf)), what="%s:%s" % (fi.name, norm(leaf)), sample={"handler": fi.qualname, "condition": norm(leaf)} if n < 4 else None)
    ctx.note("handlers scanned: %d" % len(hs))
    # the one sanctioned conversion
    f = ctx.func(BVM, "BitcoinVM.bool_from_script_bytes")
    tcheck(ctx, "int_from_script_bytes" in norm(f.node) and "return bool(int_v)" in norm(f.node), "cast-to-bool", ctx.where(f), "bool_from_script_bytes is not bool(int value of the item)")


def _leaves(t):
    if isinstance(t, ast.BoolOp):
        for v in t.values:
            yield from _leaves(v)
    elif isinstance(t, ast.UnaryOp) and isinstance(t.op, ast.Not):
        yield from _leaves(t.operand)
    else:
        yield t


def _every_vm_bounds(ctx, meth, limit, call=None):
    """does EVERY implementation of vm.<meth> (the VM base class and each subclass that overrides it) refuse an operand longer than
    `limit` bytes before reading it?  A bound in the base class alone is no bound: BitcoinVM overrides these methods"""
    key = ("vm-bounds", meth, limit, norm(call) if call is not None else None)
    if key in ctx.cache:
        return ctx.cache[key]
    impls = []
    for q, c in ctx.p.classes.items():
        if meth in c.methods and any(x.name == "VM" or x.name.endswith("VM") for x in ctx.p.mro(c)):
            impls.append(c.methods[meth])
    ok = bool(impls)
    for m in impls:
        try:
            # the arguments of the call (pop_int(max_size=4)) stand for the parameters they bind: constants as numbers, and a
            # parameter that was given a value is not None
            bound = {}
            if call is not None:
                ps = m.params()[1:]
                for p_, a_ in list(zip(ps, call.args)) + [(k.arg, k.value) for k in call.keywords if k.arg]:
                    v_ = df.const_int(a_)
                    if v_ is None and isinstance(a_, (ast.Name, ast.Attribute)):
                        try:
                            v_ = sym.make_const_of(ctx, ctx.cache.get("vm-bounds-caller"))(a_) if ctx.cache.get("vm-bounds-caller") is not None else None
                        except Exception:
                            v_ = None
                    if isinstance(v_, int):
                        bound[p_] = v_
            w = sym.int_walk(ctx, m, {"len(self[-1])", "len(self.stack[-1])"}, extra_const=(lambda e_: bound.get(e_.id) if isinstance(e_, ast.Name) else None) if bound else None)
            raises = [e for e in w.exits if e.kind == "raise"]
            fr = gi.f_or(*[e.cond for e in raises]) if raises else False
            assume = {"%s is None" % p_: False for p_ in bound} or None
            must = sym.must_set(fr, U, E, assume) if fr is not False else E
            if os.environ.get("VERIF_DEBUG"):
                print("DBG vm-bounds", m.qualname, bound, fr, must, norm(call) if call is not None else None)
            if not iv(limit + 1, None).issubset(must):
                ok = False
        except Exception as ex_:
            if os.environ.get("VERIF_DEBUG"):
                print("DBG vm-bounds", m.qualname, type(ex_).__name__, ex_)
            ok = False
    ctx.cache[key] = ok
    return ok


# ------------------------------------------------------------------ C03.3
def c03_3(ctx):
    hs = _live_handlers(ctx)
    sites = 0
    from sa import modref as _modref
    lock_ops = ("do_OP_CHECKLOCKTIMEVERIFY", "do_OP_CHECKSEQUENCEVERIFY")
    # a helper added since the review is read inside the handlers that call it (sa/expand.py): its reads are decided there,
    # with the bound of that handler
    roots = {q: fi for q, fi in hs.items() if _modref.is_reviewed(fi)}
    for q, fi0 in sorted(roots.items()):
        fi = ctx.func(fi0.module.relpath, q[len(fi0.module.name) + 1:])
        limit = 5 if fi.name in lock_ops else 4
        vm = fi.params()[0] if fi.params() else "vm"
        top_texts = {"len(%s.stack[-1])" % vm, "len(%s[-1])" % vm}
        w = sym.int_walk(ctx, fi, top_texts)
        for e in w.effects:
            if e.kind != "call":
                continue
            nm = norm(e.raw.func)
            if nm in ("%s.pop_int" % vm, "%s.pop_nonnegative" % vm):
                sites += 1
                lens = sym.may_set(e.reach, U, E)
                meth = nm.split(".")[-1]
                ctx.cache["vm-bounds-caller"] = fi
                if not lens.issubset(iv(None, limit)) and _every_vm_bounds(ctx, meth, limit, e.call):
                    ctx.ok("%s:%s:bounded-by-the-method" % (fi.name, nm), sample={"handler": fi.qualname, "read": nm, "bound_in": "every implementation of %s" % meth})
                    continue
                # over the handler's inputs, and over every class that supplies the method: evidence of its own, however the
                # handler is organised
                ctx.check(lens.issubset(iv(None, limit)), "unbounded-numeric-read:%s" % fi.name, ctx.where(fi, e.node), semantic=True, msg=
                          "%s reads a script number with %s() when the operand has length %s: operands longer than %d bytes must be refused first (consensus: script-number overflow)"
                          % (fi.name, nm, lens.fmt(), limit), what="%s:%s:L%d" % (fi.name, nm, getattr(e.node, "lineno", 0) - fi.node.lineno),
                          sample={"handler": fi.qualname, "read": nm, "bound": limit, "read_for_lengths": lens.fmt()})
            if nm.endswith("int_from_script_bytes") and fi.module.relpath in (INTOPS, MISCOPS, CHECKSIG, STACKOPS):
                sites += 1
                # a handler that decodes an item itself owes what vm.pop_int() does: the MINIMALDATA requirement and the size bound.
                # Decided on the call as the handler makes it (locals substituted), whatever the rest of the handler looks like.
                from sa.core import Ctx as _Ctx
                kws = {k.arg: norm(k.value) for k in e.call.keywords if k.arg}
                rm = kws.get("require_minimal", norm(e.call.args[1]) if len(e.call.args) > 1 else "")
                if not ("VERIFY_MINIMALDATA" in rm and "flags" in rm):
                    _Ctx.bad(ctx, "raw-int-decode-minimal:%s" % fi.name, ctx.where(fi, e.node),
                             "%s decodes a script number with %s(%s) without require_minimal = the MINIMALDATA flag: a non-minimally encoded operand is accepted under MINIMALDATA" % (fi.name, nm, ", ".join(sorted(kws)) or "item"))
                lens = sym.may_set(e.reach, U, E)
                if not lens.issubset(iv(None, limit)):
                    ctx.bad("raw-int-decode:%s" % fi.name, ctx.where(fi, e.node), "%s decodes a script number directly for operand lengths %s, bypassing the %d-byte bound" % (fi.name, lens.fmt(), limit))
    f = ctx.func(INTOPS, "pop_check_bounds")
    const = ru.const_resolver(ctx, f, set())
    w = GuardWalker(SymbolicAtomizer(ru.subject({"len(vm[-1])", "len(vm.stack[-1])"}), const))
    ex = w.run(f.node.body)
    may, must = reach_sets(ex, lambda e: e.kind == "return", U, E)
    ctx.check(may == iv(None, 4), "bound-is-4-bytes", ctx.where(f), "pop_check_bounds lets operand lengths %s through; consensus limit is 4 bytes" % may.fmt(),
              sample={"function": f.qualname, "subject": "len(vm[-1])", "accepted": may.fmt()})
    for name in lock_ops:
        f = ctx.func(MISCOPS, name)
        vm = f.params()[0]
        w = sym.int_walk(ctx, f, {"len(%s.stack[-1])" % vm, "len(%s[-1])" % vm})
        reads = [e for e in w.effects if e.kind == "call" and norm(e.raw.func) == "%s.pop_int" % vm]
        lens = [sym.may_set(e.reach, U, E) for e in reads]
        ok = bool(reads) and all(l_ == iv(None, 5) or l_ == iv(0, 5) or l_ == iv(1, 5) for l_ in lens)
        ctx.check(ok, "bound-is-5-bytes:%s" % name, ctx.where(f), "%s reads its operand for lengths %s; BIP65/112 allow up to 5 bytes" % (name, [l_.fmt() for l_ in lens]))
    # minimal-encoding flag reaches the decoder
    f = ctx.func(BVM, "BitcoinVM.pop_int")
    tcheck(ctx, "require_minimal=bool(self.flags & VERIFY_MINIMALDATA)" in norm(f.node) and "int_from_script_bytes(self.pop()" in norm(f.node), "minimaldata-plumbing", ctx.where(f),
              "BitcoinVM.pop_int does not decode the popped item with require_minimal = MINIMALDATA flag")
    ctx.note("numeric read sites: %d" % sites)


def _stmt_of(func_node, node):
    best = None
    for st in body_nodes(func_node):
        if isinstance(st, ast.stmt) and any(x is node for x in ast.walk(st)):
            if best is None or any(x is st for x in ast.walk(best)):
                best = st
    return best


# ------------------------------------------------------------------ C03.5
def c03_5(ctx):
    it = ctx.interp
    vmc = it.get("pycoin.vm.VM", "VM")
    bvm = it.get("pycoin.coins.bitcoin.VM", "BitcoinVM")
    for k, v in SPEC.LIMITS.items():
        got = it.getattr(bvm, k)
        ctx.check(got == v, "limit:%s" % k, VM + ":1", "BitcoinVM.%s evaluates to %r, consensus value %d" % (k, got, v), sample={"constant": k, "value": got})

    def interval(fn_rel, fn_name, subj_texts, sym, raise_pred, want, key, msgname):
        f = ctx.func(fn_rel, fn_name)
        const = ru.const_resolver(ctx, f, {sym} if sym else set())
        is_subj = ru.subject(subj_texts, df.single_defs(f.node))
        w = GuardWalker(SymbolicAtomizer(is_subj, const))
        ex = w.run(f.node.body)
        s = E
        gb = ru.guarded_by_subject(f.node, w)
        for e in ex:
            if raise_pred(e) and gb(e):
                s = s | gi.sat_set(e.cond, U, E)
        ctx.check(s == want, key, ctx.where(f), "%s: %s values rejected are %s, consensus: exactly %s" % (fn_name, msgname, s.fmt(sym or ""), want.fmt(sym or "")),
                  sample={"function": f.qualname, "subject": msgname, "rejected": s.fmt(sym or "MAX")})
    interval(VM, "VM.eval_script", {"len(self.script)"}, "self.MAX_SCRIPT_LENGTH", ru.is_raise, iv(("s", 1), None), "script-size", "script length")
    # eval_instruction: the pushed element is whatever ends up in self.stack.append(..); its length and the op count are limited
    ei = ctx.func(VM, "VM.eval_instruction")
    w0 = sym.walk(ctx, ei)
    pushes = [e for e in w0.effects if e.kind == "call" and norm(e.call.func) == "self.stack.append" and len(e.call.args) == 1]
    if len({norm(e.call.args[0]) for e in pushes}) != 1:
        raise Undecided("eval_instruction: the push of the decoded data is not recognisable")
    data_t = norm(pushes[0].call.args[0])
    for subj, symb, key, what in (("len(%s)" % data_t, "self.MAX_BLOB_LENGTH", "push-size", "pushed data length"), ("self.op_count", "self.MAX_OP_COUNT", "op-count", "op count")):
        wi = sym.int_walk(ctx, ei, {subj}, {symb})
        fr = sym.exits_formula(wi, lambda e: e.kind == "raise")
        s_, n_ = sym.decisive_set(fr, U, E) if fr is not False else (E, 0)
        want = iv(("s", 1), None)
        lim = SPEC.LIMITS[symb.split(".")[-1]]
        ctx.check(s_ == want or s_ == iv(lim + 1, None), key, ctx.where(ei), "VM.eval_instruction: %s values rejected are %s, consensus: exactly %s (%s = %d)" % (what, s_.fmt(symb), want.fmt(symb), symb, lim),
                  sample={"function": ei.qualname, "subject": what, "rejected": s_.fmt("MAX")})
    interval(VM, "VM.check_stack_size", {"len(self.stack) + len(self.altstack)"}, "self.MAX_STACK_SIZE", ru.is_raise, iv(("s", 1), None), "stack-size", "stack + altstack size")
    interval(CHECKSIG, "do_OP_CHECKMULTISIG", {"key_count"}, None, ru.is_raise, iv(0, 20).complement(), "multisig-key-count", "key count")
    interval(CHECKSIG, "_check_valid_signature_1", {"ls", "len(sig)"}, None, ru.is_raise, iv(9, 73).complement(), "der-size", "signature length")
    f = ctx.func(CHECKSIG, "do_OP_CHECKMULTISIG")
    const = ru.const_resolver(ctx, f, {"key_count"})
    is_subj = ru.subject({"signature_count"})
    w = GuardWalker(SymbolicAtomizer(is_subj, const))
    ex = w.run(f.node.body)
    s = E
    gb = ru.guarded_by_subject(f.node, w)
    for e in ex:
        if e.kind == "raise" and gb(e):
            s = s | gi.sat_set(e.cond, U, E)
    ctx.check(s == iv(0, ("s", 0)).complement(), "multisig-sig-count", ctx.where(f), "do_OP_CHECKMULTISIG rejects signature counts %s, consensus: outside [0, key_count]" % s.fmt("key_count"))
    txt = norm(f.node)
    tcheck(ctx, "vm.op_count += key_count" in txt, "multisig-op-count", ctx.where(f), "do_OP_CHECKMULTISIG does not add the key count to the op count")
    # stack size is checked per instruction and after the script; op count after the handler
    ei = ctx.func(VM, "VM.eval_instruction")
    tcheck(ctx, "self.check_stack_size()" in norm(ei.node), "stack-size-per-instruction", ctx.where(ei), "eval_instruction does not check the stack size")
    ps = ctx.func(VM, "VM.post_script_check")
    tcheck(ctx, "self.check_stack_size()" in norm(ps.node) and "self.conditional_stack.check_final_state()" in norm(ps.node), "post-script-checks", ctx.where(ps), "post_script_check misses the stack-size or conditional-balance check")
    es = ctx.func(VM, "VM.eval_script")
    tcheck(ctx, "self.post_script_check()" in norm(es.node) and "while self.pc < len(self.script):" in norm(es.node), "eval-loop", ctx.where(es), "eval_script does not loop to the end of the script and run the post-script checks")
    # opcode counting: every non-push opcode counts, executed or not
    incs = [e for e in w0.effects if e.kind == "setattr" and norm(e.target) == "self" and e.attr == "op_count"]
    none_atom = ("op", "%s is None" % data_t)
    inc_reach = gi.f_or(*[e.reach for e in incs]) if incs else False
    exec_atoms = [o for o in (gi.f_opaques(inc_reach) if inc_reach not in (True, False) else []) if isinstance(o, str) and o.startswith("truthy(") and "all_if_true()" in o and "get_opcode" not in o]
    ok = bool(incs) and all(norm(e.value) == "self.op_count + 1" for e in incs) and sym.entails(inc_reach, none_atom) and not exec_atoms
    ctx.check(ok, "op-count-unexecuted", ctx.where(ei), "eval_instruction does not count every non-push opcode (executed or not): counted when %s" % (repr(inc_reach)[:300],))
    # witness program recognition
    f = ctx.func(SEG, "SegwitChecker._witness_program_version")
    const = ru.const_resolver(ctx, f, set())
    w = GuardWalker(SymbolicAtomizer(ru.subject({"size", "len(script)"}, df.single_defs(f.node)), const))
    ex = w.run(f.node.body)
    notnone = lambda e: e.kind == "return" and not (isinstance(e.value, ast.Constant) and e.value.value is None)
    may, must = reach_sets(ex, notnone, U, E)
    ctx.check(may == iv(4, 42), "witness-program-size", ctx.where(f), "_witness_program_version recognises programs of total size %s, BIP141: 4..42" % may.fmt(), sample={"subject": "len(script)", "recognised": may.fmt()})
    ops = set()
    for e in ex:
        if notnone(e):
            ops |= set(gi.f_opaques(e.cond))
    ctx.check("script[1] + 2 != size" in ops, "witness-program-push-length", ctx.where(f), "_witness_program_version does not require script[1] + 2 == len(script) (guards: %s)" % sorted(ops))
    w = GuardWalker(SymbolicAtomizer(ru.subject({"first_opcode", "script[0]"}, {}), ru.const_resolver(ctx, f, set(), extra=lambda e: {"self.OP_0": 0, "self.OP_1": 81, "self.OP_16": 96}.get(norm(e)))))
    ex = w.run(f.node.body)
    may, must = reach_sets(ex, notnone, U, E)
    ctx.check(may == (iv(0, 0) | iv(81, 96)), "witness-version-opcode", ctx.where(f), "_witness_program_version accepts version opcodes %s, BIP141: OP_0 or OP_1..OP_16" % may.fmt())
    cv = it.get(f.module.name, "SegwitChecker")
    ctx.check((it.getattr(cv, "OP_0"), it.getattr(cv, "OP_1"), it.getattr(cv, "OP_16")) == (0, 81, 96), "witness-opcode-constants", ctx.where(f), "SegwitChecker.OP_0/OP_1/OP_16 evaluate to %r, not 0/81/96" % ((it.getattr(cv, "OP_0"), it.getattr(cv, "OP_1"), it.getattr(cv, "OP_16")),))
    # v0 program lengths
    f = ctx.func(SEG, "SegwitChecker._check_witness_program_v0")
    w = GuardWalker(SymbolicAtomizer(ru.subject({"size", "len(witness_program)"}, df.single_defs(f.node)), ru.const_resolver(ctx, f, set())))
    ex = w.run(f.node.body)
    may, must = reach_sets(ex, lambda e: e.kind == "return", U, E)
    ctx.check(may == (iv(20, 20) | iv(32, 32)), "witness-v0-lengths", ctx.where(f), "v0 witness programs of length %s are executed; BIP141: 20 or 32" % may.fmt())
    # P2SH predicate
    f = ctx.func(P2S, "P2SChecker.is_pay_to_script_hash")
    rets = df.returns_of(f.node)
    if len(rets) != 1:
        raise AnalysisError("is_pay_to_script_hash: expected one return")
    e = rets[0].value
    conj = e.values if isinstance(e, ast.BoolOp) and isinstance(e.op, ast.And) else [e]
    p = f.params()[1]
    cons = {}
    for c in conj:
        if isinstance(c, ast.Compare) and len(c.ops) == 1 and isinstance(c.ops[0], ast.Eq):
            l, r = norm(c.left), c.comparators[0]
            try:
                val = ru.eval_in_module(ctx, f.module, r)
            except Exception:
                val = None
            cons[l] = val
    want = {"len(%s)" % p: 23, "%s[0]" % p: 0xa9, "%s[1]" % p: 0x14, "%s[-1]" % p: 0x87}
    alt = dict(want)
    alt["%s[22]" % p] = alt.pop("%s[-1]" % p)
    ctx.check(cons in (want, alt), "p2sh-pattern", ctx.where(f),
              "is_pay_to_script_hash constrains %s; BIP16 pattern is len == 23, [0] == HASH160 (0xa9), [1] == 0x14, [22] == EQUAL (0x87)" % cons, sample={"constraints": cons})
    # hash type definedness
    f = ctx.func(CHECKSIG, "check_defined_hashtype_signature")
    # decision table over the 256 values of the last byte: the guards of the function evaluated on a two-byte blob ending in
    # that byte (abstract interpreter, finite domain): refused exactly outside {1, 2, 3} | {0x81, 0x82, 0x83}
    from sa.interp import Frame, Unknown
    it_ = ctx.interp
    mv = it_.module(f.module.name)
    sp = f.params()[0]

    def evalf(expr, v):
        val = it_.eval(expr, Frame(mv, None, {sp: bytes([0x30, v])}))
        if isinstance(val, Unknown):
            raise ValueError("unknown")
        return bool(val)
    leaf = sym.finite_leaf(range(256), evalf)
    wh = sym.walk(ctx, f, leaf, feasible=lambda r: True)
    fr = sym.exits_formula(wh, lambda e: e.kind == "raise")
    ops = [o for o in (gi.f_opaques(fr) if fr not in (True, False) else []) if isinstance(o, str)]
    if ops:
        raise Undecided("check_defined_hashtype_signature decides on %s, which the last byte of the blob does not determine" % ops[:2])
    rej = sym.may_set(fr, leaf.univ, leaf.empty) if fr is not False else leaf.empty
    acc = sorted(set(range(256)) - set(rej.m))
    ctx.check(acc == [1, 2, 3, 0x81, 0x82, 0x83], "defined-hashtype", ctx.where(f),
              "check_defined_hashtype_signature accepts the hash-type bytes %s; STRICTENC defines exactly 1, 2, 3 with or without ANYONECANPAY (0x80)" % (["0x%02x" % x for x in acc[:12]],),
              sample={"accepted": ["0x%02x" % x for x in acc[:16]], "domain": 256})


# ------------------------------------------------------------------ C03.6
def _limit_scopes(ctx, fi):
    """[(node, iterable text)] for every loop / comprehension of the function whose element length is compared with the 520-byte limit"""
    node = sym.expanded(ctx, fi)
    defs = df.single_defs(node)
    is_limit = lambda e: "MAX_BLOB_LENGTH" in norm(df.expand(e, defs)) or df.const_int(df.expand(e, defs)) == 520
    out = []
    for n in ast.walk(node):
        tgt = it = None
        tests = []
        if isinstance(n, ast.For):
            tgt, it = n.target, n.iter
            tests = [x for st in n.body for x in ast.walk(st) if isinstance(x, ast.Compare)]
        elif isinstance(n, (ast.GeneratorExp, ast.ListComp, ast.SetComp)) and len(n.generators) == 1:
            tgt, it = n.generators[0].target, n.generators[0].iter
            tests = [x for x in ast.walk(n.elt) if isinstance(x, ast.Compare)] + [x for c in n.generators[0].ifs for x in ast.walk(c) if isinstance(x, ast.Compare)]
        if tgt is None or not isinstance(tgt, ast.Name):
            continue
        for c in tests:
            sides = [c.left] + list(c.comparators)
            if any(norm(x) == "len(%s)" % tgt.id for x in sides) and any(is_limit(x) for x in sides):
                out.append((n, norm(df.expand(it, defs))))
                break
    return out


def c03_6(ctx):
    # whatever function applies the limit, and in whatever form (loop, any(..)): the elements it ranges over are the INPUT STACK of
    # the witness program, not the raw witness (whose last item, for P2WSH, is the script: up to 10000 bytes)
    for nm in ("SegwitChecker.witness_program_tuple", "SegwitChecker._check_witness_program_v0"):
        g = ctx.func(SEG, nm)
        for node_, it_t in _limit_scopes(ctx, g):
            raw = "witness_solution_stack" in it_t and "[:-1]" not in it_t and "_check_witness_program_v0" not in it_t
            ctx.check(not raw, "witness-element-limit-scope:%s" % nm.split(".")[-1], ctx.where(g, node_),
                      "%s applies the 520-byte element limit to `%s`, the raw witness, which for P2WSH includes the witness script itself: scripts over 520 bytes (consensus allows 10000) are rejected" % (nm, it_t[:70]),
                      sample={"function": nm, "limit_ranges_over": it_t[:70]})
    f = ctx.func(SEG, "SegwitChecker.witness_program_tuple")
    loops = [n for n in body_nodes(f.node) if isinstance(n, ast.For) and any(isinstance(x, ast.If) and "MAX_BLOB_LENGTH" in norm(x.test) for x in n.body)]
    if not loops:
        ctx.bad("witness-element-limit-missing", ctx.where(f), "witness_program_tuple: no 520-byte limit on the witness input stack")
        return
    for lp in loops:
        it_t = norm(lp.iter)
        ctx.check("witness_solution_stack" not in it_t, "witness-element-limit-scope", ctx.where(f, lp),
                  "witness_program_tuple applies the 520-byte element limit to `%s`, which includes the witness script itself: P2WSH scripts over 520 bytes (consensus allows 10000) are rejected" % it_t,
                  sample={"iterates": it_t})
        # the iterated stack must be the one returned by _check_witness_program_v0
        defs = df.assignments(f.node)
        src = [v for v, st in defs.get(it_t, []) if isinstance(v, tuple) and v[0] == "unpack" and "_check_witness_program_v0" in norm(v[1]) and v[2] == 0]
        ctx.check(bool(src) or "witness_solution_stack" in it_t, "witness-element-limit-source", ctx.where(f, lp), "the limited stack `%s` is not the input stack computed by _check_witness_program_v0" % it_t)
        x = [x for x in lp.body if isinstance(x, ast.If)][0]
        const = ru.const_resolver(ctx, f, {"self.VM.MAX_BLOB_LENGTH"})
        at = SymbolicAtomizer(ru.subject({"len(%s)" % norm(lp.target)}), const)
        s = gi.sat_set(at(x.test), U, E)
        ctx.check(s == iv(("s", 1), None), "witness-element-limit-value", ctx.where(f, x), "witness stack elements rejected for lengths %s, consensus: > 520" % s.fmt("MAX_BLOB_LENGTH"))
    v0 = ctx.func(SEG, "SegwitChecker._check_witness_program_v0")
    txt = norm(v0.node)
    tcheck(ctx, "stack = list(witness_solution_stack[:-1])" in txt and "puzzle_script = witness_solution_stack[-1]" in txt and "sha256(puzzle_script).digest() != witness_program" in txt,
              "p2wsh-script-split", ctx.where(v0), "_check_witness_program_v0: P2WSH does not split the witness into script (last item, sha256-checked) and input stack (the rest)")
    tcheck(ctx, "len(witness_solution_stack) != 2" in txt and "stack = list(witness_solution_stack)" in txt, "p2wpkh-two-items", ctx.where(v0), "_check_witness_program_v0: P2WPKH does not require exactly two witness items")


# ------------------------------------------------------------------ C03.7
def c03_7(ctx):
    pairs = ((INTOPS, "do_OP_EQUALVERIFY", "do_OP_EQUAL"), (INTOPS, "do_OP_NUMEQUALVERIFY", "do_OP_NUMEQUAL"),
             (CHECKSIG, "do_OP_CHECKSIGVERIFY", "do_OP_CHECKSIG"), (CHECKSIG, "do_OP_CHECKMULTISIGVERIFY", "do_OP_CHECKMULTISIG"))
    for rel, name, base in pairs:
        f = ctx.func(rel, name)
        body = [s for s in f.node.body if not (isinstance(s, ast.Expr) and isinstance(s.value, ast.Constant))]
        first = body[0] if body else None
        ok = isinstance(first, ast.Expr) and norm(first.value) == "%s(vm)" % base
        rest = body[1:]
        if ok and len(rest) == 1 and isinstance(rest[0], ast.Expr) and norm(rest[0].value) == "do_OP_VERIFY(vm)":
            pass
        elif ok:
            txt = " ; ".join(norm(s) for s in rest)
            ok = "vm.bool_from_script_bytes(vm.pop())" in txt and "raise ScriptError" in txt and ("if not v:" in txt or "if not vm.bool_from_script_bytes(vm.pop()):" in txt)
        tcheck(ctx, ok, "verify-sibling:%s" % name, ctx.where(f), "%s is not `%s; pop; fail unless true`" % (name, base), sample={"handler": name, "base": base})
    f = ctx.func(INTOPS, "do_OP_VERIFY")
    txt = norm(f.node)
    tcheck(ctx, "v = vm.bool_from_script_bytes(vm.pop())" in txt and "if not v:" in txt and "raise ScriptError" in txt, "verify", ctx.where(f), "do_OP_VERIFY is not pop + script truthiness + fail")


# ------------------------------------------------------------------ C03.8
def c03_8(ctx):
    f = ctx.func(BSC, "BitcoinSolutionChecker._solution_script_to_stack")
    defs = df.single_defs(f.node)
    calls = [c for c in df.calls_in(f.node) if norm(c.func) == "self.VM"]
    ok = len(calls) == 1 and len(calls[0].args) >= 4 and norm(df.expand(calls[0].args[3], defs)) in (
        "flags & ~(VERIFY_MINIMALIF | VERIFY_WITNESS_PUBKEYTYPE)", "flags & ~(VERIFY_WITNESS_PUBKEYTYPE | VERIFY_MINIMALIF)")
    ctx.check(ok, "scriptsig-flags", ctx.where(f), "the scriptSig VM does not run with MINIMALIF and WITNESS_PUBKEYTYPE masked out (flags argument: %s)" % (norm(df.expand(calls[0].args[3], defs)) if calls and len(calls[0].args) >= 4 else None))
    w = GuardWalker(ru.opaque)
    w.run(f.node.body)
    po = [(st, r) for st, r in w.visits if "_check_script_push_only(tx_context.solution_script)" in norm(st)]
    ctx.check(len(po) == 1 and gi.f_equiv(po[0][1], ("op", "flags & VERIFY_SIGPUSHONLY")), "sigpushonly", ctx.where(f), "SIGPUSHONLY does not run the push-only check on the scriptSig exactly when the flag is set")
    g = ctx.func(BSC, "BitcoinSolutionChecker.puzzle_and_solution_iterator")
    gd = df.single_defs(g.node)
    txt = norm(g.node)
    f1 = gd.get("flags_1")
    ctx.check(f1 is not None and norm(f1) in ("flags & ~(VERIFY_MINIMALIF | VERIFY_WITNESS_PUBKEYTYPE)", "flags & ~(VERIFY_WITNESS_PUBKEYTYPE | VERIFY_MINIMALIF)"), "scriptpubkey-flags", ctx.where(g),
              "the scriptPubKey / P2SH stage flags are `%s`, expected flags without MINIMALIF and WITNESS_PUBKEYTYPE" % (norm(f1) if f1 is not None else None))
    tcheck(ctx, "yield (puzzle_script, solution_stack, flags_1, sighash_f)" in txt, "scriptpubkey-stage", ctx.where(g), "the first stage does not run the scriptPubKey on the scriptSig's stack with the masked flags")
    tcheck(ctx, "self.p2s_program_tuple(tx_context, puzzle_script, solution_stack, flags_1, sighash_f)" in txt, "p2sh-stage-flags", ctx.where(g), "the P2SH stage does not receive the masked flags")
    tcheck(ctx, "self.witness_program_tuple(tx_context, puzzle_script, solution_stack, flags, is_p2sh)" in txt and "is_p2sh = p2sh_tuple is not None" in txt, "witness-stage-flags", ctx.where(g),
              "the witness stage does not receive the unmasked flags and the is_p2sh indicator")
    tcheck(ctx, "puzzle_script, solution_stack = p2sh_tuple[:2]" in txt, "p2sh-to-witness-chaining", ctx.where(g), "the witness stage does not see the redeem script after P2SH")
    # P2SH: push-only scriptSig, removes its own bit, redeem script = last stack item
    p = ctx.func(P2S, "P2SChecker.p2s_program_tuple")
    txt = norm(p.node)
    w = GuardWalker(ru.opaque)
    ex = w.run(p.node.body)
    rt = [e for e in ex if e.kind == "return" and not (isinstance(e.value, ast.Constant) and e.value.value is None)]
    ok = len(rt) == 1 and gi.f_equiv(rt[0].cond, gi.f_and(("op", "flags & VERIFY_P2SH"), ("op", "self.is_pay_to_script_hash(puzzle_script)")))
    ctx.check(ok, "p2sh-dispatch", ctx.where(p), "p2s_program_tuple does not fire exactly when the P2SH flag is set and the script matches the P2SH pattern")
    tcheck(ctx, "self._check_script_push_only(tx_context.solution_script)" in txt, "p2sh-push-only", ctx.where(p), "P2SH evaluation does not enforce a push-only scriptSig")
    tcheck(ctx, "puzzle_script, solution_stack = (solution_stack[-1], solution_stack[:-1])" in txt and "flags & ~VERIFY_P2SH" in txt, "p2sh-redeem", ctx.where(p), "P2SH does not take the last stack item as script, the rest as stack, and clear its own flag")
    # witness
    s = ctx.func(SEG, "SegwitChecker.witness_program_tuple")
    w = GuardWalker(ru.opaque)
    ex = w.run(s.node.body)
    un = [e for e in ex if e.kind == "raise" and "WITNESS_UNEXPECTED" in norm(e.value)]
    ok = len(un) == 1 and gi.f_equiv(un[0].cond, gi.f_and(("op", "flags & VERIFY_WITNESS"), ("op", "witness_version is None"), ("op", "len(tx_context.witness_solution_stack) > 0")))
    ctx.check(ok, "witness-unexpected", ctx.where(s), "`witness unexpected` is not raised exactly when the script is no witness program and the witness is non-empty (under the WITNESS flag)")
    mal = [e for e in ex if e.kind == "raise" and "not blank" in norm(e.value)]
    ok = any("len(solution_stack) > 0" in gi.f_opaques(e.cond) for e in mal)
    ctx.check(ok, "witness-malleated", ctx.where(s), "a witness program with a non-empty scriptSig stack is not rejected")
    rv = [e for e in ex if e.kind == "return" and isinstance(e.value, ast.Tuple)]
    ok = len(rv) == 1 and norm(rv[0].value.elts[2]) == "flags | VERIFY_CLEANSTACK" and "witness_version == 0" in gi.f_opaques(rv[0].cond)
    ctx.check(ok, "witness-cleanstack", ctx.where(s), "witness v0 scripts do not run with the caller's flags plus CLEANSTACK")
    dis = [e for e in ex if e.kind == "raise" and "DISCOURAGE_UPGRADABLE_WITNESS_PROGRAM" in norm(e.value)]
    ctx.check(len(dis) == 1 and "flags & VERIFY_DISCOURAGE_UPGRADABLE_WITNESS_PROGRAM" in gi.f_opaques(dis[0].cond), "witness-upgradable", ctx.where(s), "unknown witness versions are not rejected exactly under the DISCOURAGE flag")
    # final checks
    c = ctx.func(BSC, "BitcoinSolutionChecker.check_solution")
    txt = norm(c.node)
    tcheck(ctx, "if len(stack) == 0 or not vm.bool_from_script_bytes(stack[-1]):" in txt, "eval-false", ctx.where(c), "check_solution does not fail on an empty or false final stack after every stage")
    tcheck(ctx, "if flags and flags & VERIFY_CLEANSTACK and (len(stack) != 1):" in txt, "cleanstack", ctx.where(c), "CLEANSTACK does not compare the final stack length with 1")
    tcheck(ctx, "initial_stack=solution_stack[:]" in txt, "stage-stack-copy", ctx.where(c), "stages do not run on a copy of the previous stack")
    # MINIMALDATA applies to pushes only when executed; minimal push violation raises
    ei = ctx.func(VM, "VM.eval_instruction")
    t = norm(ei.node)
    tcheck(ctx, "verify_minimal_data = self.flags & VERIFY_MINIMALDATA and all_if_true" in t and "if not is_ok:" in t, "minimaldata-executed-only", ctx.where(ei), "eval_instruction does not restrict the minimal-push rule to executed pushes or ignores malformed pushes")
    tcheck(ctx, "if all_if_true or getattr(f, 'outside_conditional', False):" in t and "if data is not None and all_if_true:" in t, "conditional-execution", ctx.where(ei), "eval_instruction does not skip unexecuted opcodes / pushes correctly")
    # NULLDUMMY / NULLFAIL / STRICTENC plumbing
    m = ctx.func(CHECKSIG, "do_OP_CHECKMULTISIG")
    tcheck(ctx, "if vm.flags & VERIFY_NULLDUMMY and hack_byte != b'':" in norm(m.node), "nulldummy", ctx.where(m), "NULLDUMMY does not require the dummy element to be empty")
    cs = ctx.func(CHECKSIG, "checksigs")
    t = norm(cs.node)
    tcheck(ctx, "any_nonblank = flags & VERIFY_NULLFAIL and any((len(s) > 0 for s in sig_blobs))" in t and "if any_nonblank:" in t, "nullfail", ctx.where(cs), "NULLFAIL does not fail when a failed check had a non-empty signature")
    pc = ctx.func(CHECKSIG, "parse_and_check_signature_blob")
    t = norm(pc.node)
    tcheck(ctx, "if flags & (VERIFY_DERSIG | VERIFY_LOW_S | VERIFY_STRICTENC):" in t and "check_valid_signature(sig_blob)" in t and "if flags & VERIFY_STRICTENC:" in t and
              "check_defined_hashtype_signature(sig_blob)" in t and "if flags & VERIFY_LOW_S:" in t, "signature-encoding-flags", ctx.where(pc), "DERSIG/LOW_S/STRICTENC do not trigger the encoding checks")
    cg = ctx.func(CHECKSIG, "check_public_key_flags")
    t = norm(cg.node)
    tcheck(ctx, "if verify_witness_pubkeytype:" in t and "pair_blob[:1] not in (b'\\x02', b'\\x03') or len(pair_blob) != 33" in t, "witness-pubkeytype", ctx.where(cg), "WITNESS_PUBKEYTYPE does not require compressed keys")


# ------------------------------------------------------------------ C03.9
def c03_9(ctx):
    f = ctx.func(CHECKSIG, "check_low_der_signature")
    defs = df.single_defs(f.node)
    g = f.params()[1]
    uses_p = [c for c in df.calls_in(f.node) if norm(c.func) == "%s.p" % g]
    uses_n = [c for c in df.calls_in(f.node) if norm(c.func) == "%s.order" % g]
    ctx.check(not uses_p and bool(uses_n), "low-s-modulus", ctx.where(f),
              "check_low_der_signature compares s with the field prime p; LOW_S is defined with the group order n (signatures with s in (n/2, p/2] are misjudged)",
              sample={"function": f.qualname, "modulus_calls": [norm(c) for c in uses_p + uses_n]})
    w = GuardWalker(ru.opaque)
    ex = w.run(f.node.body)
    rs = [e for e in ex if e.kind == "raise"]
    ok = len(rs) == 1
    if ok:
        ops = gi.f_opaques(rs[0].cond)
        t = [norm(df.expand(ast.parse(o, mode="eval").body, defs)) for o in ops]
        ok = any(x in ("%s.order() - s < s" % g, "s > %s.order() - s" % g, "s + s > %s.order()" % g, "2 * s > %s.order()" % g, "s > %s.order() // 2" % g) for x in t)
    ctx.check(ok, "low-s-comparison", ctx.where(f), "check_low_der_signature does not reject exactly s > n - s")


# ------------------------------------------------------------------ C03.10
def c03_10(ctx):
    c = ctx.p.cls(COND, "ConditionalStack")
    f = ctx.func(COND, "ConditionalStack.all_if_true")
    r = df.returns_of(f.node)
    tcheck(ctx, len(r) == 1 and norm(r[0].value) == "self.false_count == 0", "all-if-true", ctx.where(f), "all_if_true is not `false_count == 0`")
    f = ctx.func(COND, "ConditionalStack.check_final_state")
    w = GuardWalker(SymbolicAtomizer(ru.subject({"self.false_count"}), df.const_int))
    ex = w.run(f.node.body)
    # error_f is called when either counter is non-zero
    t = norm(f.node)
    tcheck(ctx, "if self.false_count > 0 or self.true_count > 0:" in t and "self.error_f(" in t, "final-state", ctx.where(f), "check_final_state does not fail when a branch is still open")
    f = ctx.func(COND, "ConditionalStack.OP_IF")
    t = norm(f.node)
    ok = -1 < t.find("if self.false_count > 0:") < t.find("if reverse_bool:") and "self.false_count += 1\n        return" in t and "the_bool = not the_bool" in t and "self.true_count += 1" in t and "self.false_count = 1" in t
    tcheck(ctx, ok, "op-if", ctx.where(f), "OP_IF does not (a) only deepen false_count inside a false branch, (b) apply NOTIF inversion, (c) open a true or a false branch")
    for name, msg in (("OP_ELSE", "OP_ELSE without OP_IF"), ("OP_ENDIF", "OP_ENDIF without OP_IF")):
        f = ctx.func(COND, "ConditionalStack." + name)
        w = GuardWalker(ru.opaque)
        w.run(f.node.body)
        errs = [(st, r) for st, r in w.visits if "self.error_f(" in norm(st)]
        ok = len(errs) == 1
        if ok:
            r = errs[0][1]
            # error exactly when both counters are zero
            both_zero = gi.f_and(gi.f_not(("op", "self.false_count > 1")) if name == "OP_ELSE" else True,
                                 gi.f_not(("op", "self.false_count == 1")) if name == "OP_ELSE" else gi.f_not(("op", "self.false_count > 0")),
                                 ("op", "self.true_count == 0"))
            ok = gi.f_equiv(r, both_zero)
        ctx.check(ok, "unbalanced:%s" % name, ctx.where(f), "%s does not report an unbalanced conditional exactly when no branch is open" % name)
    # IF / NOTIF pop the condition only when executing, MINIMALIF before conversion
    mk = ctx.func(MISCOPS, "make_if")
    inner = ctx.p.functions.get(mk.qualname + ".f")
    if inner is None:
        raise AnalysisError("make_if.f not found")
    w = GuardWalker(ru.opaque)
    w.run(inner.node.body)
    pops = [(st, r) for st, r in w.visits if "vm.pop()" in norm(st)]
    ok = len(pops) == 1 and "conditional_stack.all_if_true()" in gi.f_opaques(pops[0][1])
    ctx.check(ok, "if-pops-when-executing", ctx.where(inner), "IF/NOTIF pop the condition although the branch is not executing (or never pop it)")
    t = norm(inner.node)
    ok = "if vm.flags & VERIFY_MINIMALIF:" in t and "if item not in (vm.VM_FALSE, vm.VM_TRUE):" in t and -1 < t.find("VERIFY_MINIMALIF") < t.find("the_bool = vm.bool_from_script_bytes(item)")
    tcheck(ctx, ok, "minimalif", ctx.where(inner), "MINIMALIF is not applied (item in {empty, 01}) before the condition is converted")
    tcheck(ctx, "vm.conditional_stack.OP_IF(the_bool, reverse_bool=reverse_bool)" in t, "if-dispatch", ctx.where(inner), "IF/NOTIF do not forward (condition, reverse flag) to the conditional stack")


# ------------------------------------------------------------------ C03.12  CLTV / CSV comparisons
def c03_12(ctx):
    f = ctx.func(MISCOPS, "_check_sequence_verify")
    raw = f.params()[:2]
    defs = df.single_defs(f.node)
    for n in body_nodes(f.node):
        if isinstance(n, ast.Compare):
            names = df.names_in(n)
            used = [r for r in raw if r in names]
            ctx.check(not used, "csv-compares-masked", ctx.where(f, n),
                      "_check_sequence_verify compares the raw value `%s` in `%s`; BIP112 compares the values masked with (TYPE_FLAG | 0xffff): unused upper bits of nSequence change the verdict"
                      % (",".join(used), norm(n)), what="cmp:%s" % norm(n), sample={"comparison": norm(n)})
    it = ctx.interp
    fl = it.module("pycoin.satoshi.flags").ns
    ctx.check(fl.get("SEQUENCE_LOCKTIME_TYPE_FLAG") == 1 << 22 and fl.get("SEQUENCE_LOCKTIME_DISABLE_FLAG") == 1 << 31, "csv-constants", "pycoin/satoshi/flags.py:1", "BIP68 flag constants are wrong")
    # BIP112 compares the two values after masking BOTH with TYPE_FLAG | 0xffff: in the conditions of every exit, over the
    # function's inputs (locals substituted, constants folded), each parameter occurs only as `MASK & parameter`
    import re as _re
    MASK = (1 << 22) | 0xFFFF
    ws = sym.walk(ctx, f, int_names=lambda t: True)
    atoms = sorted(sym.all_atoms(ws))
    if not atoms:
        raise Undecided("_check_sequence_verify: no test found")
    for prm in raw:
        masked = _re.compile(r"(?:\b%d & %s\b|\b%s & %d\b)" % (MASK, _re.escape(prm), _re.escape(prm), MASK))
        other = _re.compile(r"(?:\b(\d+) & %s\b|\b%s & (\d+)\b)" % (_re.escape(prm), _re.escape(prm)))
        n_masked = 0
        for a_ in atoms:
            n_masked += len(masked.findall(a_))
            rest = masked.sub("M", a_)
            wrong = [x for tup in other.findall(rest) for x in tup if x]
            if wrong:
                ctx.bad("csv-mask:%s" % prm, ctx.where(f), "_check_sequence_verify masks %s with %s in `%s`; BIP112 masks with SEQUENCE_LOCKTIME_TYPE_FLAG | 0xffff = %d" % (prm, wrong[0], a_[:80], MASK))
            elif _re.search(r"\b%s\b" % _re.escape(prm), rest):
                ctx.bad("csv-mask:%s" % prm, ctx.where(f), "_check_sequence_verify uses %s unmasked in `%s`: the unused upper bits of nSequence / of the operand change the verdict" % (prm, a_[:80]))
        ctx.check(n_masked > 0, "csv-masked:%s" % prm, ctx.where(f), "_check_sequence_verify never looks at %s & (TYPE_FLAG | 0xffff)" % prm, sample={"parameter": prm, "masked_occurrences": n_masked})
    order = [a_ for a_ in atoms if all(p_ in a_ for p_ in raw) and " < " in a_ and " == " not in a_]
    too_small = [e for e in ws.exits if e.kind == "raise" and any(sym.entails(e.cond, ("not", ("op", o))) for o in order)]
    ctx.check(bool(order) and bool(too_small), "csv-final-comparison", ctx.where(f), "the final BIP112 comparison masked(script value) > masked(nSequence) => failure was not found (ordering atoms: %s)" % order[:1], sample={"ordering_test": order[:1]})
    g = ctx.func(MISCOPS, "do_OP_CHECKSEQUENCEVERIFY")
    t = norm(g.node)
    ok = "if sequence & SEQUENCE_LOCKTIME_DISABLE_FLAG:" in t and "if vm.tx_context.version < 2:" in t and "if vm.tx_context.sequence & SEQUENCE_LOCKTIME_DISABLE_FLAG:" in t and "_check_sequence_verify(sequence, vm.tx_context.sequence)" in t and "if sequence < 0:" in t
    tcheck(ctx, ok, "csv-preconditions", ctx.where(g), "CHECKSEQUENCEVERIFY misses one of: negative operand, disable flag in operand (nop), tx version >= 2, disable flag in nSequence, masked comparison")
    h = ctx.func(MISCOPS, "do_OP_CHECKLOCKTIMEVERIFY")
    t = norm(h.node)
    ok = "if vm.tx_context.sequence == 4294967295:" in t and "if max_lock_time < 0:" in t and "era_max = max_lock_time >= 500000000" in t and "era_lock_time = vm.tx_context.lock_time >= 500000000" in t and \
        "if era_max != era_lock_time:" in t and "if max_lock_time > vm.tx_context.lock_time:" in t
    tcheck(ctx, ok, "cltv-rules", ctx.where(h), "CHECKLOCKTIMEVERIFY misses one of: final sequence, negative operand, same era (threshold 500000000), operand <= nLockTime")
    for fn in (g, h):
        w = GuardWalker(ru.opaque)
        ex = w.run(fn.node.body)
        # with the flag unset the opcode does nothing: every failing exit is reached only with the flag set, and a normal exit
        # (an explicit return or the end of the function) exists without it -- however the guard is spelled
        flag_atoms = sorted({o for e in ex for o in (gi.f_opaques(e.cond) if e.cond not in (True, False) else []) if isinstance(o, str) and "VERIFY_CHECK" in o and "flags" in o})
        if len(flag_atoms) != 1:
            raise Undecided("%s: the opcode's own flag is not tested in one recognisable atom (%s)" % (fn.name, flag_atoms[:2]))
        fa = ("op", flag_atoms[0])
        raises = [e for e in ex if e.kind == "raise"]
        normal = [e for e in ex if e.kind in ("return", "fall") and (e.kind == "fall" or e.value is None or (isinstance(e.value, ast.Constant) and e.value.value is None))]
        def discouraged(e):      # the one failure allowed without the flag: DISCOURAGE_UPGRADABLE_NOPS
            return any(isinstance(o, str) and "DISCOURAGE" in o and sym.entails(e.cond, ("op", o)) for o in (gi.f_opaques(e.cond) if e.cond not in (True, False) else []))
        ok = all(sym.entails(e.cond, fa) or discouraged(e) for e in raises) and any(not sym.entails(e.cond, fa) for e in normal)
        ctx.check(ok, "nop-without-flag:%s" % fn.name, ctx.where(fn), "%s is not a NOP when its flag is unset" % fn.name)


# ------------------------------------------------------------------ C03.14
def c03_14(ctx):
    """stack-shape inference: run each pure stack-manipulation handler in the abstract interpreter on a stack of
    opaque tokens (no values, no solver) and compare the resulting shape with the consensus stack diagram"""
    lk = _lookup(ctx)
    it = ctx.fresh_interp()
    from sa.interp import Unsupported, PyRaise
    by_name = {}
    for v, f in enumerate(lk):
        name = SPEC.NAMES.get(v)
        if name:
            by_name[name] = (v, f)
    for name, (n_in, outs) in sorted(SPEC.STACK_EFFECTS.items()):
        v, f = by_name[name]
        fi = _finfo(ctx, f)
        where = fi.where if fi else STACKOPS + ":1"
        below = ["b0", "b1"]
        tokens = ["x%d" % i for i in range(n_in)]
        stack = below + tokens
        try:
            it.call(f, [stack], {})
            got = stack[len(below):] if stack[:len(below)] == below else None
        except (Unsupported, PyRaise) as e:
            got = "error: %s" % e
        want = [tokens[i] for i in outs]
        ctx.check(got == want, "stack-effect:%s" % name, where, "%s transforms (%s) into (%s); the consensus stack diagram gives (%s)" % (name, " ".join(tokens), got if isinstance(got, str) else " ".join(got or ["<touches deeper items>"]), " ".join(want)),
                  sample={"opcode": name, "in": tokens, "out": got} if name in ("OP_ROT", "OP_2ROT", "OP_TUCK") else None)
        # underflow must not be silent: with one item too few the handler raises (IndexError -> funnelled by VM.pop / __getitem__)
        short = tokens[: n_in - 1]
        try:
            it.call(f, [list(short)], {})
            under = "no error"
        except PyRaise as e:
            under = type(e.exc).__name__
        except Unsupported as e:
            under = "unsupported"
        ctx.check(under in ("IndexError",), "stack-underflow:%s" % name, where, "%s on a stack with %d item(s) ends with %s; it must fail (IndexError, converted to ScriptError by the VM accessors)" % (name, n_in - 1, under), what="underflow:%s" % name, sample=None)
    for name, want in sorted(SPEC.HASH_OPS.items()):
        v, f = by_name[name]
        fi = _finfo(ctx, f)
        body = [norm(s) for s in fi.node.body] if fi else []
        tcheck(ctx, body == ["stack.append(%s)" % want], "hash-op:%s" % name, fi.where if fi else STACKOPS + ":1", "%s is `%s`, expected push %s" % (name, body, want), what="hash:%s" % name, sample=None)
    # the VM funnels list errors of the raw handlers into ScriptError
    vm = ctx.p.cls(VM, "VM")
    for m in ("pop", "__getitem__"):
        f = vm.methods[m]
        t = norm(f.node)
        tcheck(ctx, "except IndexError:" in t and "raise ScriptError(" in t, "underflow-funnel:%s" % m, ctx.where(f), "VM.%s does not convert IndexError into ScriptError" % m)
    # remaining simple handlers
    simple = {"OP_DEPTH": ["vm.push_int(len(vm.stack))"], "OP_SIZE": ["vm.push_int(len(vm[-1]))"], "OP_TOALTSTACK": ["vm.altstack.append(vm.pop())"],
              "OP_CODESEPARATOR": ["vm.begin_code_hash = vm.pc"], "OP_EQUAL": ["v1, v2 = [vm.pop() for i in range(2)]", "vm.append(vm.bool_to_script_bytes(v1 == v2))"],
              "OP_NOT": ["vm.append(vm.bool_to_script_bytes(not pop_check_bounds(vm)))"], "OP_0NOTEQUAL": ["vm.append(vm.bool_to_script_bytes(pop_check_bounds(vm) != 0))"],
              "OP_WITHIN": ["v3, v2, v1 = [pop_check_bounds(vm) for i in range(3)]", "ok = v2 <= v1 < v3", "vm.append(vm.bool_to_script_bytes(ok))"],
              "OP_PICK": None, "OP_ROLL": None, "OP_FROMALTSTACK": None}
    for name, want in simple.items():
        v, f = by_name[name]
        fi = _finfo(ctx, f)
        body = [norm(s) for s in fi.node.body if not (isinstance(s, ast.Expr) and isinstance(s.value, ast.Constant))]
        if want is not None:
            tcheck(ctx, body == want, "handler:%s" % name, fi.where, "%s is %s; consensus semantics: %s" % (name, body, want), what="handler:%s" % name, sample={"opcode": name, "body": body} if name == "OP_WITHIN" else None)
    for name, expr in (("OP_PICK", "vm.append(vm[-v - 1])"), ("OP_ROLL", "vm.append(vm.pop(-v - 1))")):
        v, f = by_name[name]
        fi = _finfo(ctx, f)
        t = norm(fi.node)
        tcheck(ctx, expr in t and "if v < 0:" in t and "v = pop_check_bounds(vm)" in t, "handler:%s" % name, fi.where, "%s does not copy/move the item n back (n >= 0, bounded)" % name)
    v, f = by_name["OP_FROMALTSTACK"]
    fi = _finfo(ctx, f)
    tcheck(ctx, "if len(vm.altstack) < 1:" in norm(fi.node) and "vm.append(vm.altstack.pop())" in norm(fi.node), "handler:OP_FROMALTSTACK", fi.where, "OP_FROMALTSTACK does not move the top of the alt stack (failing when empty)")
    v, f = by_name["OP_IFDUP"]
    fi = _finfo(ctx, f)
    t = norm(fi.node)
    tcheck(ctx, "if _cast_to_bool(stack[-1]):" in t and "stack.append(stack[-1])" in t, "handler:OP_IFDUP", fi.where, "OP_IFDUP does not duplicate the top item exactly when it is true")
    cb = ctx.func(STACKOPS, "_cast_to_bool")
    t = norm(cb.node)
    tcheck(ctx, "for i, b in enumerate(v):" in t and "if b != 0:" in t and "return not (i == len(v) - 1 and b == 128)" in t and t.rstrip().endswith("return False"), "cast-to-bool", ctx.where(cb), "_cast_to_bool is not CastToBool (any non-zero byte, except a sole trailing 0x80)")


    # whatever the spelling: 0x80 counts as zero in the LAST position only, so a CastToBool that looks at the sign bit (a 0x80 /
    # 0x7f constant) has to tell the last byte from the others somewhere -- an index compared with the length, v[-1], v[:-1],
    # reversed(..).  One that masks or compares every byte alike takes b'\x80\x00' (= 128) for false.
    body = [n for st in cb.node.body for n in ast.walk(st)]
    signbit = [n for n in body if isinstance(n, ast.Constant) and n.value in (0x80, 0x7F, b"\x80", b"\x7f")]
    if signbit:
        neg = lambda e: isinstance(e, ast.UnaryOp) and isinstance(e.op, ast.USub)
        positional = [n for n in body if (isinstance(n, ast.Call) and isinstance(n.func, ast.Name) and n.func.id in ("len", "reversed")) or
                      (isinstance(n, ast.Subscript) and (neg(n.slice) or (isinstance(n.slice, ast.Slice) and any(neg(b_) for b_ in (n.slice.lower, n.slice.upper) if b_ is not None)))) or
                      (isinstance(n, ast.Call) and isinstance(n.func, ast.Attribute) and n.func.attr in ("pop", "endswith", "rstrip"))]
        ctx.check(bool(positional), "cast-to-bool-last-byte-only", ctx.where(cb, signbit[0]),
                  "_cast_to_bool looks at the sign bit (constant %r) without telling the last byte from the others (no length, no [-1] / [:-1], no reversed): 0x80 is masked in every position, so b'\\x80\\x00' (128) is false"
                  % signbit[0].value, sample={"sign_constants": len(signbit), "positional_terms": len(positional)}, semantic=True)
    else:
        ctx.undecided("cast-to-bool-last-byte-only", ctx.where(cb), "_cast_to_bool mentions no sign-bit constant: it delegates or is written in a form this clause does not read")


def c03_13(ctx):
    from rules.C06 import cache_scope
    cache_scope(ctx)


# ------------------------------------------------------------------ C03.17  NULLFAIL looks at every signature of the operation
def c03_17(ctx):
    import re as _re
    from sa.ef import writes_in
    f = ctx.func(CHECKSIG, "checksigs")
    code = ctx.interp.module("pycoin.satoshi.errno").ns.get("NULLFAIL")
    if not isinstance(code, int):
        raise AnalysisError("errno.NULLFAIL not found")
    w = sym.walk(ctx, f)
    hits = [e for e in w.exits if e.kind == "raise" and isinstance(e.value, ast.Call) and any((isinstance(a, ast.Constant) and a.value == code) or norm(a).endswith("NULLFAIL") for a in e.value.args)]
    if not hits:
        raise Undecided("checksigs raises no error with errno.NULLFAIL itself; this rule does not read where it went")
    sigs = f.params()[1]
    mutated = set()
    for wr in writes_in(f):
        r = wr.node.func.value if isinstance(wr.node, ast.Call) and isinstance(wr.node.func, ast.Attribute) else None
        if isinstance(r, ast.Name):
            mutated.add(r.id)
    for e in hits:
        ops = [o for o in (gi.f_opaques(e.cond) if e.cond not in (True, False) else []) if isinstance(o, str) and o.startswith("any{")]
        scans = [_re.search(r" for \w+ in (.*)\}$", o) for o in ops]
        scans = [m.group(1) for m in scans if m]
        if not scans:
            raise Undecided("checksigs: the NULLFAIL error is not guarded by an `any non-empty signature` scan this rule reads")
        for it_ in scans:
            names = set(_re.findall(r"[A-Za-z_]\w*", it_))
            if it_ in (sigs, "list(%s)" % sigs, "tuple(%s)" % sigs) and sigs not in mutated:
                ctx.ok("nullfail-scans-all", sample={"scan": it_})
            elif names & mutated:
                ctx.bad("nullfail-scans-all", ctx.where(f, e.node), "NULLFAIL scans `%s`, a list checksigs consumes while matching: signatures that already matched a key are not looked at, "
                        "but consensus fails the operation unless EVERY signature argument is empty" % it_[:80], sample={"scan": it_[:120]})
            else:
                ctx.undecided("nullfail-scans-all", ctx.where(f, e.node), "NULLFAIL scans `%s`; this rule only reads a scan of the signature list the operation was called with" % it_[:80])


# ------------------------------------------------------------------ reference transcriptions (spec/ref_vm.py)
REF_MODULES = (INTOPS, STACKOPS, MISCOPS, CHECKSIG, COND, VM, BVM, SEG, P2S, BSC, "pycoin/coins/bitcoin/make_instruction_lookup.py")
_REF = None


def _ref():
    global _REF
    if _REF is None:
        import os
        _REF = ast.parse(open(os.path.join(os.path.dirname(os.path.dirname(os.path.abspath(__file__))), "spec", "ref_vm.py")).read())
    return _REF


INTS = lambda t: t in ("v", "v1", "v2", "v3", "a", "b", "n", "i", "pc", "size", "count", "key_count", "signature_count", "sig_count", "ls", "lr", "l_s", "hash_type", "signature_type", "opcode", "lock_time", "sequence", "nLockTime", "flags") \
    or t.startswith(("len(", "vm.pop_int()", "vm.pop_nonnegative()", "pop_check_bounds(", "ord(", "int(", "self.op_count", "vm.op_count", "self.pc", "vm.pc", "vm.flags", "self.flags", "self.true_count", "self.false_count"))


def _ref_functions(ctx):
    if "c03_ref" not in ctx.cache:
        names = {n.name for n in _ref().body if isinstance(n, ast.FunctionDef)}
        out = {}
        for rel in REF_MODULES:
            m = ctx.p.module(rel)
            for q, f in ctx.p.functions.items():
                if f.module is m and not isinstance(f.node, ast.Lambda):
                    rn = "q__" + q[len(m.name) + 1:].replace(".", "__")
                    if rn in names:
                        out[q] = (f, rn)
        ctx.cache["c03_ref"] = out
        ctx.cache["c03_status"] = {}
    return ctx.cache["c03_ref"]


def _status(ctx, fi):
    refs = _ref_functions(ctx)
    if fi.qualname not in refs:
        return "none", []
    st = ctx.cache["c03_status"]
    if fi.qualname not in st:
        try:
            status, details, s_ref, rn = sym.reference_status(ctx, fi, _ref(), refs[fi.qualname][1], INTS)
        except Exception as e:          # the engine could not read the function: no information
            status, details = "unrecognised", [("error", "engine", str(e)[:80], None, 0.0)]
        st[fi.qualname] = (status, details)
    return st[fi.qualname]


def _c03_resolver(ctx, fi):
    refs = _ref_functions(ctx)
    if fi.qualname in refs:
        return _ref(), refs[fi.qualname][1], INTS
    return None


def tcheck(ctx, cond, key, where, msg, **kw):
    """a check that reads the spelling of the code (see sa/refguard.py)"""
    return ctx.check(cond, key, where, msg, text=True, **kw)


def guarded(fn, near_stands=True):
    from sa.refguard import guarded as g
    return g(fn, _c03_resolver, near_stands)


# ------------------------------------------------------------------ C03.15
def c03_15(ctx):
    refs = _ref_functions(ctx)
    if len(refs) < 120:
        raise AnalysisError("only %d of the transcribed functions were found in the repository" % len(refs))
    for q in sorted(refs):
        fi, rn = refs[q]
        status, details = _status(ctx, fi)
        where = "%s:%d" % (fi.module.relpath, fi.node.lineno)
        if status == "same":
            ctx.ok("ref:%s" % q, sample={"function": q, "reference": rn} if fi.name in ("do_OP_CHECKMULTISIG", "eval_instruction", "do_OP_WITHIN") else None)
        elif status == "differs":
            for d in details[:3]:
                ctx.bad("ref:%s:%s" % (fi.qualname.split(".", 2)[-1], d[1]), where, "%s computes `%s` where the reference transcription computes `%s`" % (fi.qualname, (d[3] or "")[:260], (d[2] or "")[:260]))
        else:
            ctx.undecided("ref:%s" % q, where, "%s is organised differently from the reference transcription (%s); no verdict" % (fi.qualname, "; ".join("%s %s" % (d[0], (d[2] or d[3] or "")[:70]) for d in details[:2])))


# ------------------------------------------------------------------ C03.16
def c03_16(ctx):
    """three consensus details decided on paths and effects (each a repaired defect, see known_findings.json)"""
    # (a) CLTV / CSV are NOPs on the stack: the operand they read stays there as it was encoded
    for name in ("do_OP_CHECKLOCKTIMEVERIFY", "do_OP_CHECKSEQUENCEVERIFY"):
        f = ctx.func(MISCOPS, name)
        w = sym.walk(ctx, f)
        vm = f.params()[0]
        calls = [e for e in w.effects if e.kind == "call"]
        reenc = [e for e in calls if norm(e.raw.func) in ("%s.push_int" % vm, "%s.push_nonnegative" % vm)]
        ctx.check(not reenc, "locktime-operand-kept:%s" % name, ctx.where(f, reenc[0].node if reenc else None),
                  "%s pushes a re-encoded number: a non-minimally encoded operand (0x0100) comes back as 0x01, consensus leaves the stack untouched" % name)
        pops = [e for e in calls if norm(e.raw.func) in ("%s.pop_int" % vm, "%s.pop" % vm, "%s.pop_nonnegative" % vm)]
        backs = [e for e in calls if norm(e.raw.func) in ("%s.append" % vm, "%s.stack.append" % vm) and e.raw.args and norm(e.call.args[0]).replace(" ", "") in ("%s.stack[-1]" % vm,)]
        if pops:
            r_pop = gi.f_or(*[e.reach for e in pops])
            r_back = gi.f_or(*[e.reach for e in backs]) if backs else False
            ctx.check(r_back is not False and sym.entails(r_pop, r_back), "locktime-operand-restored:%s" % name, ctx.where(f),
                      "%s pops its operand without putting the element it read (vm.stack[-1]) back on every such path" % name)
        else:
            ctx.ok("locktime-operand-peeked:%s" % name)
    # (b) every public key taken for comparison passes the encoding flags, whatever the signature looks like
    cs = ctx.func(CHECKSIG, "checksigs")
    keys = cs.params()[2]
    w = sym.walk(ctx, cs)
    rebinds = [n for n in ast.walk(cs.node) if isinstance(n, ast.Name) and n.id == keys and isinstance(n.ctx, (ast.Store, ast.Del))]
    clears = [e for e in w.effects if e.kind == "call" and norm(e.raw.func) in ("%s.clear" % keys,)]
    ctx.check(not rebinds and not clears, "keys-consumed-by-pop-only", ctx.where(cs, (rebinds or [None])[0]),
              "checksigs rebinds / clears `%s`: keys leave the list without being looked at, so an empty or undecodable signature skips the public key encoding check (STRICTENC, WITNESS_PUBKEYTYPE)" % keys)
    pops = [e for e in w.effects if e.kind == "call" and norm(e.raw.func) == "%s.pop" % keys]
    if not pops:
        raise Undecided("checksigs: keys are not taken with %s.pop()" % keys)
    checked = [e for e in w.effects if e.kind == "call" and norm(e.raw.func) in ("checksig", "check_public_key_flags", "check_public_key_encoding")]
    r_pop = gi.f_or(*[e.reach for e in pops])
    r_chk = gi.f_or(*[e.reach for e in checked]) if checked else False
    # ... except where both encoding flags are known to be off: there the check does nothing
    off = [o for o in (gi.f_opaques(r_pop) if r_pop not in (True, False) else []) if isinstance(o, str) and ("VERIFY_STRICTENC" in o or "VERIFY_WITNESS_PUBKEYTYPE" in o or "bit(vm.flags" in o or "bit(flags" in o or "& vm.flags" in o or "& flags" in o)]
    r_need = r_pop
    if off and r_chk is not False and not sym.entails(r_pop, r_chk):
        # the paths on which a key is taken unchecked: no verdict unless they can be taken with a flag set
        unchecked = gi.f_and(r_pop, gi.f_not(r_chk))
        flags_on = gi.f_or(*[("op", o) for o in off])
        if not sym.can_hold(gi.f_and(unchecked, flags_on)) if hasattr(sym, "can_hold") else False:
            r_need = gi.f_and(r_pop, r_chk)
        else:
            ctx.undecided("every-popped-key-checked", ctx.where(cs), "checksigs takes a public key without the encoding check on paths that also test the encoding flags (%s); this rule does not read whether a flag can be set there" % off[0][:60])
            r_need = None
    if r_need is not None:
        ctx.check(r_chk is not False and sym.entails(r_need, r_chk), "every-popped-key-checked", ctx.where(cs),
                  "checksigs takes a public key on paths where neither checksig nor the encoding check sees it")
    cg = ctx.func(CHECKSIG, "checksig")
    wg = sym.walk(ctx, cg)
    fl = [e for e in wg.effects if e.kind == "call" and norm(e.raw.func) in ("check_public_key_flags",)]
    if fl:
        ctx.check(any(e.reach is True for e in fl), "checksig-key-flags-first", ctx.where(cg), "checksig applies the public key encoding flags only on some paths")
        kf = ctx.func(CHECKSIG, "check_public_key_flags")
        wk = sym.walk(ctx, kf)
        enc = [e for e in wk.effects if e.kind == "call" and norm(e.raw.func) == "check_public_key_encoding"]
        strict = kf.params()[2]
        ctx.check(bool(enc) and sym._equiv(gi.f_or(*[e.reach for e in enc]), ("op", "truthy(%s)" % strict)), "strictenc-key-encoding", ctx.where(kf), "check_public_key_flags does not check the key encoding exactly under STRICTENC")
    else:
        enc = [e for e in wg.effects if e.kind == "call" and norm(e.raw.func) == "check_public_key_encoding"]
        ctx.check(bool(enc) and not any("sig_pair" in str(o) for e in enc for o in (gi.f_opaques(e.reach) if e.reach not in (True, False) else [])), "checksig-key-flags-first", ctx.where(cg),
                  "checksig does not check the public key encoding independently of the signature")
    # (c) a native witness program is spent with an empty scriptSig: the test is on the script, not on the stack it leaves
    wp = ctx.func(SEG, "SegwitChecker.witness_program_tuple")
    ww = sym.walk(ctx, wp)
    p2sh = wp.params()[5]
    raises = [e for e in ww.exits if e.kind == "raise"]
    on_script = [e for e in raises if any("solution_script" in str(o) for o in (gi.f_opaques(e.cond) if e.cond not in (True, False) else []))]
    ok = False
    for e in on_script:
        ops = [o for o in gi.f_opaques(e.cond) if isinstance(o, str)]
        stack_tests = [o for o in ops if "solution_stack" in o and "witness_solution_stack" not in o]
        native = sym.entails(e.cond, gi.f_not(("op", "truthy(%s)" % p2sh)))
        if native and not any(sym.entails(e.cond, ("op", o)) for o in stack_tests):
            ok = True       # raised for a native program because of the script itself, whatever it leaves on the stack
    ctx.check(ok, "native-witness-empty-scriptsig", ctx.where(wp),
              "witness_program_tuple refuses a native witness spend only when the scriptSig LEAVES something on the stack; `OP_1 OP_DROP` as scriptSig is accepted, consensus: WITNESS_MALLEATED unless the scriptSig is empty")
    # (d) P2SH-wrapped: the scriptSig is exactly the canonical push of the redeem script (BIP141), not just "leaves nothing more"
    wrapped = [e for e in raises if e.cond is not False and sym.entails(e.cond, ("op", "truthy(%s)" % p2sh))
               and any("solution_script" in o and "compile_push_data_list" in o for o in (gi.f_opaques(e.cond) if e.cond not in (True, False) else []) if isinstance(o, str))]
    ok_w = False
    pz = wp.params()[2]
    for e in wrapped:
        for o in gi.f_opaques(e.cond):
            if isinstance(o, str) and "solution_script" in o and "compile_push_data_list([%s])" % pz in o and " == " in o and sym.entails(e.cond, gi.f_not(("op", o))):
                ok_w = True
    ctx.check(ok_w, "p2sh-witness-canonical-push", ctx.where(wp),
              "witness_program_tuple accepts a P2SH-wrapped witness spend whose scriptSig is not the canonical push of the redeem script (e.g. OP_PUSHDATA1 <redeem>): consensus fails with WITNESS_MALLEATED_P2SH")


OBLIGATIONS = [
    Ob("C03.1", "all 256 opcode values: dispatch-table binding vs consensus class, outside_conditional bit, arithmetic lambdas", guarded(c03_1), floor=256, engines="REG,CE",
       breaks_if="any script containing that opcode (also inside unexecuted branches)", exhaustive=True),
    Ob("C03.2", "no Python truthiness of stack items in live handlers", guarded(c03_2), floor=10, engines="DF,REG", breaks_if="0x00 / 0x80 operands (OP_IFDUP ...)"),
    Ob("C03.3", "every numeric read is bounded (4 bytes, 5 for CLTV/CSV) and honours MINIMALDATA", guarded(c03_3), floor=4, engines="CFG,GI,REG", breaks_if="5-byte operands of WITHIN/PICK/ROLL/CHECKMULTISIG/0NOTEQUAL"),
    Ob("C03.5", "limits as intervals: script/push/op-count/stack sizes, multisig counts, witness program, P2SH pattern, DER size", guarded(c03_5), floor=20, engines="GI,CE"),
    Ob("C03.6", "520-byte element limit applies to the witness input stack, not the witness script", guarded(c03_6), floor=4, engines="DF,GI", breaks_if="P2WSH witness script > 520 bytes"),
    Ob("C03.7", "*VERIFY opcodes = base opcode; pop; fail unless true", guarded(c03_7), floor=5, engines="SIB"),
    Ob("C03.8", "flag plumbing across scriptSig / scriptPubKey / P2SH / witness stages", guarded(c03_8, near_stands=False), floor=20, engines="DF,GI"),
    Ob("C03.9", "LOW_S compares with the group order", guarded(c03_9), floor=2, engines="MK", breaks_if="s in (n/2, p/2]"),
    Ob("C03.10", "conditional stack guards, MINIMALIF, pop only when executing", guarded(c03_10), floor=8, engines="GI"),
    Ob("C03.14", "stack-shape inference of the pure stack opcodes vs the consensus stack diagrams; hash opcodes; simple handlers", guarded(c03_14), floor=40, engines="CE(abstract stack),SIB",
       breaks_if="any script using the opcode (ROT / 2ROT / TUCK permutations, WITHIN bounds)"),
    Ob("C03.13", "sighash cache of CHECKSIG/CHECKMULTISIG is call-local (shared with C06.2)", guarded(c03_13), floor=7, engines="EF,DF",
       breaks_if="two CHECKSIGs sharing a hash type where the second signature appears in the script (FindAndDelete)"),
    Ob("C03.16", "CLTV/CSV keep their operand as encoded; every key compared passes the encoding flags; native witness spends need an empty scriptSig", c03_16, floor=7, engines="SYM",
       breaks_if="0x02 0x0100 CLTV; OP_0 OP_0 CHECKSIG NOT under STRICTENC; scriptSig OP_1 OP_DROP on P2WPKH"),
    Ob("C03.17", "NULLFAIL scans every signature the operation was called with", c03_17, floor=1, engines="SYM,EF", breaks_if="CHECKMULTISIG where an early signature matches and a later one fails"),
    Ob("C03.12", "CLTV / CSV comparison rules (masked values, eras, preconditions)", guarded(c03_12), floor=9, engines="DF,GI", breaks_if="nSequence with unused upper bits set"),
    Ob("C03.15", "every opcode handler, VM / conditional-stack method and P2SH / segwit / solution-checker function equals its reviewed reference transcription (canonical forms)", c03_15, floor=120, engines="SYM",
       breaks_if="any script exercising the changed handler"),
]
