"""C08 - addresses <-> scripts: structural obligations (DESIGN.md section 4, C08)."""
from __future__ import annotations

import ast
import glob
import os
import re

from sa.core import Ob
from sa.pm import AnalysisError, norm, body_nodes
from sa import gi, df, ru, sym
from sa.pm import Undecided
from sa.gi import IntSet, iv, GuardWalker, SymbolicAtomizer

PARSE = "pycoin/networks/ParseAPI.py"
CAPI = "pycoin/networks/ContractAPI.py"
AAPI = "pycoin/networks/AddressAPI.py"
KEY = "pycoin/key/Key.py"
U, E = IntSet.all(), IntSet.empty()


def symbol_configs(ctx):
    if "symbols" in ctx.cache:
        return ctx.cache["symbols"]
    out = {}
    for name, m in sorted(ctx.p.modules.items()):
        if not name.startswith("pycoin.symbols.") or name.endswith("__init__"):
            continue
        for n in ast.walk(m.tree):
            if isinstance(n, ast.Call) and isinstance(n.func, ast.Name) and n.func.id == "create_bitcoinish_network":
                kw = {}
                for k in n.keywords:
                    if k.arg and isinstance(k.value, ast.Constant):
                        kw[k.arg] = k.value.value
                out[name.split(".")[-1]] = (m, n, kw)
    ctx.p.consulted.update("pycoin.symbols." + k for k in out)
    ctx.cache["symbols"] = out
    return out


def _hx(v):
    if not isinstance(v, str) or len(v) % 2 or not re.fullmatch(r"[0-9a-fA-F]*", v):
        return None
    return bytes.fromhex(v)


# ------------------------------------------------------------------ C08.1
def c08_1(ctx):
    cfgs = symbol_configs(ctx)
    if len(cfgs) < 40:
        raise AnalysisError("only %d symbol configurations found" % len(cfgs))
    hrps = {}
    for symb, (m, call, kw) in cfgs.items():
        where = "%s:%d" % (m.relpath, call.lineno)
        for k, v in kw.items():
            if k.endswith("_hex"):
                ctx.check(_hx(v) is not None and len(v) > 0, "hex:%s:%s" % (symb, k), where, "%s: %s = %r is not a hex literal" % (symb, k, v), what="hex:%s:%s" % (symb, k), sample=None)
        a, p, w = _hx(kw.get("address_prefix_hex", "")), _hx(kw.get("pay_to_script_prefix_hex", "")), _hx(kw.get("wif_prefix_hex", ""))
        if a and p:
            ctx.check(a != p, "p2pkh-vs-p2sh:%s" % symb, where, "%s: P2PKH and P2SH addresses share the version prefix %s: both carry a 20-byte hash, so an address denotes two different scripts" % (symb, a.hex()),
                      sample={"network": symb, "address_prefix": a.hex(), "pay_to_script_prefix": p.hex(), "wif_prefix": w.hex() if w else None} if symb in ("btc", "polis", "pivx") else None)
        # same total length + same leading bytes would make two kinds indistinguishable; WIF differs in length (32/33 vs 20) and is separated by the length guards
        for k1, k2 in (("bip32_prv_prefix_hex", "bip32_pub_prefix_hex"), ("bip49_prv_prefix_hex", "bip49_pub_prefix_hex"), ("bip84_prv_prefix_hex", "bip84_pub_prefix_hex")):
            v1, v2 = _hx(kw.get(k1, "")), _hx(kw.get(k2, ""))
            if v1 or v2:
                ctx.check(bool(v1) and bool(v2) and len(v1) == 4 and len(v2) == 4 and v1 != v2, "extkey-prefix:%s:%s" % (symb, k1[:5]), where,
                          "%s: %s/%s = %s/%s must be two different 4-byte prefixes" % (symb, k1, k2, kw.get(k1), kw.get(k2)), what="ext:%s:%s" % (symb, k1[:5]), sample=None)
        h = kw.get("bech32_hrp")
        if h is not None:
            ctx.check(isinstance(h, str) and h == h.lower() and h != "" and all(33 <= ord(c) <= 126 for c in h), "hrp:%s" % symb, where, "%s: bech32_hrp %r is not a lower-case printable string" % (symb, h), sample=None)
            hrps.setdefault(h, []).append(symb)
    pre = sorted((a, b) for a in hrps for b in hrps if a != b and b.startswith(a))
    ctx.note("HRP pairs where one is a prefix of the other (so HRP comparison must be equality): %s" % pre[:6])
    ctx.cache["hrp_prefix_pairs"] = pre
    # the configuration reaches the APIs under the same names
    f = ctx.func("pycoin/networks/bitcoinish.py", "create_bitcoinish_network")
    w = sym.walk(ctx, f)
    sets = {e.attr: e.value for e in w.effects if e.kind == "setattr" and norm(e.target) == "network"}
    if "parse" not in sets or "address" not in sets:
        raise Undecided("create_bitcoinish_network: network.parse / network.address are not assigned directly")
    a, b = norm(sets["parse"]), norm(sets["address"])
    ka = {norm(k.value) for c in ast.walk(sets["parse"]) if isinstance(c, ast.Call) for k in c.keywords if k.arg is None}
    kb = {norm(k.value) for c in ast.walk(sets["address"]) if isinstance(c, ast.Call) for k in c.keywords if k.arg is None}
    ctx.check(bool(ka) and ka == kb, "config-plumbing", ctx.where(f),
              "create_bitcoinish_network hands different keyword sets to the parser (%s) and to the address encoder (%s): the prefixes they use can differ" % (a[:60], b[:60]))
    hexdec = [e for e in w.effects if e.kind == "setitem" and norm(e.value).startswith("h2b(")]
    ctx.check(bool(hexdec), "config-hex-decoded", ctx.where(f), "create_bitcoinish_network does not decode the *_hex settings with h2b")


_REF = None


def _ref():
    global _REF
    if _REF is None:
        _REF = ast.parse(open(os.path.join(os.path.dirname(os.path.dirname(os.path.abspath(__file__))), "spec", "ref_address.py")).read())
    return _REF


def _refcheck(ctx, rel, dotted, refname, key, ints=None):
    return sym.against_reference(ctx, ctx.func(rel, dotted), _ref(), refname, key, ints or (lambda t: False))


# ------------------------------------------------------------------ C08.2
def _b58_address(ctx, fn, attr, builder):
    """p2pkh / p2sh: the script builder receives exactly the 20 bytes after the matched prefix"""
    f = ctx.func(PARSE, "ParseAPI." + fn)
    w0 = sym.walk(ctx, f)
    builds = sym.calls_matching(w0, "." + builder)
    if not builds:
        raise Undecided("ParseAPI.%s does not call %s" % (fn, builder))
    D = None
    for e in builds:
        arg = e.call.args[0] if e.call.args else None
        ok = isinstance(arg, ast.Subscript) and isinstance(arg.slice, ast.Slice) and arg.slice.lower is not None and arg.slice.step is None
        low = norm(arg.slice.lower) if ok else None
        ctx.check(ok and low == "len(%s)" % attr, "prefix-length:%s" % fn, ctx.where(f, e.node),
                  "ParseAPI.%s builds the script from `%s`; the payload starts after the prefix it matched (%s): on networks whose two address prefixes differ in length the hash is cut at the wrong offset"
                  % (fn, norm(arg)[:80] if arg is not None else None, attr), sample={"function": fn, "payload": norm(arg)[:80] if arg is not None else None})
        if ok:
            D = norm(arg.value)
    if D is None:
        return
    P = "len(%s)" % attr
    payload_texts = {"len(%s[%s:])" % (D, P), "-%s + len(%s)" % (P, D), "len(%s) - %s" % (D, P)}       # the payload length, also as a difference of lengths
    l1 = sym.value_leaf(lambda e: norm(e) == "len(%s)" % D, lambda e: ("s", 0) if norm(e) == P else (("s", df.const_int(e.right)) if isinstance(e, ast.BinOp) and isinstance(e.op, ast.Add) and norm(e.left) == P and df.const_int(e.right) is not None else df.const_int(e)))
    l2 = sym.value_leaf(lambda e: norm(e) in payload_texts, lambda e: ("s", df.const_int(e)) if df.const_int(e) is not None else None)

    cut20 = ("20 == len(%s[%s:%s + 20])" % (D, P, P), "len(%s[%s:%s + 20]) == 20" % (D, P, P))

    def leaf(e, text):
        if text in cut20:
            # `the first 20 bytes after the prefix are 20 bytes`: true for every payload of 20 bytes OR MORE
            return ("set", iv(("s", 20), None))
        r = l1(e, text)
        return r if r[0] == "set" else l2(e, text)
    w = sym.walk(ctx, f, leaf)
    for e in sym.calls_matching(w, "." + builder):
        s = sym.may_set(e.reach, U, E)
        want = iv(("s", 20), ("s", 20))
        if s == U:
            unread = [o for o in (gi.f_opaques(e.reach) if e.reach not in (True, False) else []) if isinstance(o, str) and "len(%s" % D in o]
            if unread:
                raise Undecided("ParseAPI.%s tests the payload length as `%s`, a form this rule does not read" % (fn, unread[0][:80]))
        ctx.check(s == want, "payload-length:%s" % fn, ctx.where(f, e.node),
                  "ParseAPI.%s accepts payloads of total length %s; an address carries exactly a 20-byte hash after the prefix (%s)" % (fn, s.fmt("len(prefix)"), want.fmt("len(prefix)")),
                  sample={"function": fn, "subject": "len(data)", "accepted": s.fmt("len(prefix)")})
        atom = "truthy(%s.startswith(%s))" % (D, attr)
        ctx.check(sym.entails(e.reach, ("op", atom)), "prefix-matched:%s" % fn, ctx.where(f, e.node), "ParseAPI.%s does not match the payload against %s before building the script" % (fn, attr))


def address_kinds(f):
    """the parsers ParseAPI.address tries: an `or` chain of self.<kind>(x) calls, or a loop over a tuple of self.<kind>"""
    kinds = []
    for n in ast.walk(f.node):
        if isinstance(n, ast.BoolOp) and isinstance(n.op, ast.Or):
            ks = [v.func.attr for v in n.values if isinstance(v, ast.Call) and isinstance(v.func, ast.Attribute) and norm(v.func.value) == "self"]
            if len(ks) == len(n.values) and len(ks) > len(kinds):
                kinds = ks
        if isinstance(n, ast.For) and isinstance(n.iter, (ast.Tuple, ast.List)):
            ks = [v.attr for v in n.iter.elts if isinstance(v, ast.Attribute) and norm(v.value) == "self"]
            if len(ks) == len(n.iter.elts) and len(ks) > len(kinds):
                kinds = ks
    return kinds


def c08_2(ctx):
    _b58_address(ctx, "p2pkh", "self._address_prefix", "for_p2pkh")
    _b58_address(ctx, "p2sh", "self._pay_to_script_prefix", "for_p2sh")
    f = ctx.func(PARSE, "ParseAPI._bech32m")
    sp = f.params()
    if len(sp) < 5:
        raise Undecided("_bech32m signature changed")
    s_, ver_, len_, attr_ = sp[1:5]
    DEC = "parse_bech32(%s)" % s_
    w = sym.int_walk(ctx, f, {"len(%s[2])" % DEC}, {len_})
    acc = [e for e in w.exits if e.kind == "return" and not (isinstance(e.value, ast.Constant) and e.value.value is None)]
    if not acc:
        raise Undecided("_bech32m: no accepting return")
    c = gi.f_or(*[e.cond for e in acc])
    ops = gi.f_opaques(c)
    if not any(DEC in o for o in ops):
        raise Undecided("_bech32m does not decide on the fields of parse_bech32(%s)" % s_)

    def eq_atom(a, b):
        return ("op", "%s == %s" % tuple(sorted([a, b])))
    # the clauses below read one comparison per field; a condition that compares several fields at once (a tuple comparison,
    # any(...) over mismatch flags) is not read
    compound = [o for o in ops if isinstance(o, str) and sum(1 for k in range(4) if "%s[%d]" % (DEC, k) in o) >= 2]
    if compound:
        raise Undecided("_bech32m compares several fields of the decoded address in one test (`%s`); this rule reads one comparison per field" % compound[0][:90])
    ctx.check(sym.entails(c, eq_atom("%s[0]" % DEC, "self._bech32_hrp")), "hrp-equality", ctx.where(f),
              "ParseAPI._bech32m does not refuse every address whose human-readable part differs from the network's (guards: %s); networks exist whose HRP is a prefix of another's (%s), so anything weaker than equality accepts foreign addresses"
              % (ops, ctx.cache.get("hrp_prefix_pairs", [])[:3]), sample={"guards": ops})
    s = sym.may_set(c, U, E)
    ctx.check(s == iv(("s", 0), ("s", 0)), "program-length", ctx.where(f), "_bech32m accepts programs of length %s, expected exactly %s" % (s.fmt(len_), len_))
    ctx.check(sym.entails(c, eq_atom("%s[1]" % DEC, ver_)), "witness-version", ctx.where(f), "_bech32m does not refuse other witness versions")
    v0 = eq_atom("%s[1]" % DEC, "0")
    b32 = [o for o in ops if "%s[3]" % DEC in o and o.endswith("BECH32") or ("%s[3]" % DEC in o and ".BECH32 ==" in o)]
    b32m = [o for o in ops if "%s[3]" % DEC in o and "BECH32M" in o]
    ok = bool(b32) and bool(b32m) and sym.entails(gi.f_and(c, v0), ("op", b32[0])) and sym.entails(gi.f_and(c, gi.f_not(v0)), ("op", b32m[0]))
    ctx.check(ok, "checksum-variant", ctx.where(f), "_bech32m does not require the bech32 checksum for witness version 0 and bech32m for later versions (BIP350)")
    for nm in ("p2pkh_segwit", "p2sh_segwit", "p2tr"):
        _refcheck(ctx, PARSE, "ParseAPI." + nm, "papi_" + nm, "segwit-kind:%s" % nm)
    a = ctx.func(PARSE, "ParseAPI.address")
    kinds = address_kinds(a)
    if not kinds:
        raise Undecided("ParseAPI.address: the list of address kinds it tries is not recognisable")
    want = {"p2pkh", "p2sh", "p2pkh_segwit", "p2sh_segwit", "p2tr"}
    ctx.check(set(kinds) == want, "address-dispatch", ctx.where(a), "ParseAPI.address tries %s, expected the five address kinds %s" % (kinds, sorted(want)))
    # a verdict cached on the shared string object must not depend on the network
    from rules.C18 import cache_calls
    for m, n, key, fn in cache_calls(ctx):
        if m.relpath != PARSE:
            continue
        dep = isinstance(fn, ast.Lambda) and any(isinstance(x, ast.Name) and x.id == "self" for x in ast.walk(fn.body))
        ctx.check(not dep, "cache-network-independent:%s" % norm(key)[:30], "%s:%d" % (m.relpath, n.lineno),
                  "ParseAPI caches `%s` on the parseable_str object, which is shared between networks; the cached function reads network state (self.*), so the verdict of one network is returned for another" % norm(key)[:60])


# ------------------------------------------------------------------ C08.3
def _templates(ctx):
    c = ctx.p.cls(CAPI, "ContractAPI")
    d = c.attrs.get("_SCRIPT_LOOKUP")
    out = {}
    if isinstance(d, ast.Call) and norm(d.func) == "dict":
        canon_ = sym.Canon(None, None)
        for k in d.keywords:
            lam = k.value
            if isinstance(lam, ast.Lambda) and isinstance(lam.body, ast.JoinedStr) and all(isinstance(p_, ast.Constant) or (isinstance(p_, ast.FormattedValue) and p_.format_spec is None and p_.conversion in (-1, 115)) for p_ in lam.body.values):
                # f"OP_0 {x}" is "OP_0 %s" % x
                fmt_ = "".join(p_.value.replace("%", "%%") if isinstance(p_, ast.Constant) else "%s" for p_ in lam.body.values)
                vals_ = [p_.value for p_ in lam.body.values if isinstance(p_, ast.FormattedValue)]
                lam = ast.Lambda(lam.args, ast.BinOp(ast.Constant(fmt_), ast.Mod(), vals_[0] if len(vals_) == 1 else ast.Tuple(vals_, ast.Load())))
            if isinstance(lam, ast.Lambda) and isinstance(lam.body, ast.BinOp) and isinstance(lam.body.op, ast.Mod) and isinstance(lam.body.left, ast.Constant):
                fields = re.findall(r"info\.get\('(\w+)'\)", norm(lam.body.right))
                out[k.arg] = (lam.body.left.value, fields)
    return out


def encoders_refuse_only_without_prefix(ctx):
    """an address encoder answers None exactly when the network has no prefix / HRP of that kind -- the same condition under which the
    parser of that kind accepts nothing: an encoder that refuses on anything else (an allow-list of HRPs, a size) leaves scripts
    without an address on networks whose parser still accepts the corresponding strings"""
    table = (("AddressAPI.for_p2pkh", "self._address_prefix is None"), ("AddressAPI.for_p2sh", "self._pay_to_script_prefix is None"),
             ("AddressAPI.for_p2pkh_wit", "self._bech32_hrp is None"), ("AddressAPI.for_p2sh_wit", "self._bech32_hrp is None"), ("AddressAPI.for_p2tr", "self._bech32_hrp is None"))
    for nm, atom in table:
        g = ctx.func(AAPI, nm)
        w = sym.walk(ctx, g)
        nones = [e for e in w.exits if e.kind == "return" and isinstance(e.value, ast.Constant) and e.value.value is None]
        if not nones:
            ctx.undecided("encoder-refuses-only-without-prefix:%s" % nm.split(".")[-1], ctx.where(g), "%s has no `return None` exit this rule can read" % nm)
            continue
        fr = gi.f_or(*[e.cond for e in nones])
        ops = [o for o in (gi.f_opaques(fr) if fr not in (True, False) else []) if isinstance(o, str)]
        others = [o for o in ops if o != atom and o != "not truthy(%s)" % atom[:-8] and not o.startswith("truthy(%s" % atom[:-8])]
        if atom in ops and not others:
            ctx.check(sym._equiv(fr, ("op", atom)), "encoder-refuses-only-without-prefix:%s" % nm.split(".")[-1], ctx.where(g), "%s answers None under `%s`, not exactly when `%s`" % (nm, str(fr)[:80], atom), sample={"encoder": nm, "refuses_when": atom})
        elif others and sym._sat_formula(gi.f_and(fr, ("not", ("op", atom)))) and atom in ops:
            ctx.bad("encoder-refuses-only-without-prefix:%s" % nm.split(".")[-1], ctx.where(g, nones[0].node), "%s also answers None under `%s` although the network has the prefix / HRP: scripts of that kind get no address there, while the parser still accepts the strings" % (nm, others[0][:70]))
        else:
            ctx.undecided("encoder-refuses-only-without-prefix:%s" % nm.split(".")[-1], ctx.where(g), "%s answers None under `%s`; this rule reads `%s`" % (nm, [o[:40] for o in ops][:3], atom))


def hash_text_compiles_as_data(ctx, tp):
    """the builders hand the hash to the script compiler as BARE hex text (`OP_HASH160 %s OP_EQUAL`): the compiler reads a token
    as a decimal NUMBER first, so a hash whose 40 (or 64) hex digits all happen to be decimal digits is data only because the
    number reading is bounded below 10**39 -- the bound is part of what `for_info` builds"""
    bare = sorted(t for t, (tmpl, fields) in tp.items() if any(tok == "%s" for tok in tmpl.split()) and fields and fields[0] in ("hash160", "hash256", "synthetic_key"))
    if not bare:
        return
    digits = 40 if any(tp[t][1][0] == "hash160" for t in bare) else 64
    f = ctx.func("pycoin/vm/ScriptTools.py", "ScriptTools.compile_expression")
    w = sym.walk(ctx, f)
    tparam = f.params()[1]
    nums = [e for e in w.exits if e.kind == "return" and e.value is not None and "int_to_script_bytes(" in norm(e.value)]
    if not nums:
        ctx.undecided("hash-text-compiles-as-data", ctx.where(f), "compile_expression: no exit returning int_to_script_bytes(..) found")
        return
    for e in nums:
        ops = [o for o in (gi.f_opaques(e.cond) if e.cond not in (True, False) else []) if isinstance(o, str)]
        okb = False
        for o in ops:
            m = re.fullmatch(r"(?:abs\()?int\(%s\)\)? < (\d+)" % tparam, o)
            if m and int(m.group(1)) <= 10 ** (digits - 1) and sym.entails(e.cond, ("op", o)):
                okb = True
            m = re.fullmatch(r"len\(%s\) < (\d+)" % tparam, o)
            if m and int(m.group(1)) <= digits and sym.entails(e.cond, ("op", o)):
                okb = True
        ctx.check(okb, "hash-text-compiles-as-data", ctx.where(f, e.node),
                  "compile_expression reads a token as a decimal number under `%s`, with no bound below 10**%d: the builders (%s) hand a hash over as bare hex text, and a hash whose %d hex digits are all decimal digits "
                  "(and do not start with 0) is then pushed as a script number, not as the %d-byte hash" % (str(e.cond)[-120:], digits - 1, ", ".join(bare), digits, digits // 2),
                  sample={"bare_templates": bare, "number_reading_bounded_below": "10**%d" % (digits - 1)})


def c08_3(ctx):
    encoders_refuse_only_without_prefix(ctx)
    tp = _templates(ctx)
    f = ctx.func(CAPI, "ContractAPI.info_for_script")
    # (template text, returned dict) pairs: every exit returning {'type': T, field: <blob>}; the template is the one the
    # blob was matched with (found in the returned value itself, however the function is organised)
    pairs = []
    w = sym.walk(ctx, f)
    for e in w.exits:
        if e.kind != "return" or not isinstance(e.value, ast.Dict):
            continue
        kw = {k.value: norm(v) for k, v in zip(e.value.keys, e.value.values) if isinstance(k, ast.Constant) and isinstance(k.value, str)}
        tmpls = set()
        for v in e.value.values:
            for c in ast.walk(v):
                if isinstance(c, ast.Call) and df.last_attr(c) == "match" and c.args and isinstance(c.args[0], ast.Constant) and isinstance(c.args[0].value, str):
                    tmpls.add(c.args[0].value)
        for tmpl in sorted(tmpls):
            pairs.append((tmpl, kw))
    want_placeholder = {"p2pkh": ("PUBKEYHASH", "hash160"), "p2sh": ("PUBKEYHASH", "hash160"), "p2pk": ("PUBKEY", "sec"), "p2pkh_wit": ("SEGWIT", "hash160"), "p2sh_wit": ("SEGWIT", "hash256"), "p2tr": ("SYNTHETIC_KEY", "synthetic_key")}
    seen = set()
    for tmpl, kw in pairs:
        typ = kw.get("type", "").strip("'")
        if typ not in tp:
            continue
        seen.add(typ)
        btmpl, fields = tp[typ]
        ph, field = want_placeholder[typ]
        canon = re.sub(r"'%s'" % ph, "%s", tmpl)
        ctx.check(canon == btmpl and fields == [field] and field in kw, "template:%s" % typ, ctx.where(f),
                  "script type %s is recognised by template `%s` but built from `%s` (field %s): a script reported as %s would not be rebuilt byte for byte" % (typ, tmpl, btmpl, fields, typ),
                  sample={"type": typ, "matcher": tmpl, "builder": btmpl})
    ctx.check(seen == set(want_placeholder), "template-coverage", ctx.where(f), "info_for_script does not cover %s" % sorted(set(want_placeholder) - seen))
    hash_text_compiles_as_data(ctx, tp)
    ms = tp.get("multisig")
    ctx.check(ms is not None and ms[0] == "%d %s %d OP_CHECKMULTISIG", "multisig-builder", CAPI + ":1", "multisig scripts are not built as m <keys> n OP_CHECKMULTISIG")
    _refcheck(ctx, AAPI, "AddressAPI.for_script_info", "aapi_for_script_info", "address-route")
    for nm in ("for_p2pkh", "for_p2sh", "for_p2pkh_wit", "for_p2sh_wit", "for_p2tr"):
        _refcheck(ctx, AAPI, "AddressAPI." + nm, "aapi_" + nm, "address-encoder:%s" % nm)


# ------------------------------------------------------------------ C08.4
STANDARD_TYPES = ("p2pkh", "p2sh", "p2pkh_wit", "p2sh_wit", "p2tr", "p2pk")


def classified_through_matcher(ctx):
    """a script is reported as one of the template kinds only on a path on which the template matcher accepted it: the matcher is
    the one place that walks the script instruction by instruction (exact length, the push opcode, minimal pushes), so a second
    recogniser next to it (a byte-layout fast path) is a second definition of `standard script` that for_info does not share"""
    f = ctx.func(CAPI, "ContractAPI.info_for_script")
    w = sym.walk(ctx, f)
    n = 0
    for e in w.exits:
        if e.kind != "return" or e.value is None:
            continue
        v = e.value
        t = None
        if isinstance(v, ast.Dict):
            for k, x in zip(v.keys, v.values):
                if isinstance(k, ast.Constant) and k.value == "type" and isinstance(x, ast.Constant):
                    t = x.value
        elif isinstance(v, ast.Call) and norm(v.func) == "dict":
            for k in v.keywords:
                if k.arg == "type" and isinstance(k.value, ast.Constant):
                    t = k.value.value
        if t not in STANDARD_TYPES:
            continue
        n += 1
        ops = [o for o in (gi.f_opaques(e.cond) if e.cond not in (True, False) else []) if isinstance(o, str)]
        ms = [o for o in ops if o.startswith("truthy(self.match(")]
        ms_none = [o for o in ops if o.startswith("self.match(") and o.endswith(" is None")]        # `if d is not None:` for `if d:`
        ok = any(sym.entails(e.cond, ("op", o)) for o in ms) or any(sym.entails(e.cond, ("not", ("op", o))) for o in ms_none)
        ctx.check(ok, "classified-through-matcher:%s" % t, ctx.where(f, e.node), "info_for_script reports a script as `%s` on a path on which the template matcher has not accepted it (tests: %s): a recogniser of its own beside the matcher; scripts that only look like the template by length or outline are classified as standard and for_info rebuilds a different script"
                  % (t, [o[:50] for o in ops if not o.startswith("truthy(self.match(")][:3]), sample={"type": t, "matcher_test": (ms or [""])[0][:80]})
    if n == 0:
        ctx.undecided("classified-through-matcher", ctx.where(f), "info_for_script returns no literal {'type': <standard kind>} this rule can read")


def match_consumes_the_script(ctx):
    """the matcher accepts only a script it has walked to its END: the accepting exit is reached under a test that compares a
    position in the script with len(script) (a script that merely BEGINS with a standard template is not that kind)"""
    f = ctx.func(CAPI, "ContractAPI.match")
    sp = f.params()[2] if len(f.params()) > 2 else "script"
    w = sym.walk(ctx, f)
    acc = [e for e in w.exits if e.kind == "return" and e.value is not None and not (isinstance(e.value, ast.Constant) and e.value.value in (None, False))]
    if not acc:
        ctx.undecided("match-consumes-script", ctx.where(f), "ContractAPI.match has no accepting return this rule can read")
    for e in acc:
        ops = [o for o in (gi.f_opaques(e.cond) if e.cond not in (True, False) else []) if isinstance(o, str)]
        ends = [o for o in ops if ("len(%s)" % sp) in o and " == " in o]
        if ends and any(sym.entails(e.cond, ("op", o)) for o in ends):
            ctx.ok("match-consumes-script", sample={"accepting_exit_requires": ends[0][:60]})
        elif not any(("len(%s)" % sp) in o for o in ops):
            ctx.bad("match-consumes-script", ctx.where(f, e.node), "ContractAPI.match accepts on a path that never compares its position with len(%s): a script that begins with a standard template and carries trailing bytes is classified as that kind, and for_info rebuilds a shorter script" % sp)
        else:
            ctx.undecided("match-consumes-script", ctx.where(f, e.node), "ContractAPI.match accepts under `%s`; this rule reads `position == len(script)`" % [o[:50] for o in ops if ("len(%s)" % sp) in o][:2])


def _exactly(ctx_formula, n, others=(20, 33, 65)):
    """does the path condition pin a length to n: some atom it entails mentions n and none of the other widths"""
    if ctx_formula in (True, False):
        return False
    for o in gi.f_opaques(ctx_formula):
        if isinstance(o, str) and "len(" in o and re.search(r"(?<![\w.])%d(?![\w.])" % n, o) and not any(re.search(r"(?<![\w.])%d(?![\w.])" % k, o) for k in others):
            if sym.entails(ctx_formula, ("op", o)):
                return True
    return False


def p2tr_key_is_32_bytes(ctx):
    """a script is reported as p2tr only for a 32-byte program: the width is enforced where the SYNTHETIC_KEY placeholder is bound
    (ContractAPI.match) or where the kind is reported (info_for_script) -- one of the two sites at least; `OP_1 <20 bytes>` reported
    as p2tr gets an address the network's own parser (which demands 32 bytes) refuses"""
    m = ctx.func(CAPI, "ContractAPI.match")
    wm = sym.walk(ctx, m)
    binds = [e for e in wm.effects if e.kind == "call" and e.call.args and "'SYNTHETIC_KEY'" in norm(e.raw.func) and norm(e.raw.func).endswith(".append")]
    f = ctx.func(CAPI, "ContractAPI.info_for_script")
    wf = sym.walk(ctx, f)
    reports = [e for e in wf.exits if e.kind == "return" and e.value is not None and "'p2tr'" in norm(e.value)]
    if not binds or not reports:
        ctx.undecided("p2tr-key-is-32-bytes", ctx.where(f), "the SYNTHETIC_KEY binding in match (%d found) / the p2tr report in info_for_script (%d found) are not in a form this clause reads" % (len(binds), len(reports)))
        return
    at_match = all(_exactly(e.reach, 32) for e in binds)
    at_report = all(_exactly(e.cond, 32) for e in reports)
    ctx.check(at_match or at_report, "p2tr-key-is-32-bytes", ctx.where(f, reports[0].node),
              "neither ContractAPI.match (where the SYNTHETIC_KEY placeholder is bound) nor info_for_script (where p2tr is reported) pins the program to 32 bytes: `OP_1 <20 bytes>` is reported as p2tr, and its address is one the parser refuses",
              sample={"enforced_in_match": at_match, "enforced_in_info_for_script": at_report})


def c08_4(ctx):
    classified_through_matcher(ctx)
    match_consumes_the_script(ctx)
    p2tr_key_is_32_bytes(ctx)
    capi = ctx.p.cls(CAPI, "ContractAPI")
    f = capi.methods.get("_is_nonminimal_push")
    if f is None:
        # the predicate is gone: either it was inlined (its callers then compare the opcode with what the encoder would choose)
        # or the test itself is gone
        callers = [ctx.func(CAPI, "ContractAPI.match"), ctx.func(CAPI, "ContractAPI._info_from_multisig_script")]
        tested = []
        for cf in callers:
            sd = df.single_defs(cf.node)
            cmps = [c for c in ast.walk(cf.node) if isinstance(c, ast.Compare)]
            tested.append(any("compile_push_data(" in norm(df.expand(c, sd)) for c in cmps))
        if all(tested):
            ctx.undecided("minimal-push-definition", "%s:%d" % (CAPI, capi.node.lineno), "ContractAPI._is_nonminimal_push of the reviewed tree is gone; its callers test the encoder's choice themselves (inlined): the classifier comparison below reads them")
        else:
            ctx.bad("minimal-push-definition", "%s:%d" % (CAPI, capi.node.lineno), "ContractAPI has no minimal-push test tied to the push encoder (compile_push_data), neither as a predicate nor inside match / _info_from_multisig_script: classification cannot be faithful to for_info's rebuild")
    else:
        op, data = f.params()[1:3]
        w = sym.walk(ctx, f)
        rets = [e for e in w.exits if e.kind == "return" and e.value is not None]
        ok = False
        t = None
        if len(rets) == 1:
            fm = w.atomize(rets[0].value, True)
            t = repr(fm)
            enc = "self._script_tools.scriptStreamer.compile_push_data(%s)" % data
            want = ("not", ("op", "%s == %s" % tuple(sorted(["%s[0]" % enc, op]))))
            alt = ("not", ("op", "%s == %s" % tuple(sorted(["%s[:1]" % enc, "bytes([%s])" % op]))))
            ok = repr(fm) in (repr(want), repr(alt))
        ctx.check(ok, "minimal-push-definition", ctx.where(f),
                  "_is_nonminimal_push is `%s`; a push is minimal exactly when its opcode is the one the encoder (compile_push_data) would choose for that data, because for_info rebuilds scripts with the encoder" % t,
                  sample={"definition": t})
    ints = lambda t: t in ("l1", "pc1", "pc2", "pc", "m", "n", "opcode", "size", "OP_1", "OP_16") or t.startswith(("len(", "script_tools.int_for_opcode(", "self._script_tools.int_for_opcode(")) or t.endswith(")[0]") or t.endswith(")[2]")
    _refcheck(ctx, CAPI, "ContractAPI.match", "capi_match", "classifier", ints)
    _refcheck(ctx, CAPI, "ContractAPI._info_from_multisig_script", "capi_multisig", "multisig-classifier", ints)


# ------------------------------------------------------------------ C08.5
def c08_5(ctx):
    _refcheck(ctx, KEY, "Key.address", "key_address", "key-address")
    _refcheck(ctx, KEY, "Key.hash160", "key_hash160", "key-hash160")
    _refcheck(ctx, "pycoin/key/BIP49Node.py", "BIP49Node.address", "bip49_address", "bip49-address")
    _refcheck(ctx, "pycoin/key/BIP84Node.py", "BIP84Node.address", "bip84_address", "bip84-address")
    _refcheck(ctx, CAPI, "ContractAPI.for_p2s", "capi_for_p2s", "p2s-script")
    _refcheck(ctx, AAPI, "AddressAPI.for_p2s", "aapi_for_p2s", "p2s-address")


OBLIGATIONS = [
    Ob("C08.1", "all symbol configurations: hex literals, P2PKH != P2SH prefix, extended-key prefixes, HRPs", c08_1, floor=150, engines="TB", exhaustive=True, breaks_if="a network whose two address prefixes collide"),
    Ob("C08.2", "payload = the 20 bytes after the matched prefix; HRP equality, program length, version, checksum variant; address kinds; no network-dependent verdict cached on the shared string", c08_2, floor=14, engines="SYM,GI", breaks_if="MZC / PIVX (prefixes of different length); bc vs bcrt"),
    Ob("C08.3", "builder templates equal matcher templates; type -> address routing and encoders equal the reference", c08_3, floor=12, engines="SIB,CE,SYM"),
    Ob("C08.4", "minimal push = the encoder's opcode; template matcher and multisig classifier equal the reference transcription", c08_4, floor=3, engines="SYM", breaks_if="76..120-byte keys pushed with PUSHDATA2/4"),
    Ob("C08.5", "key -> address routing (P2PKH, BIP49, BIP84), hash160 memo per compression form", c08_5, floor=6, engines="SYM"),
]
