#!/bin/bash
# crossrun2.sh [suffix-regex]: every refactoring twin against every property check that can see it -- the checks whose anchor files
# (or the anchor files of a property they borrow obligations from, rules/shared.py) include a file the twin touches.
cd /verif
RE=${1:-.}
PLAN=$(mktemp /tmp/vxplan-XXXXXX)
python3 - > $PLAN <<'PY'
import json, os, re, glob, sys
sys.path.insert(0, "/verif")
from rules import shared
anch = {}
for l in open("/verif/properties.jsonl"):
    d = json.loads(l); anch[d["id"]] = set(f for f in d["anchors"]["files"] if f.endswith(".py"))
sees = {}
for pid, files in anch.items():
    s = set(files)
    for dep in shared.DEPENDS.get(pid, ()):
        s |= anch[dep.split(".")[0]]
    sees[pid] = s
for d in sorted(glob.glob("/verif/seeded/*-r*")):
    if not os.path.exists(d + "/patch.diff") or "revert" in d:
        continue
    touched = set(re.findall(r"^\+\+\+ b/(\S+)", open(d + "/patch.diff").read(), re.M))
    pids = [p for p in sorted(sees) if sees[p] & touched]
    print(os.path.basename(d), " ".join(pids))
PY
one() {
  name=$1; shift
  td=$(mktemp -d /tmp/vx-XXXXXX); cp -r /repo/pycoin $td/pycoin
  (cd $td && patch -p1 -s --no-backup-if-mismatch -i /verif/seeded/$name/patch.diff >/dev/null 2>&1) || { echo "$name: patch failed"; rm -rf $td; return; }
  res=""
  for pid in "$@"; do
    out=$(VERIF_REPO=$td ./check $pid --no-evidence 2>&1); code=$?
    if [ $code -eq 1 ]; then res="$res $pid[$(echo "$out" | grep -E '^VIOLATED' | awk '{print $2}' | sort -u | tr '\n' ',')]"; fi
    if [ $code -eq 2 ]; then res="$res $pid[analysis-error]"; fi
  done
  rm -rf $td
  if [ -n "$res" ]; then echo "$name: ALARM$res"; else echo "$name: silent under $*"; fi
}
while read name pids; do
  k=${name#*-}
  [[ $k =~ $RE ]] || continue
  one $name $pids &
  while [ $(jobs -r | wc -l) -ge ${JOBS:-14} ]; do sleep 0.2; done
done < $PLAN
wait
rm -f $PLAN
