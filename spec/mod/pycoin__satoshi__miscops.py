"""Transcription of every function of pycoin/satoshi/miscops.py as of the reviewed tree (see DESIGN.md section 12).
NEVER IMPORTED OR EXECUTED: parsed and compared in canonical form (sa/sym.py) with the functions in /repo."""


_CONSTS = {
    'SEQUENCE_LOCKTIME_DISABLE_FLAG': 2147483648,
    'SEQUENCE_LOCKTIME_TYPE_FLAG': 4194304,
    'VERIFY_CHECKLOCKTIMEVERIFY': 512,
    'VERIFY_CHECKSEQUENCEVERIFY': 1024,
    'VERIFY_DISCOURAGE_UPGRADABLE_NOPS': 128,
    'VERIFY_MINIMALIF': 8192,
    'errno.BAD_OPCODE': 15,
    'errno.DISABLED_OPCODE': 16,
    'errno.DISCOURAGE_UPGRADABLE_NOPS': 32,
    'errno.INVALID_ALTSTACK_OPERATION': 18,
    'errno.INVALID_STACK_OPERATION': 17,
    'errno.MINIMALIF': 30,
    'errno.NEGATIVE_LOCKTIME': 20,
    'errno.UNBALANCED_CONDITIONAL': 19,
    'errno.UNSATISFIED_LOCKTIME': 21,
}


# pycoin/satoshi/miscops.py :: make_bad_opcode
def q__make_bad_opcode(opcode, even_outside_conditional=False, err=errno.BAD_OPCODE):

    def bad_opcode(vm):
        raise ScriptError()
    setattr(bad_opcode, 'outside_conditional', even_outside_conditional)
    return bad_opcode


# pycoin/satoshi/miscops.py :: make_bad_opcode.bad_opcode
def q__make_bad_opcode__bad_opcode(vm):
    raise ScriptError()


# pycoin/satoshi/miscops.py :: do_OP_CODESEPARATOR
def q__do_OP_CODESEPARATOR(vm):
    vm.begin_code_hash = vm.pc


# pycoin/satoshi/miscops.py :: do_OP_TOALTSTACK
def q__do_OP_TOALTSTACK(vm):
    vm.altstack.append(vm.pop())


# pycoin/satoshi/miscops.py :: do_OP_RESERVED
def q__do_OP_RESERVED(vm):
    if vm.conditional_stack.all_if_true():
        raise ScriptError()
    vm.op_count -= 1


# pycoin/satoshi/miscops.py :: do_OP_FROMALTSTACK
def q__do_OP_FROMALTSTACK(vm):
    if len(vm.altstack) < 1:
        raise ScriptError()
    vm.append(vm.altstack.pop())


# pycoin/satoshi/miscops.py :: discourage_nops
def q__discourage_nops(vm):
    if vm.flags & VERIFY_DISCOURAGE_UPGRADABLE_NOPS:
        raise ScriptError()


# pycoin/satoshi/miscops.py :: make_if
def q__make_if(reverse_bool=False):

    def f(vm):
        stack = vm.stack
        conditional_stack = vm.conditional_stack
        the_bool = False
        if conditional_stack.all_if_true():
            if len(stack) < 1:
                raise ScriptError()
            item = vm.pop()
            if vm.flags & VERIFY_MINIMALIF:
                if item not in (vm.VM_FALSE, vm.VM_TRUE):
                    raise ScriptError()
            the_bool = vm.bool_from_script_bytes(item)
        vm.conditional_stack.OP_IF(the_bool, reverse_bool=reverse_bool)
    setattr(f, 'outside_conditional', True)
    return f


# pycoin/satoshi/miscops.py :: make_if.f
def q__make_if__f(vm):
    stack = vm.stack
    conditional_stack = vm.conditional_stack
    the_bool = False
    if conditional_stack.all_if_true():
        if len(stack) < 1:
            raise ScriptError()
        item = vm.pop()
        if vm.flags & VERIFY_MINIMALIF:
            if item not in (vm.VM_FALSE, vm.VM_TRUE):
                raise ScriptError()
        the_bool = vm.bool_from_script_bytes(item)
    vm.conditional_stack.OP_IF(the_bool, reverse_bool=reverse_bool)


# pycoin/satoshi/miscops.py :: do_OP_ELSE
def q__do_OP_ELSE(vm):
    vm.conditional_stack.OP_ELSE()


# pycoin/satoshi/miscops.py :: do_OP_ENDIF
def q__do_OP_ENDIF(vm):
    vm.conditional_stack.OP_ENDIF()


# pycoin/satoshi/miscops.py :: do_OP_CHECKLOCKTIMEVERIFY
def q__do_OP_CHECKLOCKTIMEVERIFY(vm):
    if not vm.flags & VERIFY_CHECKLOCKTIMEVERIFY:
        if vm.flags & VERIFY_DISCOURAGE_UPGRADABLE_NOPS:
            raise ScriptError()
        return
    if vm.tx_context.sequence == 4294967295:
        raise ScriptError()
    if len(vm.stack) < 1:
        raise ScriptError()
    if len(vm.stack[-1]) > 5:
        raise ScriptError()
    top = vm.stack[-1]
    max_lock_time = vm.pop_int()
    vm.append(top)
    if max_lock_time < 0:
        raise ScriptError()
    era_max = max_lock_time >= 500000000
    era_lock_time = vm.tx_context.lock_time >= 500000000
    if era_max != era_lock_time:
        raise ScriptError()
    if max_lock_time > vm.tx_context.lock_time:
        raise ScriptError()


# pycoin/satoshi/miscops.py :: _check_sequence_verify
def q___check_sequence_verify(sequence, tx_context_sequence):
    SEQUENCE_LOCKTIME_MASK = 65535
    mask = SEQUENCE_LOCKTIME_TYPE_FLAG | SEQUENCE_LOCKTIME_MASK
    sequence_masked = sequence & mask
    tx_sequence_masked = tx_context_sequence & mask
    if not (tx_sequence_masked < SEQUENCE_LOCKTIME_TYPE_FLAG and sequence_masked < SEQUENCE_LOCKTIME_TYPE_FLAG or (tx_sequence_masked >= SEQUENCE_LOCKTIME_TYPE_FLAG and sequence_masked >= SEQUENCE_LOCKTIME_TYPE_FLAG)):
        raise ScriptError()
    if sequence_masked > tx_sequence_masked:
        raise ScriptError()


# pycoin/satoshi/miscops.py :: do_OP_CHECKSEQUENCEVERIFY
def q__do_OP_CHECKSEQUENCEVERIFY(vm):
    if not vm.flags & VERIFY_CHECKSEQUENCEVERIFY:
        if vm.flags & VERIFY_DISCOURAGE_UPGRADABLE_NOPS:
            raise ScriptError()
        return
    if len(vm.stack) < 1:
        raise ScriptError()
    if len(vm.stack[-1]) > 5:
        raise ScriptError()
    top = vm.stack[-1]
    sequence = vm.pop_int()
    vm.append(top)
    if sequence < 0:
        raise ScriptError()
    if sequence & SEQUENCE_LOCKTIME_DISABLE_FLAG:
        return
    if vm.tx_context.version < 2:
        raise ScriptError()
    if vm.tx_context.sequence & SEQUENCE_LOCKTIME_DISABLE_FLAG:
        raise ScriptError()
    _check_sequence_verify(sequence, vm.tx_context.sequence)


# pycoin/satoshi/miscops.py :: extra_opcodes
def q__extra_opcodes():
    d = {}
    BAD_OPCODES = 'OP_VERIF OP_VERNOTIF '.split()
    for opcode in BAD_OPCODES:
        d[opcode] = make_bad_opcode(opcode, even_outside_conditional=True)
    DISABLED_OPCODES = 'OP_CAT OP_SUBSTR OP_LEFT OP_RIGHT OP_INVERT OP_AND OP_OR OP_XOR OP_2MUL OP_2DIV OP_MUL OP_DIV OP_MOD OP_LSHIFT OP_RSHIFT'.split()
    for opcode in DISABLED_OPCODES:
        d[opcode] = make_bad_opcode(opcode, even_outside_conditional=True, err=errno.DISABLED_OPCODE)
    BAD_OPCODES_OUTSIDE_IF = 'OP_NULLDATA OP_PUBKEYHASH OP_PUBKEY OP_INVALIDOPCODE'.split()
    for opcode in BAD_OPCODES_OUTSIDE_IF:
        d[opcode] = make_bad_opcode(opcode, even_outside_conditional=False)
    NOP_SET = 'OP_NOP1 OP_NOP3 OP_NOP4 OP_NOP5 OP_NOP6 OP_NOP7 OP_NOP8 OP_NOP9 OP_NOP10'.split()
    for opcode in NOP_SET:
        d[opcode] = discourage_nops
    d['OP_IF'] = make_if()
    d['OP_NOTIF'] = make_if(reverse_bool=True)
    for i in (1, 2, 4):
        d['OP_PUSHDATA%d' % i] = lambda s: 0
    for v in range(0, 128):
        d['OP_%d' % v] = lambda s: 0
    return d
