"""Objects made at import time that nothing changed afterwards on the reviewed tree stay unchanged.

A module-level object (a registry, a streamer, a table: the value of a module-level assignment that is a call, a display or a
comprehension) is shared by every network, every caller and every call.  The reviewed tree's inventory (spec/mod/GLOBALS.json,
tools/mkglobals.py) lists which of them some function changes in place after import.  A function that now changes one of the
others -- through its name, through an imported name, or through a local alias of it -- makes state out of a constant: what one
caller registers, every other caller finds.  New module-level objects (a memo table added later) are not judged here."""
from __future__ import annotations

import ast
import json
import os

from .pm import AnalysisError

HERE = os.path.dirname(os.path.dirname(os.path.abspath(__file__)))
MUTATORS = {"append", "extend", "insert", "pop", "remove", "sort", "reverse", "clear", "update", "setdefault", "popitem", "add", "discard",
            "write", "appendleft", "popleft", "__setitem__", "__delitem__", "__setattr__"}


def _is_object_expr(v):
    if isinstance(v, (ast.Dict, ast.List, ast.Set, ast.ListComp, ast.DictComp, ast.SetComp)):
        return True
    if isinstance(v, ast.Call):
        t = ast.unparse(v.func)
        return t not in ("len", "int", "str", "bytes", "tuple", "frozenset", "float", "bool", "TypeVar", "namedtuple", "re.compile", "struct.Struct",
                         "os.getenv", "os.environ.get", "getattr", "max", "min", "sum", "h2b", "b2h", "range")
    return False


def module_objects(m):
    """names bound at module level to an object made at import time"""
    out = set()
    for name, vals in m.assigns.items():
        if any(_is_object_expr(v) for v in vals):
            out.add(name)
    return out


def mutating_methods(program):
    """method names of repo classes whose body (outside __init__ / __new__) stores to an attribute or item of self or changes one
    of self's containers in place: calling one changes the receiver"""
    key = "_mutating_methods"
    got = getattr(program, key, None)
    if got is not None:
        return got
    out = set()
    for q, f in program.functions.items():
        if f.cls is None or not isinstance(f.node, (ast.FunctionDef, ast.AsyncFunctionDef)) or f.node.name in ("__init__", "__new__"):
            continue
        a = f.node.args.args
        if not a:
            continue
        me = a[0].arg
        for n in ast.walk(f.node):
            base = None
            if isinstance(n, (ast.Attribute, ast.Subscript)) and isinstance(n.ctx, (ast.Store, ast.Del)):
                base = n.value
            elif isinstance(n, ast.Call) and isinstance(n.func, ast.Attribute) and n.func.attr in MUTATORS:
                base = n.func.value
            while isinstance(base, (ast.Attribute, ast.Subscript)):
                base = base.value
            if isinstance(base, ast.Name) and base.id == me:
                out.add(f.node.name)
                break
    setattr(program, key, out)
    return out


def _locals_of(fn):
    own = {a.arg for a in fn.args.args + fn.args.posonlyargs + fn.args.kwonlyargs}
    if fn.args.vararg:
        own.add(fn.args.vararg.arg)
    if fn.args.kwarg:
        own.add(fn.args.kwarg.arg)
    glob = {n for x in ast.walk(fn) if isinstance(x, ast.Global) for n in x.names}
    for x in ast.walk(fn):
        if isinstance(x, ast.Name) and isinstance(x.ctx, (ast.Store, ast.Del)) and x.id not in glob:
            own.add(x.id)
        elif isinstance(x, (ast.FunctionDef, ast.AsyncFunctionDef, ast.ClassDef)) and x is not fn:
            own.add(x.name)
    return own


def _global_target(program, m, name):
    """(module name, object name) a module-level name of m stands for, following `from x import NAME`"""
    seen = 0
    while seen < 6:
        seen += 1
        if name in m.assigns and name in module_objects(m):
            return (m.name, name)
        imp = m.imports.get(name)
        if imp and imp[0] == "name":
            try:
                m2 = program.modules.get(imp[1]) if hasattr(program, "modules") else None
            except Exception:
                m2 = None
            if m2 is None:
                return None
            m, name = m2, imp[2]
            continue
        return None
    return None


def function_writes(program, f):
    """[(node, (module, name), how)] in-place changes of module-level objects made by one function"""
    fn = f.node
    if not isinstance(fn, (ast.FunctionDef, ast.AsyncFunctionDef)):
        return []
    own = _locals_of(fn)
    p = f.parent
    while p is not None:                                  # names of enclosing functions are not module-level either
        if isinstance(p.node, (ast.FunctionDef, ast.AsyncFunctionDef)):
            own |= _locals_of(p.node)
        p = p.parent
    m = f.module
    alias = {}
    for st in ast.walk(fn):                               # local aliases: x = GLOBAL  /  x = GLOBAL if c else ..
        if isinstance(st, ast.Assign) and len(st.targets) == 1 and isinstance(st.targets[0], ast.Name):
            cands = [st.value] + ([st.value.body, st.value.orelse] if isinstance(st.value, ast.IfExp) else [])
            for v in cands:
                if isinstance(v, ast.Name) and v.id not in own:
                    t = _global_target(program, m, v.id)
                    if t is not None:
                        alias[st.targets[0].id] = t
    mm = mutating_methods(program)
    out = []

    def target_of(base):
        while isinstance(base, (ast.Subscript,)):
            base = base.value
        if isinstance(base, ast.Name):
            if base.id in alias:
                return alias[base.id]
            if base.id not in own:
                return _global_target(program, m, base.id)
        return None
    for n in ast.walk(fn):
        if isinstance(n, (ast.Attribute, ast.Subscript)) and isinstance(n.ctx, (ast.Store, ast.Del)):
            t = target_of(n.value)
            if t is not None:
                out.append((n, t, "store `%s`" % ast.unparse(n)[:50]))
        elif isinstance(n, ast.Call) and isinstance(n.func, ast.Attribute) and (n.func.attr in MUTATORS or n.func.attr in mm):
            t = target_of(n.func.value)
            if t is not None:
                out.append((n, t, "call `%s`" % ast.unparse(n)[:60]))
    return out


def inventory(program):
    objs, writes = {}, []
    for name, m in sorted(program.modules.items()):
        o = sorted(module_objects(m))
        if o:
            objs[name] = o
    for q, f in sorted(program.functions.items()):
        for _n, t, _how in function_writes(program, f):
            writes.append([q, "%s.%s" % t])
    return {"objects": objs, "writes": sorted(set(map(tuple, writes)))}


_INV = None


def reviewed():
    global _INV
    if _INV is None:
        path = os.path.join(HERE, "spec", "mod", "GLOBALS.json")
        if not os.path.exists(path):
            raise AnalysisError("spec/mod/GLOBALS.json is missing (tools/mkglobals.py)")
        d = json.load(open(path))
        _INV = ({(m, n) for m, ns in d["objects"].items() for n in ns}, {tuple(w) for w in d["writes"]}, {w[1] for w in d["writes"]})
    return _INV


def check(ctx, rels):
    objs, writes, written = reviewed()
    n = 0
    for rel in rels:
        try:
            m = ctx.p.module(rel)
        except AnalysisError:
            continue
        for q, f in sorted(ctx.p.functions.items()):
            if f.module is not m:
                continue
            for node, t, how in function_writes(ctx.p, f):
                n += 1
                full = "%s.%s" % t
                if t not in objs:
                    continue                      # an object added since the review: not judged here
                if (q, full) in writes or full in written:
                    continue                      # the reviewed tree changes this object after import as well
                ctx.bad("frozen-object-changed:%s" % full, "%s:%d" % (rel, getattr(node, "lineno", f.node.lineno)),
                        "%s changes the module-level object %s in place (%s); on the reviewed tree nothing changes it after import, so every network, caller and call shares one constant object -- now what one call puts there, every other user finds"
                        % (q, full, how))
    ctx.ok("frozen-objects", sample={"rule": "module-level objects unchanged after import on the reviewed tree stay unchanged", "sites_looked_at": n,
                                     "reviewed_objects": len(objs), "reviewed_runtime_writes": len(writes)}, nontrivial=False)
