"""Transcription of every function of pycoin/satoshi/IntStreamer.py as of the reviewed tree (see DESIGN.md section 12).
NEVER IMPORTED OR EXECUTED: parsed and compared in canonical form (sa/sym.py) with the functions in /repo."""


_CONSTS = {
    'errno.UNKNOWN_ERROR': 1,
}


# pycoin/satoshi/IntStreamer.py :: IntStreamer.int_from_script_bytes
def q__IntStreamer__int_from_script_bytes(class_, s, require_minimal=False):
    if len(s) == 0:
        return 0
    ba = bytearray(s)
    ba.reverse()
    i = ba[0]
    v = i & 127
    if require_minimal:
        if v == 0:
            if len(ba) <= 1 or ba[1] & 128 == 0:
                raise ScriptError()
    is_negative = i & 128 > 0
    for b in ba[1:]:
        v <<= 8
        v += b
    if is_negative:
        v = -v
    return v


# pycoin/satoshi/IntStreamer.py :: IntStreamer.int_to_script_bytes
def q__IntStreamer__int_to_script_bytes(class_, v):
    if v == 0:
        return b''
    is_negative = v < 0
    if is_negative:
        v = -v
    ba = bytearray()
    while v >= 256:
        ba.append(v & 255)
        v >>= 8
    ba.append(v & 255)
    if ba[-1] >= 128:
        ba.append(128 if is_negative else 0)
    elif is_negative:
        ba[-1] |= 128
    return bytes(ba)
