"""C01 - ECDSA sign / verify / recover: structural obligations (DESIGN.md section 4, C01)."""
from __future__ import annotations

import ast

from sa.core import Ob
from sa.pm import AnalysisError, norm, body_nodes
from sa import gi, df, ru
from sa.gi import IntSet, iv, GuardWalker, SymbolicAtomizer, reach_sets

GEN = "pycoin/ecdsa/Generator.py"
RFC = "pycoin/ecdsa/rfc6979.py"
KEY = "pycoin/key/Key.py"
U, E = IntSet.all(), IntSet.empty()
ORDER_TEXTS = {"self._order", "self.order()"}


def _is_const_false(e):
    return isinstance(e, ast.Constant) and e.value is False


def mul_factors(e):
    """flatten a product into the list of its factors"""
    if isinstance(e, ast.BinOp) and isinstance(e.op, ast.Mult):
        return mul_factors(e.left) + mul_factors(e.right)
    return [e]


def infinity_test(test, var):
    """formula recognising `var is the point at infinity` tests, else None"""
    t = norm(test)
    pos = {"%s == self._infinity" % var, "self._infinity == %s" % var, "%s == self.infinity()" % var,
           "%s[0] is None" % var, "%s[1] is None" % var, "%s is self._infinity" % var, "%s == infinity" % var,
           "%s == self._curve.infinity()" % var, "%s[0] == None" % var}
    neg = {"%s != self._infinity" % var, "%s[0] is not None" % var, "%s[1] is not None" % var, "%s != self.infinity()" % var}
    if t in pos:
        return ("op", "INF:" + var)
    if t in neg:
        return ("not", ("op", "INF:" + var))
    return None


def inf_atomizer(var):
    def at(t):
        if isinstance(t, ast.BoolOp):
            parts = [at(v) for v in t.values]
            return gi.f_and(*parts) if isinstance(t.op, ast.And) else gi.f_or(*parts)
        if isinstance(t, ast.UnaryOp) and isinstance(t.op, ast.Not):
            return gi.f_not(at(t.operand))
        r = infinity_test(t, var)
        return r if r is not None else ("op", norm(t))
    return at


def can_be(formula, opname):
    """is `formula` satisfiable with the opaque atom opname true?"""
    ops = gi.f_opaques(formula)
    import itertools
    dom = gi.FinSet({0}, frozenset({0}))
    emp = gi.FinSet((), frozenset({0}))
    for bits in itertools.product((False, True), repeat=len(ops)):
        a = dict(zip(ops, bits))
        if opname in a and not a[opname]:
            continue
        if not gi.f_eval(formula, a, dom, emp).is_empty():
            return True
    return False


def coordinate_uses(func_node, var):
    """statements that use var[0] / var[1] in arithmetic (%, +, -, *, &, comparison with ints)"""
    out = []
    for n in body_nodes(func_node):
        if isinstance(n, ast.stmt) and not isinstance(n, (ast.If, ast.For, ast.While, ast.Try, ast.With)):
            for s in ast.walk(n):
                if isinstance(s, (ast.BinOp, ast.Compare)):
                    ops = [s.left, s.right] if isinstance(s, ast.BinOp) else [s.left] + s.comparators
                    for o in ops:
                        if isinstance(o, ast.Subscript) and isinstance(o.value, ast.Name) and o.value.id == var and \
                                not (isinstance(s, ast.Compare) and any(isinstance(c, ast.Constant) and c.value is None for c in s.comparators)):
                            out.append(n)
    return list({id(x): x for x in out}.values())


# ------------------------------------------------------------------ C01.1
def c01_1(ctx):
    f = ctx.func(GEN, "Generator.verify")
    defs = df.single_defs(f.node)
    params = f.params()
    if len(params) < 4:
        raise AnalysisError("Generator.verify: unexpected signature %s" % params)
    sigp, valp = params[3], params[2]
    # r, s = sig
    unp = [d for name in ("r", "s") for d in df.assignments(f.node).get(name, [])]
    comps = {}
    for name, ds in df.assignments(f.node).items():
        for v, st in ds:
            if isinstance(v, tuple) and v[0] == "unpack" and norm(v[1]) == sigp:
                comps[v[2]] = name
    if set(comps) != {0, 1}:
        raise AnalysisError("Generator.verify: cannot find the (r, s) components of %s" % sigp)
    rname, sname = comps[0], comps[1]
    const = ru.const_resolver(ctx, f, ORDER_TEXTS)
    accept = lambda e: e.kind == "return" and not _is_const_false(e.value)
    for subj, want, key in ((rname, iv(1, ("s", -1)), "r-range"), (sname, iv(1, ("s", -1)), "s-range"), (valp, iv(0, 0).complement(), "val-nonzero")):
        w = GuardWalker(SymbolicAtomizer(ru.subject({subj}), const))
        exits = w.run(f.node.body)
        may, must = reach_sets(exits, accept, U, E)
        ctx.check(may == want, key, ctx.where(f),
                  "Generator.verify: values of %s for which the equation is evaluated are %s; the property requires exactly %s "
                  "(order = self._order, the group order)" % (subj, may.fmt("order"), want.fmt("order")),
                  sample={"function": f.qualname, "subject": subj, "may_accept": may.fmt("order"), "expected": want.fmt("order")})
    # the rejecting exits return the constant False (never raise, never None)
    w = GuardWalker(ru.opaque)
    exits = w.run(f.node.body)
    for e in exits:
        ctx.check(e.kind == "return" and e.value is not None, "verify-returns-bool:%s" % e.kind, ctx.where(f, e.node),
                  "Generator.verify has an exit that is not `return <bool>` (%s)" % e.kind, what="exit:%s:%s" % (e.kind, norm(e.value) if e.value is not None else ""))


# ------------------------------------------------------------------ C01.2
def c01_2(ctx):
    f = ctx.func(GEN, "Generator.verify")
    defs = df.single_defs(f.node)
    rets = [r for r in df.returns_of(f.node) if r.value is not None and not _is_const_false(r.value)]
    if len(rets) != 1:
        raise AnalysisError("Generator.verify: expected one accepting return, found %d" % len(rets))
    e = df.expand(rets[0].value, defs)
    if not (isinstance(e, ast.Compare) and len(e.ops) == 1 and isinstance(e.ops[0], ast.Eq)):
        raise AnalysisError("Generator.verify: accepting return is not an equality: %s" % norm(e))
    a, b = e.left, e.comparators[0]
    if norm(b) != "r" and norm(a) == "r":
        a, b = b, a
    ok_r = norm(b) == "r"
    ok_mod = isinstance(a, ast.BinOp) and isinstance(a.op, ast.Mod) and norm(a.right) in ORDER_TEXTS
    x = a.left if ok_mod else None
    ok_x = isinstance(x, ast.Subscript) and df.const_int(x.slice) == 0
    P = x.value if ok_x else None
    shape = ok_r and ok_mod and ok_x and isinstance(P, ast.BinOp) and isinstance(P.op, ast.Add)
    if not shape:
        ctx.bad("equation-shape", ctx.where(f, rets[0]),
                "Generator.verify: accepted iff `%s`; expected (u1*G + u2*Q)[0] %% order == r" % norm(e))
        return
    inv = "self.inverse(s)"
    pk = f.params()[1]
    want_g = sorted(["self", f.params()[2], inv])
    want_q = sorted(["self.Point(*%s)" % pk, "r", inv])
    got = [sorted(norm(t) for t in mul_factors(side)) for side in (P.left, P.right)]
    ok = sorted(got) == sorted([want_g, want_q])
    ctx.check(ok, "equation-terms", ctx.where(f, rets[0]),
              "Generator.verify: the point compared with r is %s; the property requires (val/s)*G + (r/s)*Q with 1/s = self.inverse(s)" % norm(P),
              sample={"accept_iff": norm(e)})
    # inverse is the inverse modulo the order
    inv_f = ctx.func(GEN, "Generator.inverse")
    r = df.returns_of(inv_f.node)
    ok = len(r) == 1 and isinstance(r[0].value, ast.Call) and df.last_attr(r[0].value) == "inverse_mod" and len(r[0].value.args) == 2 \
        and norm(r[0].value.args[0]) == inv_f.params()[1] and norm(r[0].value.args[1]) in ORDER_TEXTS
    ctx.check(ok, "inverse-mod-order", ctx.where(inv_f), "Generator.inverse is not inverse_mod(a, self._order)")


# ------------------------------------------------------------------ C01.3
def c01_3(ctx):
    for fname, var_from in (("Generator.verify", None), ("Generator.sign_with_recid", None)):
        f = ctx.func(GEN, fname)
        # point variables: locals assigned from an expression that multiplies/adds points (contains `* self` or `self *`)
        pts = []
        for name, ds in df.assignments(f.node).items():
            for v, st in ds:
                if isinstance(v, ast.AST) and any(isinstance(n, ast.BinOp) and isinstance(n.op, (ast.Mult, ast.Add)) and
                                                  ("self" in (norm(n.left), norm(n.right))) for n in ast.walk(v)):
                    pts.append(name)
        pts = sorted(set(pts))
        if not pts:
            raise AnalysisError("%s: no point-valued local found" % fname)
        for var in pts:
            uses = coordinate_uses(f.node, var)
            if not uses:
                continue
            w = GuardWalker(inf_atomizer(var))
            w.run(f.node.body)
            reach = {id(st): r for st, r in w.visits}
            for e in w.exits:
                if e.node is not None:
                    reach[id(e.node)] = e.cond
            for st in uses:
                r = reach.get(id(st))
                if r is None:
                    raise AnalysisError("%s: no reach formula for L%d" % (fname, st.lineno))
                guarded = not can_be(r, "INF:" + var)
                if not guarded and fname.endswith("sign_with_recid"):
                    guarded = _nonce_stays_in_range(ctx, f)
                ctx.check(guarded, "coordinate-before-infinity-test:%s:%s" % (f.name, var), ctx.where(f, st),
                          "%s: coordinate of %s is used in `%s` on a path where %s may be the point at infinity (TypeError instead of a verdict)"
                          % (fname, var, norm(st)[:80], var), what="%s:%s:L%s" % (f.name, var, norm(st)[:40]),
                          sample={"function": f.qualname, "point": var, "use": norm(st)[:100], "reach": repr(r)[:200]})


def _nonce_stays_in_range(ctx, f):
    """k comes from the nonce generator (documented range 1..n-1); every later change of k must be followed by a
    restoring guard comparing k with the order."""
    augs = [n for n in body_nodes(f.node) if isinstance(n, ast.AugAssign) and norm(n.target) == "k"]
    if not augs:
        return True
    defs = df.single_defs(f.node)
    from sa.cfg import stmt_paths
    paths = stmt_paths(f.node)
    for a in augs:
        p = paths[id(a)]
        owner, branch, idx = p[-1]
        # statements following in the same block
        block = None
        for n in ast.walk(f.node):
            if id(n) == owner:
                block = getattr(n, branch, None) if not branch.startswith("handler") else None
        if block is None:
            return False
        ok = False
        for st in block[idx + 1:]:
            if isinstance(st, ast.If) and "k" in df.names_in(st.test):
                t = df.expand(st.test, defs)
                if any(norm(c) in ORDER_TEXTS or norm(c) == "n" for c in ast.walk(t)):
                    ok = any(isinstance(b, ast.Assign) and norm(b.targets[0]) == "k" for b in st.body)
            if isinstance(st, ast.AugAssign) and norm(st.target) == "k" and isinstance(st.op, ast.Mod):
                ok = False  # k %= n can give 0
        if not ok:
            return False
    return True


# ------------------------------------------------------------------ C01.4
def c01_4(ctx):
    f = ctx.func(GEN, "Generator.sign_with_recid")
    params = f.params()
    defs = df.single_defs(f.node)
    # default binding
    ifs = [n for n in body_nodes(f.node) if isinstance(n, ast.If) and norm(n.test) == "gen_k is None"]
    bound = None
    for i in ifs:
        for st in i.body:
            if isinstance(st, ast.Assign) and norm(st.targets[0]) == "gen_k":
                bound = st.value
    tgt = ctx.p.resolve_expr_static(f.module, bound) if bound is not None else None
    rfc = ctx.func(RFC, "deterministic_generate_k")
    ctx.check(tgt is rfc, "default-nonce-generator", ctx.where(f),
              "sign_with_recid: when gen_k is None it is not bound to rfc6979.deterministic_generate_k (bound to %s)" % (norm(bound) if bound is not None else None))
    calls = [c for c in df.calls_in(f.node) if norm(c.func) == "gen_k"]
    if len(calls) != 1:
        raise AnalysisError("sign_with_recid: expected one call of gen_k, found %d" % len(calls))
    c = calls[0]
    args = [norm(df.expand(a, defs)) for a in c.args]
    kw = {k.arg: norm(df.expand(k.value, defs)) for k in c.keywords}
    rp = rfc.params()
    bind = dict(zip(rp, args))
    bind.update(kw)
    ok = bind.get(rp[0]) in ORDER_TEXTS and bind.get(rp[1]) == params[1] and bind.get(rp[2]) == params[2]
    ctx.check(ok, "nonce-arguments", ctx.where(f, c),
              "sign_with_recid: nonce generator called with %s; the property requires (order, secret_exponent, val) so that the nonce depends on key and hash" % bind,
              sample={"call": norm(c), "binding": bind})
    ctx.check(rp[:3] == ["generator_order", "secret_exponent", "val"], "rfc6979-signature", ctx.where(rfc),
              "deterministic_generate_k parameters are %s" % rp[:3])
    # Generator.sign forwards all three
    g = ctx.func(GEN, "Generator.sign")
    cs = [c for c in df.calls_in(g.node) if df.last_attr(c) == "sign_with_recid"]
    ok = len(cs) == 1 and [norm(a) for a in cs[0].args] == g.params()[1:4]
    ctx.check(ok, "sign-forwards", ctx.where(g), "Generator.sign does not forward (secret_exponent, val, gen_k) to sign_with_recid")


# ------------------------------------------------------------------ C01.5
def _hmac_calls(node_list):
    out = []
    for st in node_list:
        if isinstance(st, ast.Assign) and isinstance(st.value, ast.Call):
            c = st.value
            # hmac.new(key, msg, digestmod).digest()
            if isinstance(c.func, ast.Attribute) and c.func.attr == "digest" and isinstance(c.func.value, ast.Call) \
                    and norm(c.func.value.func) in ("hmac.new", "hmac.HMAC"):
                h = c.func.value
                a = {"key": None, "msg": None, "digestmod": None}
                for name, v in zip(("key", "msg", "digestmod"), h.args):
                    a[name] = v
                for k in h.keywords:
                    a[k.arg] = k.value
                out.append((norm(st.targets[0]), a, st))
    return out


def c01_5(ctx):
    f = ctx.func(RFC, "deterministic_generate_k")
    n_, d_, z_ = f.params()[:3]
    defs = df.single_defs(f.node)
    # default hash
    a = f.node.args
    dflt = dict(zip([x.arg for x in a.args][len(a.args) - len(a.defaults):], a.defaults))
    ctx.check("hash_f" in dflt and norm(dflt["hash_f"]) == "hashlib.sha256", "default-hash", ctx.where(f),
              "deterministic_generate_k: default hash is %s, RFC 6979 for Bitcoin uses HMAC-SHA256" % (norm(dflt["hash_f"]) if "hash_f" in dflt else None))

    def ex(e):
        return norm(df.expand(e, defs))
    order_size = ex(ast.parse("order_size", mode="eval").body)
    ctx.check(order_size in ("(%s.bit_length() + 7) // 8" % n_, "(n.bit_length() + 7) // 8", "(generator_order.bit_length() + 7) // 8"), "order-size", ctx.where(f),
              "deterministic_generate_k: order_size expands to `%s`, expected ceil(bitlen(n)/8)" % order_size)
    priv = defs.get("priv")
    ctx.check(priv is not None and isinstance(priv, ast.Call) and df.last_attr(priv) == "to_bytes" and norm(priv.func.value) == d_
              and norm(priv.args[0]) == "order_size" and norm(priv.args[1]) == "'big'", "int2octets-key", ctx.where(f),
              "deterministic_generate_k: priv is `%s`, expected secret_exponent.to_bytes(order_size, 'big')" % (norm(priv) if priv is not None else None))
    h1 = defs.get("h1")
    ctx.check(h1 is not None and isinstance(h1, ast.Call) and df.last_attr(h1) == "to_bytes" and norm(h1.func.value) == z_
              and norm(h1.args[0]) == "order_size" and norm(h1.args[1]) == "'big'", "bits2octets-hash", ctx.where(f),
              "deterministic_generate_k: h1 is `%s`, expected val.to_bytes(order_size, 'big') after reduction" % (norm(h1) if h1 is not None else None))
    # reductions of val
    w0 = GuardWalker(ru.opaque)
    w0.run(f.node.body)
    red = {}
    for st, reach in w0.visits:
        if isinstance(st, ast.AugAssign) and norm(st.target) == z_:
            red[st.op.__class__.__name__] = (norm(st.value), reach)
    ok = "RShift" in red and red["RShift"][0] == "shift" and gi.f_equiv(red["RShift"][1], ("op", "shift > 0")) and "Sub" in red and \
        red["Sub"][0] in (n_, "n") and gi.f_equiv(red["Sub"][1], ("op", "%s >= %s" % (z_, red["Sub"][0])))
    ctx.check(ok, "bits2int-reduction", ctx.where(f), "deterministic_generate_k: reductions of val are %s; RFC 6979 bits2octets needs `val >>= shift` exactly when shift > 0 and `val -= n` exactly when val >= n" % red)
    ctx.check(ex(ast.parse("shift", mode="eval").body) in ("8 * hash_f().digest_size - n.bit_length()", "8 * hash_f().digest_size - %s.bit_length()" % n_), "shift", ctx.where(f),
              "deterministic_generate_k: shift expands to %s" % ex(ast.parse("shift", mode="eval").body))
    # straight-line prefix: initial v, k and the four HMAC steps
    top = f.node.body
    inits = {}
    for st in top:
        if isinstance(st, ast.Assign) and norm(st.targets[0]) in ("v", "k") and not isinstance(st.value, ast.Call):
            inits.setdefault(norm(st.targets[0]), norm(st.value))
    ctx.check(inits.get("v") == "b'\\x01' * hash_size" and inits.get("k") == "b'\\x00' * hash_size", "initial-state", ctx.where(f),
              "deterministic_generate_k: initial V/K are %s; RFC 6979 3.2.b/c: V = 0x01..., K = 0x00..." % inits)
    hm = _hmac_calls(top)

    keep = {"v", "k", "priv", "h1"}
    alias = {norm(defs[x]): x for x in ("priv", "h1") if x in defs}

    def msg_parts(a):
        if a["msg"] is None:
            return []
        e = df.expand(a["msg"], {k: v for k, v in defs.items() if k not in keep})
        return [alias.get(norm(p), norm(p)) for p in df.flatten_add(e)]
    seq = [(t, norm(a["key"]) if a["key"] is not None else None, msg_parts(a), norm(a["digestmod"]) if a["digestmod"] is not None else None) for t, a, st in hm]
    P, H = "priv", "h1"
    want = [("k", "k", ["v", "b'\\x00'", P, H], "hash_f"), ("v", "k", ["v"], "hash_f"),
            ("k", "k", ["v", "b'\\x01'", P, H], "hash_f"), ("v", "k", ["v"], "hash_f")]
    ctx.check(seq == want, "hmac-steps-d-g", ctx.where(f),
              "deterministic_generate_k: the K/V initialisation is %s; RFC 6979 3.2.d-g requires K=HMAC(K,V||00||x||h1), V=HMAC(K,V), K=HMAC(K,V||01||x||h1), V=HMAC(K,V)" % seq,
              sample={"steps": seq})
    # candidate loop
    loops = [n for n in top if isinstance(n, ast.While)]
    if len(loops) != 1:
        raise AnalysisError("deterministic_generate_k: expected one top-level candidate loop")
    lp = loops[0]
    inner = [n for n in lp.body if isinstance(n, ast.While)]
    ok_inner = len(inner) == 1 and norm(inner[0].test) == "len(t) < order_size" and \
        [(t, k, m) for t, k, m, d in [(t, norm(a["key"]), msg_parts(a), 0) for t, a, st in _hmac_calls(inner[0].body)]] == [("v", "k", ["v"])] and \
        any(isinstance(s, ast.Expr) and norm(s.value) == "t.extend(v)" for s in inner[0].body)
    ctx.check(ok_inner, "candidate-generation", ctx.where(f, lp), "deterministic_generate_k: T is not built by V = HMAC(K, V); T = T || V until len(T) >= order_size")
    ldefs = df.single_defs(f.node)
    k1 = [st for st in lp.body if isinstance(st, ast.Assign) and norm(st.targets[0]) == "k1"]
    ok_k1 = len(k1) == 1 and norm(k1[0].value) in ("int.from_bytes(bytes(t), 'big')", "int.from_bytes(t, 'big')")
    sh = [st for st in lp.body if isinstance(st, ast.AugAssign) and norm(st.target) == "k1"]
    ok_sh = len(sh) == 1 and isinstance(sh[0].op, ast.RShift) and norm(sh[0].value) in ("len(t) * 8 - bln", "8 * len(t) - bln")
    ctx.check(ok_k1 and ok_sh, "bits2int-candidate", ctx.where(f, lp), "deterministic_generate_k: candidate is not bits2int(T) (big-endian, shifted right by 8*len(T) - bitlen(n))")
    const = ru.const_resolver(ctx, f, {n_, "n"})
    w = GuardWalker(SymbolicAtomizer(ru.subject({"k1"}), const))
    exits = w.run(lp.body)
    may, must = reach_sets(exits, lambda e: e.kind == "return", U, E)
    ctx.check(may == iv(1, ("s", -1)) and must == may, "candidate-range", ctx.where(f, lp),
              "deterministic_generate_k: candidates returned are %s, RFC 6979 3.2.h.3 requires exactly [1, n-1]" % may.fmt("n"),
              sample={"subject": "k1", "returned": may.fmt("n")})
    rets = [e for e in exits if e.kind == "return"]
    ctx.check(all(norm(e.value) == "k1" for e in rets), "returns-candidate", ctx.where(f, lp), "deterministic_generate_k does not return the candidate k1")
    tail = [(t, norm(a["key"]), msg_parts(a)) for t, a, st in _hmac_calls(lp.body)]
    ctx.check(tail == [("k", "k", ["v", "b'\\x00'"]), ("v", "k", ["v"])], "rekey-on-reject", ctx.where(f, lp),
              "deterministic_generate_k: after a rejected candidate the update is %s; RFC 6979 requires K = HMAC(K, V || 00), V = HMAC(K, V)" % tail)


# ------------------------------------------------------------------ C01.6
def c01_6(ctx):
    f = ctx.func(GEN, "Generator.sign_with_recid")
    params = f.params()
    defs = df.single_defs(f.node)
    const = ru.const_resolver(ctx, f, ORDER_TEXTS)
    w = GuardWalker(SymbolicAtomizer(ru.subject({params[2]}), const))
    exits = w.run(f.node.body)
    may, must = reach_sets(exits, lambda e: e.kind == "raise" and gi.involves_subject(e.cond), U, E)
    ctx.check(may == iv(0, 0), "zero-hash-refused", ctx.where(f), "sign_with_recid: hash values refused are %s, expected exactly {0}" % may.fmt())
    loops = [n for n in f.node.body if isinstance(n, ast.While)]
    if len(loops) != 1:
        raise AnalysisError("sign_with_recid: expected one retry loop")
    lp = loops[0]
    for subj in ("r", "s"):
        w = GuardWalker(SymbolicAtomizer(ru.subject({subj}), const))
        ex = w.run(lp.body)
        may, must = reach_sets(ex, lambda e: e.kind == "return", U, E)
        ctx.check(may == iv(0, 0).complement(), "retry-%s" % subj, ctx.where(f, lp),
                  "sign_with_recid: signatures are returned for %s in %s; must be exactly the non-zero values" % (subj, may.fmt()),
                  sample={"subject": subj, "returned_when": may.fmt()})
    ldefs = {}
    for st in lp.body:
        if isinstance(st, ast.Assign) and isinstance(st.targets[0], ast.Name):
            ldefs[st.targets[0].id] = st.value
    n_alias = {k for k, v in defs.items() if norm(v) in ORDER_TEXTS} | ORDER_TEXTS

    def is_n(e):
        return norm(e) in n_alias
    r_ok = "r" in ldefs and isinstance(ldefs["r"], ast.BinOp) and isinstance(ldefs["r"].op, ast.Mod) and is_n(ldefs["r"].right) \
        and isinstance(ldefs["r"].left, ast.Subscript) and df.const_int(ldefs["r"].left.slice) == 0
    ctx.check(r_ok, "r-definition", ctx.where(f, lp), "sign_with_recid: r is `%s`, expected (k*G)[0] %% order" % (norm(ldefs["r"]) if "r" in ldefs else None))
    pt = norm(ldefs["r"].left.value) if r_ok else None
    p_ok = pt in ldefs and sorted(norm(x) for x in mul_factors(ldefs[pt])) == ["k", "self"]
    ctx.check(p_ok, "nonce-point", ctx.where(f, lp), "sign_with_recid: the nonce point is `%s`, expected k * self" % (norm(ldefs[pt]) if pt in ldefs else None))
    s = ldefs.get("s")
    ok = False
    if isinstance(s, ast.BinOp) and isinstance(s.op, ast.Mod) and is_n(s.right):
        fac = mul_factors(s.left)
        texts = sorted(norm(x) for x in fac)
        if len(fac) == 2 and "self.inverse(k)" in texts:
            other = [x for x in fac if norm(x) != "self.inverse(k)"][0]
            terms = df.flatten_add(other)
            tt = []
            for t in terms:
                if isinstance(t, ast.BinOp) and isinstance(t.op, ast.Mod) and is_n(t.right):
                    t = t.left
                tt.append(sorted(norm(x) for x in mul_factors(t)))
            ok = sorted(tt) == sorted([[params[2]], sorted([params[1], "r"])])
    ctx.check(ok, "s-definition", ctx.where(f, lp), "sign_with_recid: s is `%s`, expected k^-1 * (val + secret_exponent * r) mod order with k^-1 = self.inverse(k)" % (norm(s) if s is not None else None),
              sample={"s": norm(s) if s is not None else None})
    # recovery id
    odefs = {k: v for k, v in defs.items() if norm(v) in ORDER_TEXTS}
    rec = [st for st in body_nodes(lp) if isinstance(st, ast.Assign) and norm(st.targets[0]) == "recid"]
    ok = len(rec) == 1 and norm(rec[0].value) == "%s[1] & 1" % pt
    bump = [n for n in body_nodes(lp) if isinstance(n, ast.If) and any(isinstance(b, ast.AugAssign) and norm(b.target) == "recid" for b in n.body)]
    ok2 = len(bump) == 1 and norm(df.expand(bump[0].test, odefs)) in ("%s[0] > self._order" % pt, "%s[0] >= self._order" % pt) and \
        any(isinstance(b, ast.AugAssign) and isinstance(b.op, ast.Add) and df.const_int(b.value) == 2 for b in bump[0].body)
    ctx.check(ok and ok2, "recovery-id", ctx.where(f, lp), "sign_with_recid: recovery id is not (y parity) + 2*(x >= order): %s / %s" % ([norm(x.value) for x in rec], [norm(df.expand(b.test, odefs)) for b in bump]))


# ------------------------------------------------------------------ C01.7
def c01_7(ctx):
    f = ctx.func(KEY, "Key.verify")
    calls = [c for c in df.calls_in(f.node) if df.last_attr(c) == "sigdecode_der"]
    if len(calls) != 1:
        raise AnalysisError("Key.verify: expected one sigdecode_der call")
    kw = {k.arg: k.value for k in calls[0].keywords}
    der = ctx.func("pycoin/satoshi/der.py", "sigdecode_der")
    pos = dict(zip(der.params(), calls[0].args))
    flag = kw.get("use_broken_open_ssl_mechanism", pos.get("use_broken_open_ssl_mechanism"))
    ctx.check(isinstance(flag, ast.Constant) and flag.value is False, "strict-der", ctx.where(f, calls[0]),
              "Key.verify decodes the signature with use_broken_open_ssl_mechanism=%s; the application-level verifier must be strict" % (norm(flag) if flag is not None else "<default True>"))
    # the call sits in a try whose handler covers UnexpectedDER and ValueError and returns False
    tries = [n for n in body_nodes(f.node) if isinstance(n, ast.Try) and any(c is calls[0] for s in n.body for c in ast.walk(s))]
    ok = False
    for t in tries:
        for h in t.handlers:
            names = {df.dotted(x) for x in (h.type.elts if isinstance(h.type, ast.Tuple) else [h.type])} if h.type is not None else {"BaseException"}
            names = {n.split(".")[-1] for n in names if n}
            if ({"UnexpectedDER", "ValueError"} <= names or "Exception" in names or "BaseException" in names) and \
                    any(isinstance(s, ast.Return) and _is_const_false(s.value) for s in h.body):
                ok = True
    ctx.check(ok, "der-errors-to-false", ctx.where(f), "Key.verify does not turn UnexpectedDER/ValueError from the decoder into False")
    g = ctx.func(KEY, "Key.sign")
    w = GuardWalker(ru.opaque)
    ex = w.run(g.node.body)
    rs = [e for e in ex if e.kind == "raise"]
    ctx.check(any("is_private" in repr(e.cond) or "secret_exponent" in repr(e.cond) for e in rs), "sign-needs-private", ctx.where(g), "Key.sign does not refuse public-only keys")
    enc = [c for c in df.calls_in(g.node) if df.last_attr(c) == "sigencode_der"]
    defs = df.assignments(g.node)
    ok = False
    if len(enc) == 1 and len(enc[0].args) == 2:
        a0, a1 = norm(enc[0].args[0]), norm(enc[0].args[1])
        d0, d1 = defs.get(a0, []), defs.get(a1, [])
        if len(d0) == 1 and len(d1) == 1 and isinstance(d0[0][0], tuple) and isinstance(d1[0][0], tuple):
            ok = d0[0][0][0] == "unpack" and d0[0][0][2] == 0 and d1[0][0][2] == 1 and df.last_attr(d0[0][0][1]) == "sign" and d0[0][0][1] is d1[0][0][1]
    ctx.check(ok, "der-encodes-r-s", ctx.where(g), "Key.sign does not encode (r, s) from generator.sign in that order")


# ------------------------------------------------------------------ C01.8
def c01_8(ctx):
    allowed = {"multiply", "raw_mul", "inverse_mod", "__mul__", "sign", "verify"}
    mods = [("pycoin/ecdsa/native/openssl.py", None), ("pycoin/ecdsa/native/secp256k1.py", None)]
    for rel, _ in mods:
        m = ctx.p.module(rel)
        for n in ast.walk(m.tree):
            if isinstance(n, ast.ClassDef) and n.name == "Optimizations":
                meths = {b.name for b in n.body if isinstance(b, (ast.FunctionDef, ast.AsyncFunctionDef))}
                extra = meths - allowed
                ctx.check(not extra, "override-inventory:%s" % m.name, "%s:%d" % (rel, n.lineno),
                          "%s.Optimizations overrides %s: these shadow Generator methods that every other obligation analyses" % (m.name, sorted(extra)),
                          sample={"class": "%s.Optimizations" % m.name, "overrides": sorted(meths)})
    # the shipped secp256k1 generator is assembled with Generator last
    m = ctx.p.module("pycoin/ecdsa/secp256k1.py")
    c = m.classes.get("GeneratorWithOptimizations")
    if c is None:
        raise AnalysisError("secp256k1.GeneratorWithOptimizations not found")
    ctx.check(norm(c.base_exprs[-1]) == "Generator", "generator-last-in-mro", "%s:%d" % (m.relpath, c.node.lineno), "GeneratorWithOptimizations does not end its bases with Generator")
    # native verify rejects what the pure verify rejects: parse failures return False
    f = ctx.func("pycoin/ecdsa/native/secp256k1.py", "Optimizations.verify")
    w = GuardWalker(ru.opaque)
    ex = w.run(f.node.body)
    ctx.check(all(e.kind == "return" for e in ex), "native-verify-returns", ctx.where(f), "native verify has a non-return exit")


# ------------------------------------------------------------------ C01.9 recovery
def c01_9(ctx):
    f = ctx.func(GEN, "Generator.possible_public_pairs_for_signature")
    defs = df.single_defs(f.node)
    params = f.params()
    # Q = (s/r) * R - (z/r) * G  for R in points_for_x(r)
    rets = [r for r in df.returns_of(f.node) if r.value is not None and not (isinstance(r.value, ast.List) and not r.value.elts)]
    if len(rets) != 1 or not isinstance(rets[0].value, ast.ListComp):
        raise AnalysisError("possible_public_pairs_for_signature: expected one list-comprehension return")
    lc = rets[0].value
    elt = df.expand(lc.elt, defs)
    var = norm(lc.generators[0].target)
    ok = False
    if isinstance(elt, ast.BinOp) and isinstance(elt.op, ast.Add):
        sides = []
        for side in (elt.left, elt.right):
            neg = False
            if isinstance(side, ast.BinOp) and isinstance(side.op, ast.Mult) and isinstance(side.left, ast.UnaryOp) and isinstance(side.left.op, ast.USub):
                neg = True
                side = ast.BinOp(side.left.operand, ast.Mult(), side.right)
            sides.append((neg, sorted(norm(x) for x in mul_factors(side))))
        want = [(False, sorted(["s", "self.inverse(r)", var])), (True, sorted(["self.inverse(r)", params[1], "self"]))]
        ok = sorted(sides) == sorted(want)
    ctx.check(ok, "recovery-formula", ctx.where(f, rets[0]),
              "possible_public_pairs_for_signature returns `%s` per candidate; expected (s/r)*R + (-(value/r))*G with 1/r = self.inverse(r)" % norm(elt),
              sample={"element": norm(elt)})
    pts = defs.get("points")
    ctx.check(pts is not None and norm(pts) == "self.points_for_x(r)", "recovery-candidates", ctx.where(f), "recovery candidates are not self.points_for_x(r)")
    # ValueError from points_for_x -> []
    tries = [n for n in body_nodes(f.node) if isinstance(n, ast.Try)]
    ok = any(any(isinstance(s, ast.Return) and isinstance(s.value, ast.List) and not s.value.elts for s in h.body) and h.type is not None and norm(h.type) in ("ValueError", "(ValueError,)")
             for t in tries for h in t.handlers)
    ctx.check(ok, "recovery-no-point", ctx.where(f), "possible_public_pairs_for_signature does not map `no point for x` to []")
    # parity selection
    ifs = [n for n in body_nodes(f.node) if isinstance(n, ast.If) and norm(n.test) == "y_parity & 1"]
    ok = len(ifs) == 1 and any("[1:]" in norm(s) for s in ifs[0].body) and any("[:1]" in norm(s) for s in ifs[0].orelse)
    ctx.check(ok, "recovery-parity", ctx.where(f), "y_parity selection does not keep the odd point for odd parity and the even point otherwise")


OBLIGATIONS = [
    Ob("C01.1", "verify: range guards as intervals, boolean exits only", c01_1, floor=5, engines="GI,DF", breaks_if="(r,n), (0,s), (n+r,s), val=0"),
    Ob("C01.2", "verify: accepted iff ((val/s)G + (r/s)Q).x mod n == r", c01_2, floor=2, engines="DF", breaks_if="any signature / swapped u1,u2"),
    Ob("C01.3", "infinity test dominates coordinate use in verify and sign_with_recid", c01_3, floor=2, engines="NUL,GI", breaks_if="Q = -(z/r)G; nonce retry reaching k = n"),
    Ob("C01.4", "nonce generator bound to RFC 6979 with (order, key, hash)", c01_4, floor=4, engines="DF", breaks_if="nonce reuse across hashes or keys"),
    Ob("C01.5", "deterministic_generate_k has the RFC 6979 section 3.2 shape", c01_5, floor=13, engines="DF,GI", breaks_if="every (d,z): signature differs from RFC 6979 / nonce ignores z"),
    Ob("C01.6", "sign_with_recid: retry guard, r/s definitions modulo the order, recovery id", c01_6, floor=7, engines="GI,MK,DF", breaks_if="r == 0 or s == 0 returned; wrong modulus"),
    Ob("C01.7", "Key.sign / Key.verify DER wrapper: strict decode, errors to False, (r,s) order", c01_7, floor=4, engines="DF,EX"),
    Ob("C01.8", "native backends override only arithmetic / sign / verify", c01_8, floor=3, engines="PM,SIB"),
    Ob("C01.9", "public-key recovery formula and candidate selection", c01_9, floor=4, engines="DF,LIN", breaks_if="recovered key does not verify"),
]
