"""C11 - base58 / bech32 codecs: structural obligations (DESIGN.md section 4, C11)."""
from __future__ import annotations

import ast

from sa.core import Ob
from sa.pm import AnalysisError, norm, body_nodes
from sa import gi, df, ru
from sa.gi import IntSet, iv, GuardWalker, SymbolicAtomizer, reach_sets

B58 = "pycoin/encoding/b58.py"
BC = "pycoin/encoding/base_conversion.py"
BECH = "pycoin/contrib/bech32m.py"
PSTR = "pycoin/networks/parseable_str.py"
GRSP = "pycoin/coins/groestlcoin/parse.py"
U, E = IntSet.all(), IntSet.empty()


def _none_ret(e):
    if e.kind != "return" or e.value is None:
        return False
    v = e.value
    return isinstance(v, ast.Tuple) and all(isinstance(x, ast.Constant) and x.value is None for x in v.elts) or (isinstance(v, ast.Constant) and v.value is None)


# ------------------------------------------------------------------ C11.1
def c11_1(ctx):
    it = ctx.interp
    a = it.get("pycoin.encoding.b58", "BASE58_ALPHABET")
    ctx.check(a == b"123456789ABCDEFGHJKLMNPQRSTUVWXYZabcdefghijkmnopqrstuvwxyz", "base58-alphabet", B58 + ":1", "BASE58_ALPHABET is %r" % (a,), sample={"alphabet": a.decode() if isinstance(a, bytes) else None})
    lk = it.get("pycoin.encoding.b58", "BASE58_LOOKUP")
    ctx.check(isinstance(lk, dict) and lk == {c: i for i, c in enumerate(a)} and it.get("pycoin.encoding.b58", "BASE58_BASE") == 58, "base58-lookup", B58 + ":1", "BASE58_LOOKUP / BASE58_BASE are not derived from the alphabet")
    cs = it.get("pycoin.contrib.bech32m", "CHARSET")
    ctx.check(cs == "qpzry9x8gf2tvdw0s3jn54khce6mua7l", "bech32-charset", BECH + ":1", "CHARSET is %r" % (cs,), sample={"charset": cs})
    ctx.check(it.get("pycoin.contrib.bech32m", "BECH32M_CONST") == 0x2BC830A3, "bech32m-const", BECH + ":1", "BECH32M_CONST is wrong")
    f = ctx.func(BECH, "bech32_polymod")
    g = df.single_defs(f.node).get("generator")
    vals = [df.const_int(e) for e in g.elts] if isinstance(g, ast.List) else None
    ctx.check(vals == [0x3B6A57B2, 0x26508E6D, 0x1EA119FA, 0x3D4233DD, 0x2A1462B3], "bch-generator", ctx.where(f), "BCH generator words are %s" % (vals,), sample={"generator": vals})
    t = norm(f.node)
    ctx.check("chk = 1" in t and "top = chk >> 25" in t and "chk = (chk & 33554431) << 5 ^ value" in t and "chk ^= generator[i] if top >> i & 1 else 0" in t and "for i in range(5):" in t, "polymod-shape", ctx.where(f), "bech32_polymod is not the BIP173 polymod")
    v = ctx.func(BECH, "bech32_verify_checksum")
    w = GuardWalker(ru.opaque)
    ex = w.run(v.node.body)
    got = {norm(e.value): sorted(gi.f_opaques(e.cond)) for e in ex if e.kind == "return"}
    ctx.check(got.get("Encoding.BECH32") == ["const == 1"] and "const == BECH32M_CONST" in got.get("Encoding.BECH32M", []) and "None" in got, "checksum-constants", ctx.where(v), "checksum verification does not map residue 1 to BECH32 and BECH32M_CONST to BECH32M: %s" % got)
    cc = ctx.func(BECH, "bech32_create_checksum")
    t = norm(cc.node)
    ctx.check("const = BECH32M_CONST if spec == Encoding.BECH32M else 1" in t and "polymod = bech32_polymod(values + [0, 0, 0, 0, 0, 0]) ^ const" in t and "return [polymod >> 5 * (5 - i) & 31 for i in range(6)]" in t, "checksum-creation", ctx.where(cc), "bech32_create_checksum is not the BIP173/350 checksum (6 symbols)")
    h = ctx.func(BECH, "bech32_hrp_expand")
    ctx.check("return [ord(x) >> 5 for x in hrp] + [0] + [ord(x) & 31 for x in hrp]" in norm(h.node), "hrp-expand", ctx.where(h), "bech32_hrp_expand is not high bits, 0, low bits")
    e = it.get("pycoin.contrib.bech32m", "Encoding")
    ctx.check(it.getattr(e, "BECH32") != it.getattr(e, "BECH32M"), "encoding-enum", BECH + ":1", "Encoding.BECH32 and BECH32M are not distinct")


# ------------------------------------------------------------------ C11.2
def c11_2(ctx):
    f = ctx.func(BECH, "decode")
    for subj, want, key in (({"len(decoded)"}, iv(2, 40).complement(), "program-length"), ({"data[0]"}, iv(17, None), "witness-version")):
        w = GuardWalker(SymbolicAtomizer(ru.subject(subj), df.const_int))
        ex = w.run(f.node.body)
        s, n = ru.guard_reject_set(f.node, w, ex, _none_ret, U, E, pure=True, allow=("decoded is None",))
        ctx.check(s == want, key, ctx.where(f), "decode rejects %s values %s on their own; BIP173/350: exactly %s" % (sorted(subj)[0], s.fmt(), want.fmt()), sample={"subject": sorted(subj)[0], "rejected": s.fmt()})
    w = GuardWalker(ru.opaque)
    ex = w.run(f.node.body)
    ok_ret = [e for e in ex if e.kind == "return" and not _none_ret(e)]
    if len(ok_ret) != 1:
        raise AnalysisError("decode: expected one accepting return")
    c = ok_ret[0].cond
    from rules.C01 import can_be
    v0, l20, l32, b32, b32m = "data[0] == 0", "len(decoded) != 20", "len(decoded) != 32", "spec != Encoding.BECH32", "spec != Encoding.BECH32M"
    d0 = "data[0] != 0"

    def sat(extra):
        return can_be(gi.f_and(c, *extra), "\0")
    # v0 with a length other than 20/32 is refused
    ctx.check(not sat([("op", v0), ("op", l20), ("op", l32)]), "v0-length", ctx.where(f), "decode accepts witness version 0 with a program that is neither 20 nor 32 bytes")
    ctx.check(not sat([("op", v0), ("op", b32)]) and sat([("op", v0), ("not", ("op", b32)), ("not", ("op", l20))]), "v0-needs-bech32", ctx.where(f), "decode accepts version 0 with the Bech32m constant (or refuses it with Bech32)")
    ctx.check(not sat([("op", d0), ("op", b32m), ("not", ("op", v0))]) and sat([("op", d0), ("not", ("op", b32m)), ("not", ("op", v0))]), "v1plus-needs-bech32m", ctx.where(f), "decode accepts version >= 1 with the Bech32 constant (or refuses it with Bech32m)")
    ctx.check("decoded = convertbits(data[1:], 5, 8, False)" in norm(f.node) and "hrpgot != hrp or data is None" in norm(f.node), "decode-steps", ctx.where(f), "decode does not check the HRP / convert 5->8 bits without padding")
    ctx.check(norm(ok_ret[0].value) == "(data[0], decoded)", "decode-result", ctx.where(f), "decode does not return (version, program)")
    # bech32_decode guards
    g = ctx.func(BECH, "bech32_decode")
    first = [n for n in g.node.body if isinstance(n, ast.If)][0]
    parts = first.test.values if isinstance(first.test, ast.BoolOp) and isinstance(first.test.op, ast.Or) else [first.test]
    rng = None
    case = None
    for p in parts:
        if isinstance(p, ast.Call) and norm(p.func) == "any" and isinstance(p.args[0], ast.GeneratorExp):
            at = SymbolicAtomizer(ru.subject({"ord(x)"}), df.const_int)
            rng = gi.sat_set(at(p.args[0].elt), U, E)
        else:
            case = p
    ctx.check(rng == iv(33, 126).complement(), "char-range", ctx.where(g, first), "bech32_decode rejects characters with code %s, BIP173: outside 33..126" % (rng.fmt() if rng is not None else None), sample={"subject": "ord(x)", "rejected": rng.fmt() if rng is not None else None})
    okc = False
    if isinstance(case, ast.BoolOp) and isinstance(case.op, ast.And) and len(case.values) == 2:
        forms = sorted(norm(v) for v in case.values)
        okc = forms in (sorted(["bech.lower() != bech", "bech.upper() != bech"]), sorted(["bech != bech.lower()", "bech != bech.upper()"]))
    ctx.check(okc, "mixed-case", ctx.where(g, first),
              "bech32_decode's mixed-case test is `%s`; BIP173 rejects exactly strings that differ from both their lower- and upper-case form (a string without letters is not mixed case)" % (norm(case) if case is not None else None),
              sample={"test": norm(case) if case is not None else None})
    ctx.check(_none3(first), "reject-returns-none", ctx.where(g, first), "the character/case rejection does not return (None, None, None)")
    const = ru.const_resolver(ctx, g, {"len(bech)"})
    w = GuardWalker(SymbolicAtomizer(ru.subject({"pos"}), const))
    ex = w.run(g.node.body)
    s, n = ru.guard_reject_set(g.node, w, ex, _none_ret, U, E)
    ctx.check(s == (iv(None, 0) | iv(("s", -6), None)), "separator-position", ctx.where(g), "bech32_decode rejects separator positions %s; BIP173: pos < 1 or pos + 7 > len" % s.fmt("len"), sample={"subject": "pos", "rejected": s.fmt("len")})
    const = ru.const_resolver(ctx, g, {"max_length"})
    w = GuardWalker(SymbolicAtomizer(ru.subject({"len(bech)"}), const))
    ex = w.run(g.node.body)
    s, n = ru.guard_reject_set(g.node, w, ex, _none_ret, U, E)
    ctx.check(s == iv(("s", 1), None), "max-length", ctx.where(g), "bech32_decode rejects lengths %s; must be exactly > max_length" % s.fmt("max_length"))
    a = g.node.args
    ctx.check(len(a.defaults) == 1 and df.const_int(a.defaults[0]) == 90, "max-length-default", ctx.where(g), "max_length default is not 90")
    t = norm(g.node)
    ctx.check("pos = bech.rfind('1')" in t and "if not all((x in CHARSET for x in bech[pos + 1:])):" in t and "spec = bech32_verify_checksum(hrp, data)" in t and "if spec is None:" in t and "return (hrp, data[:-6], spec)" in t and "bech = bech.lower()" in t,
              "decode-pipeline", ctx.where(g), "bech32_decode does not split at the last '1', check the charset, verify the checksum and strip its 6 symbols")
    cb = ctx.func(BECH, "convertbits")
    t = norm(cb.node)
    ctx.check("elif bits >= frombits or acc << tobits - bits & maxv:" in t and "if value < 0 or value >> frombits:" in t, "padding-rules", ctx.where(cb), "convertbits(pad=False) does not reject residual / non-zero padding bits or out-of-range values")
    en = ctx.func(BECH, "encode")
    t = norm(en.node)
    ctx.check("spec = Encoding.BECH32 if witver == 0 else Encoding.BECH32M" in t and "if decode(hrp, ret) == (None, None):" in t, "encode-spec", ctx.where(en), "encode does not choose Bech32 for v0 / Bech32m otherwise and self-check by decoding")
    # ParseAPI repeats the version/spec test
    pa = ctx.func("pycoin/networks/ParseAPI.py", "ParseAPI._bech32m")
    t = norm(pa.node)
    ctx.check("if version == 0 and spec != bech32m.Encoding.BECH32:" in t and "if version != 0 and spec != bech32m.Encoding.BECH32M:" in t, "parseapi-spec", ctx.where(pa), "ParseAPI._bech32m does not tie the checksum constant to the witness version")


def _none3(ifnode):
    return any(isinstance(s, ast.Return) and isinstance(s.value, ast.Tuple) and len(s.value.elts) == 3 and all(isinstance(x, ast.Constant) and x.value is None for x in s.value.elts) for s in ifnode.body)


# ------------------------------------------------------------------ C11.3
def c11_3(ctx):
    for rel, name, hashname, fail in ((B58, "a2b_hashed_base58", "double_sha256", "raise"), (PSTR, "b58_double_sha256", "double_sha256", "none"), (GRSP, "b58_groestl", "groestlHash", "none")):
        f = ctx.func(rel, name)
        w = GuardWalker(ru.opaque)
        ex = w.run(f.node.body)
        good = [e for e in ex if e.kind == "return" and e.value is not None and norm(e.value) == "data"]
        ok = len(good) == 1
        if ok:
            ops = gi.f_opaques(good[0].cond)
            ok = any(o in ("%s(data)[:4] == the_hash" % hashname, "the_hash == %s(data)[:4]" % hashname) for o in ops)
            from rules.C01 import can_be
            atom = [o for o in ops if "[:4]" in o]
            ok = ok and atom and not can_be(gi.f_and(good[0].cond, ("not", ("op", atom[0]))), "\0")
        ctx.check(ok, "checksum-dominates:%s" % name, ctx.where(f),
                  "%s returns the payload under %s; it must be returned only when the first 4 bytes of %s(payload) EQUAL the 4 trailing bytes (a prefix test accepts strings shorter than a checksum)"
                  % (name, [gi.f_opaques(e.cond) for e in good], hashname), sample={"function": f.qualname, "guards": [gi.f_opaques(e.cond) for e in good]})
        t = norm(f.node)
        ctx.check("data, the_hash = (data[:-4], data[-4:])" in t, "checksum-split:%s" % name, ctx.where(f), "%s does not split payload / 4-byte checksum" % name)
        others = [e for e in ex if e not in good]
        if fail == "raise":
            ctx.check(all(ru.is_raise_of("EncodingError")(e) for e in others) and others, "checksum-failure:%s" % name, ctx.where(f), "%s does not raise EncodingError on a bad checksum" % name)
        else:
            ctx.check(all(_none_ret(e) for e in others) and others, "checksum-failure:%s" % name, ctx.where(f), "%s does not return None on a bad checksum" % name)
    e = ctx.func(B58, "b2a_hashed_base58")
    ctx.check("return b2a_base58(data + double_sha256(data)[:4])" in norm(e.node), "checksum-writer", ctx.where(e), "b2a_hashed_base58 does not append the first 4 bytes of double_sha256(data)")
    v = ctx.func(B58, "is_hashed_base58_valid")
    t = norm(v.node)
    ctx.check("a2b_hashed_base58(base58)" in t and "except EncodingError:" in t and "return False" in t and "return True" in t, "validity-predicate", ctx.where(v), "is_hashed_base58_valid is not `decodes without EncodingError`")
    tl = ctx.func(BC, "to_long")
    t = norm(tl.node)
    ctx.check("except Exception:" in t and "raise EncodingError(" in t, "bad-character", ctx.where(tl), "to_long does not map lookup failures to EncodingError")


# ------------------------------------------------------------------ C11.4
def c11_4(ctx):
    f = ctx.func(BC, "to_long")
    loops = [n for n in f.node.body if isinstance(n, ast.For)]
    if len(loops) != 1:
        raise AnalysisError("to_long: expected one loop")
    w = GuardWalker(SymbolicAtomizer(ru.subject({"v"}), df.const_int))
    w.block(loops[0].body, True)
    inc = [(st, r) for st, r in w.visits if isinstance(st, ast.AugAssign) and norm(st.target) == "prefix"]
    ok = len(inc) == 1 and gi.sat_set(inc[0][1], U, E) == iv(0, 0) and df.const_int(inc[0][0].value) == 1
    body = [norm(s) for s in loops[0].body]
    acc = [i for i, s in enumerate(loops[0].body) if isinstance(s, ast.Try) and "v += lookup_f(c)" in norm(s)]
    mul = [i for i, s in enumerate(loops[0].body) if norm(s) == "v *= base"]
    tst = [i for i, s in enumerate(loops[0].body) if isinstance(s, ast.If) and "prefix += 1" in norm(s)]
    ok = ok and acc and mul and tst and mul[0] < acc[0] < tst[0]
    ctx.check(ok, "leading-zero-count", ctx.where(f), "to_long does not count a leading zero exactly when the accumulated value is still 0 after the digit was added", sample={"increment_when_v_in": gi.sat_set(inc[0][1], U, E).fmt() if inc else None})
    inits = {norm(s.targets[0]): norm(s.value) for s in f.node.body if isinstance(s, ast.Assign)}
    ctx.check(inits.get("prefix") == "0" and inits.get("v") == "0", "to-long-init", ctx.where(f), "to_long does not start from v = 0, prefix = 0")
    g = ctx.func(BC, "from_long")
    w = GuardWalker(SymbolicAtomizer(ru.subject({"v"}), df.const_int))
    w.run(g.node.body)
    app = [(st, r) for st, r in w.visits if "ba.append(charset(mod))" in norm(st)]
    s = gi.sat_set(app[0][1], U, E) if app else None
    ctx.check(len(app) == 1 and s == iv(1, None), "digits-only-for-positive", ctx.where(g),
              "from_long emits a digit while v is in %s; digits must be produced only while v > 0 (a value of 0 contributes no digit: all-zero inputs would gain one)" % (s.fmt() if s is not None else None),
              sample={"subject": "v", "digit_emitted_when": s.fmt() if s is not None else None})
    top = [norm(s) for s in g.node.body if not (isinstance(s, ast.Expr) and isinstance(s.value, ast.Constant))]
    i_loop = [i for i, s in enumerate(g.node.body) if isinstance(s, ast.While)]
    i_ext = [i for i, s in enumerate(g.node.body) if norm(s) == "ba.extend([charset(0)] * prefix)"]
    i_rev = [i for i, s in enumerate(g.node.body) if norm(s) == "ba.reverse()"]
    ctx.check(bool(i_loop and i_ext and i_rev) and i_loop[0] < i_ext[0] < i_rev[0] and len(i_rev) == 1, "prefix-zeros-then-reverse", ctx.where(g), "from_long does not append `prefix` zero digits after the digit loop and before the single reverse")
    ctx.check("v, mod = divmod(v, base)" in norm(g.node), "digit-extraction", ctx.where(g), "from_long does not extract digits with divmod(v, base)")
    e = ctx.func(B58, "b2a_base58")
    t = norm(e.node)
    ctx.check("v, prefix = to_long(256, lambda x: x, s)" in t and "s = from_long(v, prefix, BASE58_BASE, lambda v: BASE58_ALPHABET[v])" in t, "b2a-bases", ctx.where(e), "b2a_base58 does not convert base 256 -> 58 through the alphabet")
    d = ctx.func(B58, "a2b_base58")
    t = norm(d.node)
    ctx.check("v, prefix = to_long(BASE58_BASE, lambda c: BASE58_LOOKUP[c], s.encode('utf8'))" in t and "return from_long(v, prefix, 256, lambda x: x)" in t, "a2b-bases", ctx.where(d), "a2b_base58 does not convert base 58 -> 256 through the inverse lookup")


OBLIGATIONS = [
    Ob("C11.1", "alphabets, BCH generator and checksum constants equal the standards", c11_1, floor=10, engines="TB,CE"),
    Ob("C11.2", "segwit-address decode decision guards (version, length, spec, characters, case, separator, length limit)", c11_2, floor=15, engines="GI", breaks_if="HRPs/strings without letters; version/constant mismatches"),
    Ob("C11.3", "payload returned only after the 4-byte checksum comparison (equality, not prefix)", c11_3, floor=10, engines="CFG,GI", breaks_if="strings decoding to fewer than 4 bytes"),
    Ob("C11.4", "leading-zero bookkeeping of the radix conversion", c11_4, floor=6, engines="GI,DF", breaks_if="empty / all-zero byte strings"),
]
