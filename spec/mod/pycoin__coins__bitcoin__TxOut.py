"""Transcription of every function of pycoin/coins/bitcoin/TxOut.py as of the reviewed tree (see DESIGN.md section 12).
NEVER IMPORTED OR EXECUTED: parsed and compared in canonical form (sa/sym.py) with the functions in /repo."""


_CONSTS = {

}


# pycoin/coins/bitcoin/TxOut.py :: TxOut.__init__
def q__TxOut____init__(self, coin_value, script):
    assert isinstance(script, bytes)
    self.coin_value = self.COIN_VALUE_CAST_F(coin_value)
    self.script = script


# pycoin/coins/bitcoin/TxOut.py :: TxOut.stream
def q__TxOut__stream(self, f):
    stream_struct('QS', f, self.coin_value, self.script)


# pycoin/coins/bitcoin/TxOut.py :: TxOut.parse
def q__TxOut__parse(cls, f):
    return cls(*parse_struct('QS', f))


# pycoin/coins/bitcoin/TxOut.py :: TxOut.__str__
def q__TxOut____str__(self):
    return '%s<%s mbtc "%s">' % (self.__class__.__name__, satoshi_to_mbtc(self.coin_value), BitcoinScriptTools.disassemble(self.script))


# pycoin/coins/bitcoin/TxOut.py :: TxOut.puzzle_script
def q__TxOut__puzzle_script(self):
    return self.script
