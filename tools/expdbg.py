#!/venv/bin/python
"""expdbg.py <seed|-> <relpath> <dotted>: print the function after helper expansion (sa/expand.py) and its canonical summary"""
import os, shutil, subprocess, sys, tempfile, ast
sys.path.insert(0, os.path.dirname(os.path.dirname(os.path.abspath(__file__))))
seed, rel, dotted = sys.argv[1:4]
td = None
if seed != "-":
    td = tempfile.mkdtemp(prefix="vs-", dir="/tmp")
    shutil.copytree("/repo/pycoin", td + "/pycoin")
    subprocess.run(["patch", "-p1", "-s", "--no-backup-if-mismatch", "-i", "/verif/seeded/%s/patch.diff" % seed], cwd=td, check=True)
    os.environ["VERIF_REPO"] = td
try:
    from sa import core, sym, expand
    from sa.pm import Program
    ctx = core.Ctx(Program(), "quick")
    fi = ctx.p.func(rel, dotted)
    node = sym.expanded(ctx, fi)

    class U(ast._Unparser):
        def visit_InlineBlock(self, n):
            self.fill("with INLINE(%r):" % n.helper)
            with self.block():
                self.traverse(n.body)

        def visit_InlineReturn(self, n):
            self.fill("JUMP")
    print(U().visit(node))
    canon = sym.Canon(sym.make_const_of(ctx, fi), None, None)
    sm = sym.summarize(node, canon)
    for it in sm.items:
        print("   ", repr(it)[:400])
    if os.environ.get("RAW"):
        w = sym.SymWalker(node, canon, None)
        w.run()
        for e in w.exits:
            print("  EXIT", e.kind, sym.norm(e.value) if e.value is not None else None, str(e.cond)[:300])
finally:
    if td:
        shutil.rmtree(td, ignore_errors=True)
