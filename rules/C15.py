"""C15 - header-chain tracking.  The first sentence of the property (the reported chain is heaviest for EVERY delivery
history) is a relation over histories that static analysis does not decide; only the structural clauses C15.1-5 of
DESIGN.md section 4 are decided here."""
from __future__ import annotations

import ast
import re

from sa.core import Ob
from sa.pm import AnalysisError, norm, body_nodes
from sa import gi, df, ru, sym
from sa.pm import Undecided
from sa.gi import GuardWalker, SymbolicAtomizer, IntSet, iv
from sa.ef import writes_in

BC = "pycoin/blockchain/BlockChain.py"
CF = "pycoin/blockchain/ChainFinder.py"
U, E = IntSet.all(), IntSet.empty()


def _lin(e, env=None):
    """affine form {name: coef, '': const}; env substitutes names by affine forms"""
    env = env or {}
    if isinstance(e, ast.Constant) and isinstance(e.value, int):
        return {"": e.value}
    if isinstance(e, ast.BinOp) and isinstance(e.op, (ast.Add, ast.Sub)):
        a, b = _lin(e.left, env), _lin(e.right, env)
        if a is None or b is None:
            return None
        out = dict(a)
        for k, v in b.items():
            out[k] = out.get(k, 0) + (v if isinstance(e.op, ast.Add) else -v)
        return out
    if isinstance(e, ast.UnaryOp) and isinstance(e.op, ast.USub):
        a = _lin(e.operand, env)
        return None if a is None else {k: -v for k, v in a.items()}
    t = norm(e)
    if t in env:
        return dict(env[t])
    return {t: 1}


def _clean(d):
    return {k: v for k, v in d.items() if v != 0}


_REF = None


def _ref():
    global _REF
    if _REF is None:
        import os
        _REF = ast.parse(open(os.path.join(os.path.dirname(os.path.dirname(os.path.abspath(__file__))), "spec", "ref_chain.py")).read())
    return _REF


INTS = lambda t: t in ("index", "idx", "size", "old_length", "i1", "i2", "shorter_len", "max_weight", "weight") or t.startswith("len(")


def _refcheck(ctx, rel, dotted, refname, key):
    fi = ctx.p.functions.get(ctx.p.module(rel).name + "." + dotted)
    if fi is None:
        fi = ctx.func(rel, dotted)
    return sym.against_reference(ctx, fi, _ref(), refname, key, INTS)


# ------------------------------------------------------------------ C15.1
def c15_1(ctx):
    f = ctx.func(BC, "BlockChain._longest_local_block_chain")
    _refcheck(ctx, BC, "BlockChain._longest_local_block_chain", "bc_longest", "selection")
    for w in writes_in(f):
        ctx.check(w.text == "self._longest_chain_cache = ...", "selection-state:%s" % w.text, ctx.where(f, w.node), "_longest_local_block_chain keeps state in `%s`; only the result memo may be written here (anything else survives lock_to_index / add_headers unnoticed)" % w.text,
                  what="write:%s" % w.text, sample={"write": w.text})
    # invalidation on delivery: old chain read -> headers loaded -> memo dropped -> new chain read
    a = ctx.func(BC, "BlockChain.add_headers")
    w = sym.walk(ctx, a)
    seq = []
    for e in w.effects:
        if e.kind == "call" and norm(e.raw.func) == "self._longest_local_block_chain" and not e.loops:
            seq.append("read")
        elif e.kind == "call" and norm(e.raw.func).endswith("chain_finder.load_nodes"):
            seq.append("load")
        elif e.kind == "setattr" and norm(e.target) == "self" and e.attr == "_longest_chain_cache":
            seq.append("reset" if isinstance(e.value, ast.Constant) and e.value.value is None else "set")
    core = [x for x in seq]
    ok = "load" in core and "reset" in core and core.index("load") < core.index("reset") and "read" in core[:core.index("load")] and "read" in core[core.index("reset"):]
    ctx.check(ok, "memo-reset-on-delivery", ctx.where(a), "add_headers does not read the old chain, load the headers, drop the memo and recompute, in that order (sequence: %s)" % core, sample={"sequence": core})
    # what add_headers reports after a delivery is what the weight selection returns: the only thing it ever puts in the memo is
    # None (anything else -- the chain reported before, a chain preferred by length -- overrules the selection by weight)
    sets = [e for e in w.effects if e.kind == "setattr" and norm(e.target) == "self" and e.attr == "_longest_chain_cache" and not (isinstance(e.value, ast.Constant) and e.value.value is None)]
    ctx.check(not sets, "delivery-reports-the-selection", ctx.where(a, sets[0].node) if sets else ctx.where(a),
              "add_headers stores `%s` in the memo of the reported chain (under `%s`): the chain reported after a delivery is then not the one the weight selection returns -- a heavier fork that is not longer, say, is never reported" % (norm(sets[0].value)[:50] if sets else "", str(sets[0].reach)[:90] if sets else ""),
              sample={"memo_stores_other_than_reset": 0})
    l = ctx.func(BC, "BlockChain.lock_to_index")
    wl = sym.walk(ctx, l, int_names=INTS)
    stores = [e for e in wl.effects if e.kind == "setattr" and norm(e.target) == "self" and e.attr == "_longest_chain_cache"]
    vals = sorted({norm(e.value) for e in stores})
    n_ = "index - len(self._locked_chain)"
    want = {"self._longest_local_block_chain()[:-(%s)]" % n_, "self._longest_local_block_chain()[:-index + len(self._locked_chain)]", "self._longest_local_block_chain()[:len(self._locked_chain) - index]"}
    ctx.check(len(vals) == 1 and vals[0] in want, "memo-kept-on-lock", ctx.where(l),
              "lock_to_index sets the memo to `%s`; locking must not change the reported chain, so the memo has to become the unlocked remainder of the chain reported so far (recomputing lets a tie between equal-weight chains break the other way, "
              "leaving hash_to_index_lookup stale and no add/remove operations emitted)" % vals, sample={"memo_after_lock": vals})


# ------------------------------------------------------------------ C15.2
def c15_2(ctx):
    _refcheck(ctx, BC, "BlockChain.add_headers", "bc_add_headers", "operations")
    a = ctx.func(BC, "BlockChain.add_headers")
    w = sym.walk(ctx, a, int_names=INTS)
    # every ('add', block, k) appended in a loop is paired with hash_to_index_lookup[h] = k in the same iteration
    apps = [(lp, name, e, r) for lp, name, e, r in sym.appended_in_loops(w) if isinstance(e, ast.Tuple) and len(e.elts) == 3 and isinstance(e.elts[0], ast.Constant)]
    adds = [x for x in apps if x[2].elts[0].value == "add"]
    rms = [x for x in apps if x[2].elts[0].value == "remove"]
    if not adds or not rms:
        raise Undecided("add_headers: ('add' | 'remove', block, index) operations are not appended inside loops")
    for lp, name, e, r in adds:
        idx = norm(e.elts[2])
        maps = [x for x in w.effects if x.kind == "setitem" and norm(x.target) == "self.hash_to_index_lookup" and x.loops and x.loops[-1].node is lp]
        ctx.check(len({id(m.node) for m in maps}) == 1 and all(norm(m.value) == idx for m in maps if sym.entails(m.reach, r) or sym.entails(r, m.reach)) and any(norm(m.value) == idx for m in maps), "add-lockstep", ctx.where(a, lp),
                  "('add', block, %s) is recorded while hash_to_index_lookup[h] = %s: the operations and the index map disagree" % (idx, [norm(m.value) for m in maps]), sample={"add_index": idx, "map_index": [norm(m.value) for m in maps]})
    for lp, name, e, r in rms:
        dels = [x for x in w.effects if x.kind == "delitem" and norm(x.target) == "self.hash_to_index_lookup" and x.loops and x.loops[-1].node is lp]
        ctx.check(len({id(x.node) for x in dels}) == 1, "remove-lockstep", ctx.where(a, lp), "a ('remove', block, k) operation is not paired with `del hash_to_index_lookup[h]`")


# ------------------------------------------------------------------ C15.3
def path_cache_lives_one_call(ctx):
    """the path cache of ChainFinder.maximum_path / find_ancestral_path holds tails of parent walks: once it is CONSULTED (not only
    filled) it must not outlive the finder's state -- lock_to_index replaces the finder and moves the anchor, parents change when
    headers arrive.  Whoever hands a cache in hands a dictionary made for that call, not an attribute kept on an object"""
    consulted = {}
    for nm in ("ChainFinder.maximum_path", "ChainFinder.find_ancestral_path"):
        f = ctx.func(CF, nm)
        for prm in f.params()[1:]:
            if "cache" not in prm:
                continue
            reads = [n for n in ast.walk(f.node) if (isinstance(n, ast.Subscript) and isinstance(n.ctx, ast.Load) and norm(n.value) == prm) or
                     (isinstance(n, ast.Call) and isinstance(n.func, ast.Attribute) and n.func.attr in ("get", "__getitem__", "setdefault", "pop") and norm(n.func.value) == prm) or
                     (isinstance(n, ast.Compare) and any(isinstance(o, (ast.In, ast.NotIn)) for o in n.ops) and any(norm(c_) == prm for c_ in n.comparators))]
            hands_on = [c for c in ast.walk(f.node) if isinstance(c, ast.Call) and isinstance(c.func, ast.Attribute) and c.func.attr in ("maximum_path", "find_ancestral_path") and any(norm(a) == prm for a in c.args)]
            consulted[(f.name, prm)] = (bool(reads), bool(hands_on), f)
    reading = {k for k, v in consulted.items() if v[0]}
    # a function that only hands its cache on to one that consults it counts as consulting
    for k, v in consulted.items():
        if v[1] and any(r[0] == "maximum_path" for r in reading):
            reading = reading | {k}
    if not reading:
        ctx.ok("path-cache-lives-one-call", sample={"consulted": False})
        return
    kept = []
    for q, g in ctx.p.functions.items():
        if not isinstance(g.node, (ast.FunctionDef, ast.AsyncFunctionDef)) or not g.module.relpath.startswith("pycoin/blockchain/"):
            continue
        for c in ast.walk(g.node):
            if isinstance(c, ast.Call) and isinstance(c.func, ast.Attribute) and c.func.attr in {k[0] for k in reading}:
                tgt = consulted[[k for k in reading if k[0] == c.func.attr][0]][2]
                bound = dict(zip(tgt.params()[1:], c.args))
                bound.update({k.arg: k.value for k in c.keywords if k.arg})
                for (fn_, prm) in reading:
                    if fn_ == c.func.attr and prm in bound and isinstance(bound[prm], ast.Attribute):
                        kept.append((g, c, norm(bound[prm])))
    ctx.check(not kept, "path-cache-lives-one-call", ctx.where(kept[0][0], kept[0][1]) if kept else CF + ":1",
              "%s hands `%s` -- a dictionary kept on an object across calls -- to a path walk that consults its cache: tails remembered before lock_to_index replaced the finder (or before new headers changed the parents) are spliced into later walks, and the "
              "common ancestor of two chains is computed from them" % (kept[0][0].qualname if kept else "", kept[0][2] if kept else ""), sample={"consulted": True, "long_lived_caches_handed_in": len(kept)})


def c15_3(ctx):
    path_cache_lives_one_call(ctx)
    _refcheck(ctx, BC, "BlockChain.tuple_for_index", "bc_tuple_for_index", "index-read")
    _refcheck(ctx, BC, "BlockChain.lock_to_index", "bc_lock_to_index", "lock-order")
    _refcheck(ctx, BC, "BlockChain.length", "bc_length", "length")
    _refcheck(ctx, CF, "ChainFinder.find_ancestral_path", "cf_find_ancestral_path", "common-ancestor")
    _refcheck(ctx, CF, "ChainFinder.maximum_path", "cf_maximum_path", "maximum-path")
    _refcheck(ctx, CF, "ChainFinder.all_chains_ending_at", "cf_all_chains_ending_at", "candidates")
    # a negative index counts back from the tip of the WHOLE chain (locked prefix + unlocked part), so it can land in the locked
    # prefix: some exit that reads self._locked_chain is reachable with `index < 0` (its path condition is satisfiable together
    # with that test).  A reader that sends every negative index to the unlocked part wraps around once a prefix is locked.
    def lands_in_locked(fi_):
        ip_ = fi_.params()[1] if len(fi_.params()) > 1 else "index"
        w_ = sym.walk(ctx, fi_, int_names=lambda t: True)
        rets = [e for e in w_.exits if e.kind == "return" and e.value is not None]
        if any("tuple_for_index(" in norm(e.value) for e in rets):
            return "delegates", ip_
        locked = [e for e in rets if "_locked_chain[" in norm(e.value)]
        if not locked:
            return "unread", ip_
        neg_atoms = [a_ for a_ in sym.all_atoms(w_) if a_ == "%s < 0" % ip_]
        if not neg_atoms:
            return "unread", ip_
        from rules.C09 import _sat
        ok_ = any(e.cond is True or (e.cond is not False and _sat(gi.f_and(e.cond, ("op", neg_atoms[0])))) for e in locked)
        return ("ok" if ok_ else "never"), ip_
    for nm in ("BlockChain.tuple_for_index", "BlockChain.hash_for_index"):
        g = ctx.func(BC, nm)
        st_, ip_ = lands_in_locked(g)
        if st_ in ("ok", "delegates"):
            ctx.ok("negative-index-reaches-locked-prefix:%s" % nm.split(".")[-1], sample={"function": nm, "negative_index": "can land in the locked prefix" if st_ == "ok" else "through tuple_for_index"})
        elif st_ == "never":
            ctx.bad("negative-index-reaches-locked-prefix:%s" % nm.split(".")[-1], ctx.where(g), "%s reads self._locked_chain only on paths that exclude `%s < 0`: a negative index is always sent to the unlocked part, so once a prefix is locked an index that counts back into it wraps around (or -1 no longer names the tip)" % (nm, ip_))
        else:
            ctx.undecided("negative-index-reaches-locked-prefix:%s" % nm.split(".")[-1], ctx.where(g), "%s: no read of self._locked_chain / no test `%s < 0` in a form this rule reads" % (nm, ip_))

# ------------------------------------------------------------------ C15.4
def c15_4(ctx):
    f = ctx.func(CF, "ChainFinder.meld_new_hashes")
    ws = f.params()[1]
    removals = []
    body = sym.expanded(ctx, f)             # helpers added since the review are read inside meld_new_hashes: their parameter is an alias of the work set
    names = {ws}
    for _round in range(4):
        for st in ast.walk(body):
            if isinstance(st, ast.Assign) and len(st.targets) == 1 and isinstance(st.targets[0], ast.Name) and isinstance(st.value, ast.Name) and st.value.id in names:
                names.add(st.targets[0].id)
    for c in ast.walk(body):
        if isinstance(c, ast.Call) and isinstance(c.func, ast.Attribute) and norm(c.func.value) in names and c.func.attr in ("pop", "discard", "remove", "difference_update", "clear", "intersection_update"):
            removals.append(c)
        elif isinstance(c, ast.AugAssign) and isinstance(c.op, (ast.Sub, ast.BitAnd)) and norm(c.target) in names:
            removals.append(ast.Call(ast.Attribute(c.target, "difference_update", ast.Load()), [c.value], [], lineno=c.lineno, col_offset=c.col_offset))
    # the work set handed to another method of the finder (a helper that walks up from one hash): what that method removes from
    # its parameter, it removes from the work set
    for c in list(ast.walk(body)):
        if isinstance(c, ast.Call) and isinstance(c.func, ast.Attribute) and norm(c.func.value) == "self" and f.cls is not None:
            callee = ctx.p.lookup_method(f.cls, c.func.attr)
            if callee is None or callee is f:
                continue
            cps = [a.arg for a in callee.node.args.args][1:]
            for i, a in enumerate(c.args):
                if isinstance(a, ast.Name) and a.id in names and i < len(cps):
                    for c2 in ast.walk(callee.node):
                        if isinstance(c2, ast.Call) and isinstance(c2.func, ast.Attribute) and norm(c2.func.value) == cps[i] and c2.func.attr in ("pop", "discard", "remove", "difference_update", "clear", "intersection_update"):
                            if c2.func.attr != "pop":
                                removals.append(ast.Call(ast.Attribute(ast.Name(ws, ast.Load()), c2.func.attr, ast.Load()), c2.args, [], lineno=c2.lineno, col_offset=c2.col_offset))
    for c in removals:
        ctx.check(c.func.attr == "pop", "work-set-removal:%s" % c.func.attr, ctx.where(f, c),
                  "meld_new_hashes removes an element from the work set with `%s`; elements taken by pop() become the bottom of a path and have descendents_by_top consulted for them, an element removed any other way is never looked up there, "
                  "so orphan subtrees waiting on it are never joined (arrival orders where the parent arrives in the same batch as another of its children)" % norm(c), what="removal:%s" % norm(c), sample={"removal": norm(c)})
    ctx.check(any(c.func.attr == "pop" for c in removals), "work-set-pop", ctx.where(f), "meld_new_hashes does not consume the work set by pop()")
    _refcheck(ctx, CF, "ChainFinder.meld_new_hashes", "cf_meld", "meld")
    _refcheck(ctx, CF, "ChainFinder.load_nodes", "cf_load_nodes", "load-dedup")
    # every hash that is new in a batch goes through the meld, interior nodes of the batch included (same reason): the set handed
    # to meld_new_hashes is the set load_nodes collected, not a part of it
    ln = ctx.func(CF, "ChainFinder.load_nodes")
    wl = sym.walk(ctx, ln)
    mc = sym.calls_matching(wl, ".meld_new_hashes")
    if not mc:
        ctx.undecided("meld-gets-every-new-hash", ctx.where(ln), "load_nodes does not call meld_new_hashes")
    for e in mc:
        a = e.call.args[0] if e.call.args else None
        part = a is not None and ((isinstance(a, ast.BinOp) and isinstance(a.op, (ast.Sub, ast.BitAnd))) or (isinstance(a, ast.Call) and isinstance(a.func, ast.Attribute) and a.func.attr in ("difference", "intersection"))
                                  or (isinstance(a, (ast.SetComp, ast.ListComp, ast.GeneratorExp)) and any(g.ifs for g in a.generators)))
        ctx.check(not part, "meld-gets-every-new-hash", ctx.where(ln, e.node), "load_nodes hands `%s` to meld_new_hashes: only a part of the batch's new hashes is melded; a new block that is skipped never has the orphan trees waiting on it joined" % (norm(a)[:80] if a is not None else ""),
                  sample={"melded": norm(a)[:60] if a is not None else None})


# ------------------------------------------------------------------ C15.5
def c15_5(ctx):
    a = ctx.func(BC, "BlockChain.add_headers")
    it = ctx.p.functions.get(a.qualname + ".iterate")
    if it is None:
        raise Undecided("add_headers has no inner generator `iterate` any more")
    w = sym.walk(ctx, it)
    known = {"truthy(self.is_hash_known(header.hash()))", "header.hash() in self.hash_to_index_lookup"}
    ys = [e for e in w.effects if e.kind == "yield"]
    if not ys:
        raise Undecided("add_headers.iterate yields nothing")
    for e in ys:
        ops = gi.f_opaques(e.reach) if e.reach not in (True, False) else []
        ks = [o for o in ops if o in known]
        ok = bool(ks) and all(sym.entails(e.reach, ("not", ("op", k))) for k in ks)
        ctx.check(ok, "known-hashes-skipped", ctx.where(it, e.node),
                  "add_headers hands every delivered header to the finder (guards %s); after lock_to_index the rebuilt finder no longer knows the locked hashes while hash_to_index_lookup does, so a re-delivered locked header is loaded "
                  "as a new root and its descendants drop out of the reported chain" % ops, sample={"guards": ops})
    _refcheck(ctx, BC, "BlockChain.add_headers.iterate", "bc_add_headers_iterate", "header-registration")
    _refcheck(ctx, BC, "BlockChain.is_hash_known", "bc_is_hash_known", "known-definition")
    _refcheck(ctx, BC, "BlockChain.lock_to_index.iterate", "bc_lock_iterate", "rebuild-keeps-all-trees")
    # `known` is membership in the index map: the truth of an INDEX is no test (the first block of the chain has index 0)
    kn = ctx.func(BC, "BlockChain.is_hash_known")
    tf = sym.truth_formula(sym.walk(ctx, kn))
    tat = [a for a in (gi.f_opaques(tf) if tf not in (True, False) else []) if isinstance(a, str)]
    falsy_index = [a for a in tat if a.startswith("truthy(") and ("index_for_hash(" in a or "hash_to_index_lookup.get(" in a or "hash_to_index_lookup[" in a)]
    member = [a for a in tat if " in self.hash_to_index_lookup" in a or " is None" in a]
    if falsy_index:
        ctx.bad("known-is-membership", ctx.where(kn), "BlockChain.is_hash_known answers by the truth of `%s`: the block at index 0 has a falsy index and is reported as unknown, so its re-delivery is loaded as a new root" % falsy_index[0][:70])
    elif member or any(re.search(r" in self\.\w+$", a) for a in tat):
        member = member or [a for a in tat if re.search(r" in self\.\w+$", a)]
        ctx.ok("known-is-membership", sample={"test": member[0][:70]})
        # a locked block stays known: locking removes nothing from the table `known` is read from (after lock_to_index the rebuilt
        # finder no longer has the locked hashes, so that table is the only thing between a re-delivered locked header and the finder)
        tabs = {m_.group(1) for a in member for m_ in [re.search(r" in self\.(\w+)$", a)] if m_}
        lk = ctx.func(BC, "BlockChain.lock_to_index")
        for tb in sorted(tabs):
            gone = [n for n in ast.walk(lk.node) if (isinstance(n, ast.Delete) and any(isinstance(t_, ast.Subscript) and norm(t_.value) == "self." + tb for t_ in n.targets)) or
                    (isinstance(n, ast.Call) and isinstance(n.func, ast.Attribute) and n.func.attr in ("pop", "popitem", "clear") and norm(n.func.value) == "self." + tb)]
            ctx.check(not gone, "locked-blocks-stay-known:%s" % tb, ctx.where(lk, gone[0]) if gone else ctx.where(lk),
                      "BlockChain.lock_to_index removes entries from self.%s, the table is_hash_known answers from: a locked block is then in neither that table nor the rebuilt finder, its re-delivered header is registered as new and the reported chain collapses to the locked prefix" % tb,
                      sample={"known_table": tb, "removals_in_lock_to_index": len(gone)})
    else:
        ctx.undecided("known-is-membership", ctx.where(kn), "BlockChain.is_hash_known decides on %s; this rule reads membership / `is None` tests" % tat[:2])
    # the finder rebuilt by lock_to_index is seeded from ALL trees of the old one (orphan subtrees still waiting for a parent are
    # trees too), not from a selection of them
    lk = ctx.p.functions.get(ctx.func(BC, "BlockChain.lock_to_index").qualname + ".iterate")
    if lk is None:
        ctx.undecided("rebuild-from-all-trees", ctx.where(ctx.func(BC, "BlockChain.lock_to_index")), "lock_to_index has no inner generator `iterate`")
    else:
        loops = [n for n in ast.walk(sym.expanded(ctx, lk)) if isinstance(n, ast.For)]
        srcs = [norm(n.iter) for n in loops if "chain_finder" in norm(n.iter)]
        if not srcs:
            ctx.undecided("rebuild-from-all-trees", ctx.where(lk), "lock_to_index.iterate does not loop over anything of the old finder")
        for t in srcs:
            if "trees_from_bottom" in t:
                ctx.ok("rebuild-from-all-trees", sample={"rebuilt_from": t[:60]})
            elif any(k in t for k in ("all_chains_ending_at(", "maximum_path(", "find_ancestral_path(", "descendents_by_top")):
                ctx.bad("rebuild-from-all-trees", ctx.where(lk), "lock_to_index rebuilds the finder from `%s`: only the trees selected there survive the lock; orphan subtrees still waiting for a missing parent are dropped and can never join the chain" % t[:80])
            else:
                ctx.undecided("rebuild-from-all-trees", ctx.where(lk), "lock_to_index rebuilds the finder from `%s`; this rule reads trees_from_bottom / the selecting queries" % t[:80])


OBLIGATIONS = [
    Ob("C15.1", "selection idiom: weight = current sum, strict argmax, memo reset on delivery and kept (as remainder) on lock", c15_1, floor=4, engines="SYM,EF", breaks_if="forks with ties; memoised weights across lock_to_index"),
    Ob("C15.2", "add/remove operations and hash_to_index_lookup change in lock-step with one index expression", c15_2, floor=3, engines="SYM"),
    Ob("C15.3", "index read-back, lock order, common ancestor and candidate enumeration equal the reference transcription", c15_3, floor=6, engines="SYM"),
    Ob("C15.4", "work-set consumption consistency in meld_new_hashes (pop only)", c15_4, floor=4, engines="DF,SYM", breaks_if="orphan subtree waiting on a block that arrives in the same batch as another of its children"),
    Ob("C15.5", "one notion of `known hash`; the rebuilt finder keeps every tree", c15_5, floor=4, engines="SYM", breaks_if="re-delivery of a locked header; orphans delivered before a lock"),
]
