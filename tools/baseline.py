#!/venv/bin/python
"""Run the pinned suite on a tree (default /repo) and compare with BASELINE.json stable_pass.
usage: baseline.py [repo_dir]   -> prints missing stable_pass tests; exit 0 iff none missing."""
import json, subprocess, sys, tempfile, os, xml.etree.ElementTree as ET
repo = sys.argv[1] if len(sys.argv) > 1 else "/repo"
base = json.load(open("/root/.vp/BASELINE.json"))
want = set(base["stable_pass"])
with tempfile.TemporaryDirectory() as td:
    xml = os.path.join(td, "r.xml")
    env = dict(os.environ, PYTHONPATH=repo)
    subprocess.run(["/venv/bin/python", "-m", "pytest", "-q", "-p", "no:cacheprovider", "--timeout=900",
                    "--continue-on-collection-errors", "-n", os.environ.get("BASELINE_JOBS", "12"), "--junitxml=" + xml],
                   cwd=repo, env=env, stdout=subprocess.DEVNULL, stderr=subprocess.DEVNULL)
    passed = set()
    for tc in ET.parse(xml).getroot().iter("testcase"):
        if not any(c.tag in ("failure", "error", "skipped") for c in tc):
            passed.add("%s::%s" % (tc.get("classname"), tc.get("name")))
missing = sorted(want - passed)
print("stable_pass=%d passed_now=%d missing=%d" % (len(want), len(passed & want), len(missing)))
for m in missing[:40]:
    print("  MISSING", m)
sys.exit(1 if missing else 0)
