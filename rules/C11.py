"""C11 - base58 / bech32 codecs: structural obligations (DESIGN.md section 4, C11)."""
from __future__ import annotations

import ast

from sa.core import Ob
from sa.pm import AnalysisError, norm, body_nodes
from sa import gi, df, ru, sym
from sa.pm import Undecided
from sa.gi import IntSet, iv, GuardWalker, SymbolicAtomizer, reach_sets

B58 = "pycoin/encoding/b58.py"
BC = "pycoin/encoding/base_conversion.py"
BECH = "pycoin/contrib/bech32m.py"
PSTR = "pycoin/networks/parseable_str.py"
GRSP = "pycoin/coins/groestlcoin/parse.py"
U, E = IntSet.all(), IntSet.empty()


def _none_ret(e):
    if e.kind != "return" or e.value is None:
        return False
    v = e.value
    return isinstance(v, ast.Tuple) and all(isinstance(x, ast.Constant) and x.value is None for x in v.elts) or (isinstance(v, ast.Constant) and v.value is None)


# ------------------------------------------------------------------ C11.1
def c11_1(ctx):
    it = ctx.interp
    a = it.get("pycoin.encoding.b58", "BASE58_ALPHABET")
    ctx.check(a == b"123456789ABCDEFGHJKLMNPQRSTUVWXYZabcdefghijkmnopqrstuvwxyz", "base58-alphabet", B58 + ":1", "BASE58_ALPHABET is %r" % (a,), sample={"alphabet": a.decode() if isinstance(a, bytes) else None})
    lk = it.get("pycoin.encoding.b58", "BASE58_LOOKUP")
    ctx.check(isinstance(lk, dict) and lk == {c: i for i, c in enumerate(a)} and it.get("pycoin.encoding.b58", "BASE58_BASE") == 58, "base58-lookup", B58 + ":1", "BASE58_LOOKUP / BASE58_BASE are not derived from the alphabet")
    cs = it.get("pycoin.contrib.bech32m", "CHARSET")
    ctx.check(cs == "qpzry9x8gf2tvdw0s3jn54khce6mua7l", "bech32-charset", BECH + ":1", "CHARSET is %r" % (cs,), sample={"charset": cs})
    ctx.check(it.get("pycoin.contrib.bech32m", "BECH32M_CONST") == 0x2BC830A3, "bech32m-const", BECH + ":1", "BECH32M_CONST is wrong")
    for fn in ("bech32_polymod", "bech32_verify_checksum", "bech32_create_checksum", "bech32_hrp_expand", "bech32_encode"):
        _refcheck(ctx, BECH, fn, "bm_" + fn.replace("bech32_", "") if fn != "bech32_encode" else "bm_bech32_encode", "bech32:%s" % fn)
    e = it.get("pycoin.contrib.bech32m", "Encoding")
    ctx.check(it.getattr(e, "BECH32") != it.getattr(e, "BECH32M"), "encoding-enum", BECH + ":1", "Encoding.BECH32 and BECH32M are not distinct")


_REF = None


def _ref():
    global _REF
    if _REF is None:
        import os
        _REF = ast.parse(open(os.path.join(os.path.dirname(os.path.dirname(os.path.abspath(__file__))), "spec", "ref_text_codecs.py")).read())
    return _REF


INTS = lambda t: t in ("chk", "top", "value", "i", "const", "polymod", "pos", "max_length", "acc", "bits", "maxv", "max_acc", "frombits", "tobits", "v", "prefix", "base", "mod", "witver", "d") or t.startswith(("len(", "ord(", "generator[", "bech32_polymod(", "data[0]"))


def _refcheck(ctx, rel, dotted, refname, key, ints=None):
    fi = ctx.p.functions.get(ctx.p.module(rel).name + "." + dotted) or ctx.func(rel, dotted)
    return sym.against_reference(ctx, fi, _ref(), refname, key, ints or INTS, inline=False)


# ------------------------------------------------------------------ C11.2
def c11_2(ctx):
    f = ctx.func(BECH, "decode")
    hrpp, addrp = f.params()[:2]
    DATA = "bech32_decode(%s)[1]" % addrp
    DEC = "convertbits(%s[1:], 5, 8, False)" % DATA
    for subj, want, key in (("len(%s)" % DEC, iv(2, 40).complement(), "program-length"), ("%s[0]" % DATA, iv(17, None), "witness-version")):
        w = sym.int_walk(ctx, f, {subj})
        fr = sym.exits_formula(w, _none_ret)
        if fr is False or not gi.involves_subject(fr):
            raise Undecided("bech32m.decode has no rejecting exit deciding on `%s`" % subj)
        s = sym.must_set(fr, U, E)      # rejected whatever the other guards say
        ctx.check(s == want, key, ctx.where(f), "decode rejects %s values %s on their own; BIP173/350: exactly %s" % (subj[:40], s.fmt(), want.fmt()), sample={"subject": subj[:60], "rejected": s.fmt()})
    _refcheck(ctx, BECH, "decode", "bm_decode", "decode")
    _refcheck(ctx, BECH, "bech32_decode", "bm_bech32_decode", "bech32-decode")
    g = ctx.func(BECH, "bech32_decode")
    # mixed case is the only case rule: str.islower() / str.isupper() are False for a string without cased characters (an HRP of
    # digits or punctuation with a data part drawn from the digits of the charset), so a test built on them refuses such strings
    wg = sym.walk(ctx, g)
    case_ops = sorted({o for e in wg.exits for o in (gi.f_opaques(e.cond) if e.cond not in (True, False) else []) if isinstance(o, str) and (".islower()" in o or ".isupper()" in o)})
    ctx.check(not case_ops, "case-rule-by-comparison", ctx.where(g), "bech32_decode decides on `%s`: islower()/isupper() are False for strings without cased characters, which are then refused as if they were mixed case"
              % (case_ops[:1] or [""])[0][:80], sample={"atoms": case_ops[:2], "exits": len(wg.exits)})
    a = g.node.args
    ctx.check(len(a.defaults) == 1 and df.const_int(a.defaults[0]) == 90, "max-length-default", ctx.where(g), "max_length default is not 90")
    _refcheck(ctx, BECH, "convertbits", "bm_convertbits", "padding-rules")
    _refcheck(ctx, BECH, "encode", "bm_encode", "encode-spec")


# ------------------------------------------------------------------ C11.3
def c11_3(ctx):
    for rel, name, hashname, refname in ((B58, "a2b_hashed_base58", "double_sha256", "b58_a2b_hashed"), (PSTR, "b58_double_sha256", "double_sha256", "ps_b58_double_sha256"), (GRSP, "b58_groestl", "groestlHash", "grs_b58_groestl")):
        f = ctx.func(rel, name)
        w = sym.walk(ctx, f)
        good = [e for e in w.exits if e.kind == "return" and e.value is not None and not _none_ret(e)]
        if not good:
            raise Undecided("%s has no accepting return" % name)
        for e in good:
            ops = gi.f_opaques(e.cond) if e.cond not in (True, False) else []
            eq = [o for o in ops if " == " in o and "%s(" % hashname in o and "[:4]" in o and "[-4:]" in o]
            ok = bool(eq) and sym.entails(e.cond, ("op", eq[0])) and norm(e.value).endswith("[:-4]")
            ctx.check(ok, "checksum-dominates:%s" % name, ctx.where(f, e.node),
                      "%s returns `%s` under %s; the payload (all but the last 4 bytes) must be returned only when the first 4 bytes of %s(payload) EQUAL the 4 trailing bytes (a prefix test accepts strings shorter than a checksum)"
                      % (name, norm(e.value)[:50], ops, hashname), sample={"function": f.qualname, "guards": ops})
        _refcheck(ctx, rel, name, refname, "checksum:%s" % name)
    _refcheck(ctx, B58, "b2a_hashed_base58", "b58_b2a_hashed", "checksum-writer")
    _refcheck(ctx, B58, "is_hashed_base58_valid", "b58_is_valid", "validity-predicate")


# ------------------------------------------------------------------ C11.4
def c11_4(ctx):
    _refcheck(ctx, BC, "to_long", "bc_to_long", "leading-zero-count")
    _refcheck(ctx, BC, "from_long", "bc_from_long", "digits-only-for-positive")
    _refcheck(ctx, B58, "b2a_base58", "b58_b2a", "b2a-bases")
    _refcheck(ctx, B58, "a2b_base58", "b58_a2b", "a2b-bases")


OBLIGATIONS = [
    Ob("C11.1", "alphabets, BCH generator and checksum constants equal the standards", c11_1, floor=10, engines="TB,CE"),
    Ob("C11.2", "segwit-address decode decision guards (version, length, spec, characters, case, separator, length limit)", c11_2, floor=6, engines="SYM,GI", breaks_if="HRPs/strings without letters; version/constant mismatches"),
    Ob("C11.3", "payload returned only after the 4-byte checksum comparison (equality, not prefix)", c11_3, floor=8, engines="SYM", breaks_if="strings decoding to fewer than 4 bytes"),
    Ob("C11.4", "leading-zero bookkeeping of the radix conversion", c11_4, floor=4, engines="SYM", breaks_if="empty / all-zero byte strings"),
]
