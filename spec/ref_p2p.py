"""Reference transcriptions for C16 (peer-to-peer message codecs).  NEVER IMPORTED OR EXECUTED: parsed and compared in
canonical form (sa/sym.py) with the functions in /repo.  Reviewed against the protocol documentation
(https://en.bitcoin.it/wiki/Protocol_documentation, BIP37, BIP130, BIP152): layouts are `name:type` fields separated by
blanks, `[..]` is a compact-size count followed by that many elements, net_addr = services u64le, 16-byte address
(IPv4 mapped with 00*10 ff ff), port u16 BIG endian; inv vector = u32le type + 32-byte hash."""


# constants the transcriptions refer to by name (values from the protocol documentation)
ITEM_TYPE_TX = 1
ITEM_TYPE_BLOCK = 2
ITEM_TYPE_MERKLEBLOCK = 3
IP4_HEADER = b"\x00\x00\x00\x00\x00\x00\x00\x00\x00\x00\xff\xff"


# pycoin/message/make_parser_and_packer.py :: _make_parser
def mpp_make_parser(streamer, the_struct):
    struct_items = [s.split(':') for s in the_struct.split()]
    names = [s[0] for s in struct_items]
    types = ''.join((s[1] for s in struct_items))

    def f(message_stream: IO[bytes]) -> dict[str, Any]:
        return streamer.parse_as_dict(names, types, message_stream)
    return f


# pycoin/message/make_parser_and_packer.py :: make_parser_and_packer.pack_from_data
def mpp_pack_from_data(message_name, **kwargs):
    the_struct = message_dict[message_name]
    if not the_struct:
        return b''
    f = io.BytesIO()
    the_fields = the_struct.split(' ')
    pairs = [t.split(':') for t in the_fields]
    for name, type in pairs:
        if type[0] == '[':
            streamer.stream_struct('I', f, len(kwargs[name]))
            for v in kwargs[name]:
                if not isinstance(v, (tuple, list)):
                    v = [v]
                streamer.stream_struct(type[1:-1], f, *v)
        else:
            streamer.stream_struct(type, f, kwargs[name])
    return f.getvalue()


# pycoin/message/make_parser_and_packer.py :: make_post_unpack_alert
def mpp_post_unpack_alert(streamer):
    the_struct = 'version:L relayUntil:Q expiration:Q id:L cancel:L setCancel:[L] minVer:L maxVer:L setSubVer:[S] priority:L comment:S statusBar:S reserved:S'
    alert_submessage_parser = _make_parser(streamer, the_struct)

    def post_unpack_alert(d: dict[str, Any], f: IO[bytes]) -> dict[str, Any]:
        d1 = alert_submessage_parser(io.BytesIO(d['payload']))
        d['alert_info'] = d1
        return d
    return post_unpack_alert


# pycoin/message/make_parser_and_packer.py :: standard_streamer
def mpp_standard_streamer(parsing_functions, parse_satoshi_int=parse_satoshi_int):
    streamer = Streamer()
    streamer.register_array_count_parse(parse_satoshi_int)
    streamer.register_functions(parsing_functions)
    return streamer


# pycoin/serialize/streamer.py :: Streamer.parse_struct
def st_parse_struct(self, fmt, f):
    items = []
    i = 0
    while i < len(fmt):
        c = fmt[i]
        if c == '[':
            end = fmt.find(']', i)
            if end < 0:
                raise ValueError()
            subfmt = fmt[i + 1:end]
            count = self.array_count_parse_f(f)
            array = []
            for j in range(count):
                if len(subfmt) == 1:
                    array.append(self.parse_struct(subfmt, f)[0])
                else:
                    array.append(self.parse_struct(subfmt, f))
            items.append(tuple(array))
            i = end
        else:
            items.append(self.parse_lookup[c](f))
        i += 1
    return tuple(items)


# pycoin/serialize/streamer.py :: Streamer.stream_struct
def st_stream_struct(self, fmt, f, *args):
    for c, v in zip(fmt, args):
        self.stream_lookup[c](f, v)


# pycoin/serialize/streamer.py :: Streamer.register_functions
def st_register_functions(self, lookup):
    for c, v in lookup:
        parse_f, stream_f = v
        self.parse_lookup[c] = parse_f
        self.stream_lookup[c] = stream_f


# pycoin/serialize/streamer.py :: Streamer.register_array_count_parse
def st_register_array_count_parse(self, array_count_parse_f):
    self.array_count_parse_f = array_count_parse_f


# pycoin/message/InvItem.py :: InvItem.stream
def inv_stream(self, f):
    stream_struct('L#', f, self.item_type, self.data)


# pycoin/message/InvItem.py :: InvItem.parse
def inv_parse(cls, f):
    return cls(*parse_struct('L#', f), dont_check=True)


# pycoin/message/InvItem.py :: InvItem.__init__
def inv_init(self, item_type, data, dont_check=False):
    if not dont_check:
        assert item_type in (ITEM_TYPE_TX, ITEM_TYPE_BLOCK, ITEM_TYPE_MERKLEBLOCK)
    self.item_type = item_type
    assert isinstance(data, bytes)
    assert len(data) == 32
    self.data = data


# pycoin/message/PeerAddress.py :: PeerAddress.stream
def peer_stream(self, f):
    f.write(struct.pack('<Q', self.services))
    f.write(self.ip_bin)
    f.write(struct.pack('!H', self.port))


# pycoin/message/PeerAddress.py :: PeerAddress.parse
def peer_parse(cls, f):
    services, ip_bin, port = parse_struct('Q@h', f)
    return cls(services, ip_bin, port)


# pycoin/message/PeerAddress.py :: PeerAddress.__init__
def peer_init(self, services, ip_bin, port):
    self.services = int(services)
    assert isinstance(ip_bin, bytes)
    if len(ip_bin) == 4:
        ip_bin = IP4_HEADER + ip_bin
    assert len(ip_bin) == 16
    self.ip_bin = ip_bin
    self.port = port




def inv_parse_v2(cls, f):
    item_type, data = parse_struct('L#', f)
    return cls(item_type, data, dont_check=True)
