"""Reference transcriptions for C11 (base58 / bech32 codecs).  NEVER IMPORTED OR EXECUTED: parsed and compared in
canonical form (sa/sym.py) with the functions in /repo.  Reviewed against BIP173 / BIP350 (reference implementation
segwit_addr.py: polymod generator, checksum constants 1 and 0x2bc830a3, character range 33..126, mixed-case rule,
separator position, 90-character limit, witness program 2..40 bytes, version 0..16, v0 programs of 20 or 32 bytes, v0
uses Bech32 and v1+ Bech32m) and against Base58Check (payload || first 4 bytes of dsha256(payload); every leading zero
byte is one leading '1')."""


CHARSET = "qpzry9x8gf2tvdw0s3jn54khce6mua7l"
BECH32M_CONST = 0x2BC830A3
BASE58_ALPHABET = b"123456789ABCDEFGHJKLMNPQRSTUVWXYZabcdefghijkmnopqrstuvwxyz"
BASE58_BASE = 58


# pycoin/contrib/bech32m.py :: bech32_polymod
def bm_polymod(values):
    generator = [996825010, 642813549, 513874426, 1027748829, 705979059]
    chk = 1
    for value in values:
        top = chk >> 25
        chk = (chk & 33554431) << 5 ^ value
        for i in range(5):
            chk ^= generator[i] if top >> i & 1 else 0
    return chk


# pycoin/contrib/bech32m.py :: bech32_verify_checksum
def bm_verify_checksum(hrp, data):
    const = bech32_polymod(bech32_hrp_expand(hrp) + data)
    if const == 1:
        return Encoding.BECH32
    if const == BECH32M_CONST:
        return Encoding.BECH32M
    return None


# pycoin/contrib/bech32m.py :: bech32_create_checksum
def bm_create_checksum(hrp, data, spec):
    values = bech32_hrp_expand(hrp) + data
    const = BECH32M_CONST if spec == Encoding.BECH32M else 1
    polymod = bech32_polymod(values + [0, 0, 0, 0, 0, 0]) ^ const
    return [polymod >> 5 * (5 - i) & 31 for i in range(6)]


# pycoin/contrib/bech32m.py :: bech32_hrp_expand
def bm_hrp_expand(hrp):
    return [ord(x) >> 5 for x in hrp] + [0] + [ord(x) & 31 for x in hrp]


# pycoin/contrib/bech32m.py :: bech32_encode
def bm_bech32_encode(hrp, data, spec):
    combined = data + bech32_create_checksum(hrp, data, spec)
    return hrp + '1' + ''.join([CHARSET[d] for d in combined])


# pycoin/contrib/bech32m.py :: bech32_decode
def bm_bech32_decode(bech, max_length=90):
    if any((ord(x) < 33 or ord(x) > 126 for x in bech)) or (bech.lower() != bech and bech.upper() != bech):
        return (None, None, None)
    bech = bech.lower()
    pos = bech.rfind('1')
    if pos < 1 or pos + 7 > len(bech) or len(bech) > max_length:
        return (None, None, None)
    if not all((x in CHARSET for x in bech[pos + 1:])):
        return (None, None, None)
    hrp = bech[:pos]
    data = [CHARSET.find(x) for x in bech[pos + 1:]]
    spec = bech32_verify_checksum(hrp, data)
    if spec is None:
        return (None, None, None)
    return (hrp, data[:-6], spec)


# pycoin/contrib/bech32m.py :: convertbits
def bm_convertbits(data, frombits, tobits, pad=True):
    acc = 0
    bits = 0
    ret = []
    maxv = (1 << tobits) - 1
    max_acc = (1 << frombits + tobits - 1) - 1
    for value in data:
        if value < 0 or value >> frombits:
            return None
        acc = (acc << frombits | value) & max_acc
        bits += frombits
        while bits >= tobits:
            bits -= tobits
            ret.append(acc >> bits & maxv)
    if pad:
        if bits:
            ret.append(acc << tobits - bits & maxv)
    elif bits >= frombits or acc << tobits - bits & maxv:
        return None
    return ret


# pycoin/contrib/bech32m.py :: decode
def bm_decode(hrp, addr):
    hrpgot, data, spec = bech32_decode(addr)
    if hrpgot != hrp or data is None:
        return (None, None)
    decoded = convertbits(data[1:], 5, 8, False)
    if decoded is None or len(decoded) < 2 or len(decoded) > 40:
        return (None, None)
    if data[0] > 16:
        return (None, None)
    if data[0] == 0 and len(decoded) != 20 and (len(decoded) != 32):
        return (None, None)
    if data[0] == 0 and spec != Encoding.BECH32 or (data[0] != 0 and spec != Encoding.BECH32M):
        return (None, None)
    return (data[0], decoded)


# pycoin/contrib/bech32m.py :: encode
def bm_encode(hrp, witver, witprog):
    spec = Encoding.BECH32 if witver == 0 else Encoding.BECH32M
    converted = convertbits(witprog, 8, 5)
    if converted is None:
        return None
    ret = bech32_encode(hrp, [witver] + converted, spec)
    if decode(hrp, ret) == (None, None):
        return None
    return ret


# pycoin/encoding/b58.py :: a2b_hashed_base58
def b58_a2b_hashed(s):
    data = a2b_base58(s)
    data, the_hash = (data[:-4], data[-4:])
    if double_sha256(data)[:4] == the_hash:
        return data
    raise EncodingError()


# pycoin/encoding/b58.py :: b2a_hashed_base58
def b58_b2a_hashed(data):
    return b2a_base58(data + double_sha256(data)[:4])


# pycoin/encoding/b58.py :: is_hashed_base58_valid
def b58_is_valid(base58):
    try:
        a2b_hashed_base58(base58)
    except EncodingError:
        return False
    return True


# pycoin/encoding/b58.py :: b2a_base58
def b58_b2a(s):
    v, prefix = to_long(256, lambda x: x, s)
    s = from_long(v, prefix, BASE58_BASE, lambda v: BASE58_ALPHABET[v])
    return s.decode('utf8')


# pycoin/encoding/b58.py :: a2b_base58
def b58_a2b(s):
    v, prefix = to_long(BASE58_BASE, lambda c: BASE58_LOOKUP[c], s.encode('utf8'))
    return from_long(v, prefix, 256, lambda x: x)


# pycoin/encoding/base_conversion.py :: to_long
def bc_to_long(base, lookup_f, s):
    prefix = 0
    v = 0
    for c in s:
        v *= base
        try:
            v += lookup_f(c)
        except Exception:
            raise EncodingError()
        if v == 0:
            prefix += 1
    return (v, prefix)


# pycoin/encoding/base_conversion.py :: from_long
def bc_from_long(v, prefix, base, charset):
    ba = bytearray()
    while v > 0:
        try:
            v, mod = divmod(v, base)
            ba.append(charset(mod))
        except Exception:
            raise EncodingError()
    ba.extend([charset(0)] * prefix)
    ba.reverse()
    return bytes(ba)


# pycoin/networks/parseable_str.py :: b58_double_sha256
def ps_b58_double_sha256(s):
    data = parse_b58(s)
    if data:
        data, the_hash = (data[:-4], data[-4:])
        if double_sha256(data)[:4] == the_hash:
            return data
    return None


# pycoin/coins/groestlcoin/parse.py :: b58_groestl
def grs_b58_groestl(s):
    data = parse_b58(s)
    if data:
        data, the_hash = (data[:-4], data[-4:])
        if groestlHash(data)[:4] == the_hash:
            return data
    return None


