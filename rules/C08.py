"""C08 - addresses <-> scripts: structural obligations (DESIGN.md section 4, C08)."""
from __future__ import annotations

import ast
import glob
import os
import re

from sa.core import Ob
from sa.pm import AnalysisError, norm, body_nodes
from sa import gi, df, ru
from sa.gi import IntSet, iv, GuardWalker, SymbolicAtomizer

PARSE = "pycoin/networks/ParseAPI.py"
CAPI = "pycoin/networks/ContractAPI.py"
AAPI = "pycoin/networks/AddressAPI.py"
KEY = "pycoin/key/Key.py"
U, E = IntSet.all(), IntSet.empty()


def symbol_configs(ctx):
    if "symbols" in ctx.cache:
        return ctx.cache["symbols"]
    out = {}
    for name, m in sorted(ctx.p.modules.items()):
        if not name.startswith("pycoin.symbols.") or name.endswith("__init__"):
            continue
        for n in ast.walk(m.tree):
            if isinstance(n, ast.Call) and isinstance(n.func, ast.Name) and n.func.id == "create_bitcoinish_network":
                kw = {}
                for k in n.keywords:
                    if k.arg and isinstance(k.value, ast.Constant):
                        kw[k.arg] = k.value.value
                out[name.split(".")[-1]] = (m, n, kw)
    ctx.p.consulted.update("pycoin.symbols." + k for k in out)
    ctx.cache["symbols"] = out
    return out


def _hx(v):
    if not isinstance(v, str) or len(v) % 2 or not re.fullmatch(r"[0-9a-fA-F]*", v):
        return None
    return bytes.fromhex(v)


# ------------------------------------------------------------------ C08.1
def c08_1(ctx):
    cfgs = symbol_configs(ctx)
    if len(cfgs) < 40:
        raise AnalysisError("only %d symbol configurations found" % len(cfgs))
    hrps = {}
    for sym, (m, call, kw) in cfgs.items():
        where = "%s:%d" % (m.relpath, call.lineno)
        for k, v in kw.items():
            if k.endswith("_hex"):
                ctx.check(_hx(v) is not None and len(v) > 0, "hex:%s:%s" % (sym, k), where, "%s: %s = %r is not a hex literal" % (sym, k, v), what="hex:%s:%s" % (sym, k), sample=None)
        a, p, w = _hx(kw.get("address_prefix_hex", "")), _hx(kw.get("pay_to_script_prefix_hex", "")), _hx(kw.get("wif_prefix_hex", ""))
        if a and p:
            ctx.check(a != p, "p2pkh-vs-p2sh:%s" % sym, where, "%s: P2PKH and P2SH addresses share the version prefix %s: both carry a 20-byte hash, so an address denotes two different scripts" % (sym, a.hex()),
                      sample={"network": sym, "address_prefix": a.hex(), "pay_to_script_prefix": p.hex(), "wif_prefix": w.hex() if w else None} if sym in ("btc", "polis", "pivx") else None)
        # same total length + same leading bytes would make two kinds indistinguishable; WIF differs in length (32/33 vs 20) and is separated by the length guards
        for k1, k2 in (("bip32_prv_prefix_hex", "bip32_pub_prefix_hex"), ("bip49_prv_prefix_hex", "bip49_pub_prefix_hex"), ("bip84_prv_prefix_hex", "bip84_pub_prefix_hex")):
            v1, v2 = _hx(kw.get(k1, "")), _hx(kw.get(k2, ""))
            if v1 or v2:
                ctx.check(bool(v1) and bool(v2) and len(v1) == 4 and len(v2) == 4 and v1 != v2, "extkey-prefix:%s:%s" % (sym, k1[:5]), where,
                          "%s: %s/%s = %s/%s must be two different 4-byte prefixes" % (sym, k1, k2, kw.get(k1), kw.get(k2)), what="ext:%s:%s" % (sym, k1[:5]), sample=None)
        h = kw.get("bech32_hrp")
        if h is not None:
            ctx.check(isinstance(h, str) and h == h.lower() and h != "" and all(33 <= ord(c) <= 126 for c in h), "hrp:%s" % sym, where, "%s: bech32_hrp %r is not a lower-case printable string" % (sym, h), sample=None)
            hrps.setdefault(h, []).append(sym)
    pre = sorted((a, b) for a in hrps for b in hrps if a != b and b.startswith(a))
    ctx.note("HRP pairs where one is a prefix of the other (so HRP comparison must be equality): %s" % pre[:6])
    ctx.cache["hrp_prefix_pairs"] = pre
    # the configuration reaches the APIs under the same names
    f = ctx.func("pycoin/networks/bitcoinish.py", "create_bitcoinish_network")
    t = norm(f.node)
    ctx.check("network.parse = parse_api_class(network, **ui_kwargs)" in t and "network.address = make_address_api(network.contract, **ui_kwargs)" in t and "kwargs[k] = h2b(kwargs[k_hex])" in t, "config-plumbing", ctx.where(f),
              "create_bitcoinish_network does not hand the same decoded prefixes to the parser and to the address encoder")


# ------------------------------------------------------------------ C08.2
def c08_2(ctx):
    for fn, attr, builder in (("p2pkh", "self._address_prefix", "for_p2pkh"), ("p2sh", "self._pay_to_script_prefix", "for_p2sh")):
        f = ctx.func(PARSE, "ParseAPI." + fn)
        d = df.single_defs(f.node)
        sz = d.get("size")
        ctx.check(sz is not None and norm(sz) == "len(%s)" % attr, "prefix-length:%s" % fn, ctx.where(f),
                  "ParseAPI.%s strips `%s` bytes; the payload starts after the prefix it matched (%s): on networks whose two address prefixes differ in length the hash is cut at the wrong offset"
                  % (fn, norm(sz) if sz is not None else None, attr), sample={"function": fn, "size": norm(sz) if sz is not None else None})
        sw = [c for c in df.calls_in(f.node) if df.last_attr(c) == "startswith"]
        ctx.check(len(sw) == 1 and norm(sw[0].args[0]) == attr, "prefix-matched:%s" % fn, ctx.where(f), "ParseAPI.%s does not match the payload against %s" % (fn, attr))
        const = ru.const_resolver(ctx, f, {"size"})
        w = GuardWalker(SymbolicAtomizer(ru.subject({"len(data)"}), const))
        ex = w.run(f.node.body)
        acc = [e for e in ex if e.kind == "return" and not (isinstance(e.value, ast.Constant) and e.value.value is None)]
        s = E
        for e in acc:
            s = s | gi.sat_set(e.cond, U, E)
        want = iv(("s", 20), ("s", 20))
        ctx.check(s == want and len(acc) == 1, "payload-length:%s" % fn, ctx.where(f),
                  "ParseAPI.%s accepts payloads of total length %s; an address carries exactly a 20-byte hash after the prefix (%s)" % (fn, s.fmt("len(prefix)"), want.fmt("len(prefix)")),
                  sample={"function": fn, "subject": "len(data)", "accepted": s.fmt("len(prefix)")})
        bc = [c for c in df.calls_in(f.node) if df.last_attr(c) == builder]
        ctx.check(len(bc) == 1 and norm(bc[0].args[0]) == "data[size:]", "script-builder:%s" % fn, ctx.where(f), "ParseAPI.%s does not build the script with %s(data[size:])" % (fn, builder))
    f = ctx.func(PARSE, "ParseAPI._bech32m")
    w = GuardWalker(ru.opaque)
    ex = w.run(f.node.body)
    acc = [e for e in ex if e.kind == "return" and not (isinstance(e.value, ast.Constant) and e.value.value is None)]
    if len(acc) != 1:
        raise AnalysisError("_bech32m: expected one accepting return")
    c = acc[0].cond
    from rules.C01 import can_be

    def refuses(atom):
        return atom in gi.f_opaques(c) and not can_be(gi.f_and(c, ("op", atom)), "\0")
    ctx.check(refuses("hr_prefix != self._bech32_hrp") or refuses("self._bech32_hrp != hr_prefix"), "hrp-equality", ctx.where(f),
              "ParseAPI._bech32m does not refuse every address whose human-readable part differs from the network's (guards: %s); networks exist whose HRP is a prefix of another's (%s), so anything weaker than equality accepts foreign addresses"
              % (gi.f_opaques(c), ctx.cache.get("hrp_prefix_pairs", [])[:3]), sample={"guards": gi.f_opaques(c)})
    ctx.check(refuses("len(decoded_data) != blob_len"), "program-length", ctx.where(f), "_bech32m does not refuse programs of the wrong length")
    ctx.check(refuses("expected_version != version") or refuses("version != expected_version"), "witness-version", ctx.where(f), "_bech32m does not refuse other witness versions")
    for nm, args in (("p2pkh_segwit", "(s, 0, 20, 'for_p2pkh_wit')"), ("p2sh_segwit", "(s, 0, 32, 'for_p2sh_wit')"), ("p2tr", "(s, 1, 32, 'for_p2tr')")):
        g = ctx.func(PARSE, "ParseAPI." + nm)
        ctx.check("return self._bech32m%s" % args in norm(g.node), "segwit-kind:%s" % nm, ctx.where(g), "ParseAPI.%s is not _bech32m%s" % (nm, args))
    a = ctx.func(PARSE, "ParseAPI.address")
    t = norm(a.node)
    ctx.check("self.p2pkh(ps) or self.p2sh(ps) or self.p2pkh_segwit(ps) or self.p2sh_segwit(ps) or self.p2tr(ps)" in t, "address-dispatch", ctx.where(a), "ParseAPI.address does not try the five address kinds")


# ------------------------------------------------------------------ C08.3
def _templates(ctx):
    c = ctx.p.cls(CAPI, "ContractAPI")
    d = c.attrs.get("_SCRIPT_LOOKUP")
    out = {}
    if isinstance(d, ast.Call) and norm(d.func) == "dict":
        for k in d.keywords:
            lam = k.value
            if isinstance(lam, ast.Lambda) and isinstance(lam.body, ast.BinOp) and isinstance(lam.body.op, ast.Mod) and isinstance(lam.body.left, ast.Constant):
                fields = re.findall(r"info\.get\('(\w+)'\)", norm(lam.body.right))
                out[k.arg] = (lam.body.left.value, fields)
    return out


def c08_3(ctx):
    tp = _templates(ctx)
    f = ctx.func(CAPI, "ContractAPI.info_for_script")
    # (template text, returned dict literal) pairs in info_for_script
    pairs = []
    body = f.node.body
    for i, st in enumerate(body):
        if isinstance(st, ast.Assign) and isinstance(st.value, ast.Call) and df.last_attr(st.value) == "match" and isinstance(st.value.args[0], ast.Constant):
            tmpl = st.value.args[0].value
            nxt = body[i + 1] if i + 1 < len(body) else None
            rets = [r for r in ast.walk(nxt) if isinstance(r, ast.Return)] if nxt is not None else []
            for r in rets:
                if isinstance(r.value, ast.Call) and norm(r.value.func) == "dict":
                    kw = {k.arg: norm(k.value) for k in r.value.keywords}
                    pairs.append((tmpl, kw))
    want_placeholder = {"p2pkh": ("PUBKEYHASH", "hash160"), "p2sh": ("PUBKEYHASH", "hash160"), "p2pk": ("PUBKEY", "sec"), "p2pkh_wit": ("SEGWIT", "hash160"), "p2sh_wit": ("SEGWIT", "hash256"), "p2tr": ("SYNTHETIC_KEY", "synthetic_key")}
    seen = set()
    for tmpl, kw in pairs:
        typ = kw.get("type", "").strip("'")
        if typ not in tp:
            continue
        seen.add(typ)
        btmpl, fields = tp[typ]
        ph, field = want_placeholder[typ]
        canon = re.sub(r"'%s'" % ph, "%s", tmpl)
        ctx.check(canon == btmpl and fields == [field] and field in kw, "template:%s" % typ, ctx.where(f),
                  "script type %s is recognised by template `%s` but built from `%s` (field %s): a script reported as %s would not be rebuilt byte for byte" % (typ, tmpl, btmpl, fields, typ),
                  sample={"type": typ, "matcher": tmpl, "builder": btmpl})
    ctx.check(seen == set(want_placeholder), "template-coverage", ctx.where(f), "info_for_script does not cover %s" % sorted(set(want_placeholder) - seen))
    ms = tp.get("multisig")
    ctx.check(ms is not None and ms[0] == "%d %s %d OP_CHECKMULTISIG", "multisig-builder", CAPI + ":1", "multisig scripts are not built as m <keys> n OP_CHECKMULTISIG")
    g = ctx.func(AAPI, "AddressAPI.for_script_info")
    w = GuardWalker(ru.opaque)
    ex = w.run(g.node.body)
    route = {}
    for e in ex:
        if e.kind == "return" and isinstance(e.value, ast.Call):
            for o in gi.f_opaques(e.cond):
                m = re.match(r"type_ == '(\w+)'", o)
                if m and gi.f_equiv(gi.f_and(e.cond, ("op", o)), e.cond) and sum(1 for o2 in gi.f_opaques(e.cond) if re.match(r"type_ == ", o2) and not _negated(e.cond, o2)) == 1:
                    route[m.group(1)] = norm(e.value)
    want = {"p2pkh": "self.for_p2pkh(script_info['hash160'])", "p2pkh_wit": "self.for_p2pkh_wit(script_info['hash160'])", "p2sh_wit": "self.for_p2sh_wit(script_info['hash256'])",
            "p2sh": "self.for_p2sh(script_info['hash160'])", "p2tr": "self.for_p2tr(script_info['synthetic_key'])"}
    for k, v in want.items():
        ctx.check(route.get(k) == v, "address-route:%s" % k, ctx.where(g), "for_script_info routes type %s to `%s`, expected `%s`" % (k, route.get(k), v), sample={"type": k, "route": route.get(k)})
    for nm, pre, n in (("for_p2pkh", "self._address_prefix", None), ("for_p2sh", "self._pay_to_script_prefix", None)):
        h = ctx.func(AAPI, "AddressAPI." + nm)
        ctx.check("return self.b2a(%s + h160)" % pre in norm(h.node) and "if %s is None:" % pre in norm(h.node), "address-encoder:%s" % nm, ctx.where(h), "AddressAPI.%s is not b2a(%s + hash)" % (nm, pre))
    for nm, ver, ln in (("for_p2pkh_wit", 0, 20), ("for_p2sh_wit", 0, 32), ("for_p2tr", 1, None)):
        h = ctx.func(AAPI, "AddressAPI." + nm)
        arg = h.params()[1]
        ctx.check("return bech32m.encode(self._bech32_hrp, %d, %s)" % (ver, arg) in norm(h.node), "segwit-encoder:%s" % nm, ctx.where(h), "AddressAPI.%s does not encode witness version %d with the network HRP" % (nm, ver))


def _negated(cond, atom):
    from rules.C01 import can_be
    return not can_be(gi.f_and(cond, ("op", atom)), "\0")


# ------------------------------------------------------------------ C08.4
def c08_4(ctx):
    capi = ctx.p.cls(CAPI, "ContractAPI")
    f = capi.methods.get("_is_nonminimal_push")
    if f is None:
        ctx.bad("minimal-push-definition", "%s:%d" % (CAPI, capi.node.lineno), "ContractAPI has no minimal-push predicate tied to the push encoder (compile_push_data): classification cannot be faithful to for_info's rebuild")
    else:
        op, data = f.params()[1:3]
        d = df.single_defs(f.node)
        rets = df.returns_of(f.node)
        ok = False
        if len(rets) == 1:
            e = df.expand(rets[0].value, d)
            t = norm(e)
            enc = "self._script_tools.scriptStreamer.compile_push_data(%s)" % data
            ok = t in ("bool(%s[0] != %s)" % (enc, op), "%s[0] != %s" % (enc, op), "%s != %s[0]" % (op, enc), "bool(%s != %s[0])" % (op, enc), "%s[:1] != bytes([%s])" % (enc, op))
        ctx.check(ok, "minimal-push-definition", ctx.where(f),
                  "_is_nonminimal_push is `%s`; a push is minimal exactly when its opcode is the one the encoder (compile_push_data) would choose for that data, because for_info rebuilds scripts with the encoder"
                  % (norm(rets[0].value) if rets else None), sample={"definition": norm(df.expand(rets[0].value, d)) if rets else None})
    m = ctx.func(CAPI, "ContractAPI.match")
    from sa.gi import FiniteAtomizer
    from sa.interp import Frame
    it = ctx.interp
    mv = it.module(m.module.name)
    kinds = [b"PUBKEY", b"PUBKEYHASH", b"SEGWIT", b"DATA", b"SYNTHETIC_KEY", b"\x00other"]
    fa = FiniteAtomizer(kinds, lambda e, v: bool(it.eval(e, Frame(mv, None, {"data2": v}))))
    w = GuardWalker(fa)
    w.run(m.node.body)
    appends = [(st, r) for st, r in w.visits if isinstance(st, ast.Expr) and ".append(data1)" in norm(st)]
    placeholder = {"r['PUBKEY_LIST']": b"PUBKEY", "r['PUBKEYHASH_LIST']": b"PUBKEYHASH", "r['SEGWIT_LIST']": b"SEGWIT", "r['SYNTHETIC_KEY']": b"SYNTHETIC_KEY", "r['DATA_LIST']": b"DATA"}
    for st, r in appends:
        lst = norm(st.value.func.value)
        if lst == "r['DATA_LIST']":
            continue
        nm = "self._is_nonminimal_push(opcode1, data1)"
        kind = placeholder.get(lst)
        reached = gi.sat_set(r, fa.univ(), fa.empty()).m
        with_nonmin = gi.sat_set(gi.f_and(r, ("op", nm)), fa.univ(), fa.empty()).m if nm in gi.f_opaques(r) else reached
        with_none = gi.sat_set(gi.f_and(r, ("op", "data1 is None")), fa.univ(), fa.empty()).m if "data1 is None" in gi.f_opaques(r) else reached
        ok = reached == {kind} and kind not in with_nonmin and kind not in with_none
        ctx.check(ok, "classifier-minimal-push:%s" % lst, ctx.where(m, st), "ContractAPI.match records %s (reached for template placeholders %s) without requiring the minimal push opcode: a non-minimally pushed hash/key is classified as a standard script although rebuilding it gives other bytes"
                  % (lst, sorted(reached)), sample={"list": lst, "placeholder": kind.decode()})
    ctx.check(len(appends) >= 5, "classifier-placeholders", ctx.where(m), "ContractAPI.match placeholder branches not found")
    s, n = E, 0
    for subj, want in (("l1", None),):
        pass
    # placeholder length constraints
    w2 = GuardWalker(SymbolicAtomizer(ru.subject({"l1"}), lambda e: int(v) if (v := _num(e)) is not None else None))
    w2.run(m.node.body)
    got = {}
    for st, r in w2.visits:
        if isinstance(st, ast.Expr) and ".append(data1)" in norm(st):
            got[norm(st.value.func.value)] = gi.sat_set(r, U, E, assume={"data1 is None": False})
    want = {"r['PUBKEY_LIST']": iv(33, 120), "r['PUBKEYHASH_LIST']": iv(20, 20), "r['SEGWIT_LIST']": iv(20, 20) | iv(32, 32), "r['SYNTHETIC_KEY']": iv(32, 32)}
    for k, v in want.items():
        ctx.check(got.get(k) == v, "placeholder-length:%s" % k, ctx.where(m), "match accepts %s of lengths %s, expected %s" % (k, got.get(k).fmt() if k in got else None, v.fmt()), sample={"placeholder": k, "lengths": got.get(k).fmt() if k in got else None})
    ctx.check("elif (opcode1, data1) != (opcode2, data2):" in norm(m.node), "literal-opcodes-compared", ctx.where(m), "match does not compare non-placeholder instructions exactly")
    g = ctx.func(CAPI, "ContractAPI._info_from_multisig_script")
    t = norm(g.node)
    ctx.check("if self._is_nonminimal_push(opcode, data):" in t, "multisig-minimal-keys", ctx.where(g), "the multisig classifier accepts non-minimally pushed keys")
    const = ru.const_resolver(ctx, g, set(), extra=lambda e: {"OP_1": 81, "OP_16": 96}.get(norm(e)))
    w3 = GuardWalker(SymbolicAtomizer(ru.subject({"opcode"}), const))
    ex = w3.run(g.node.body)
    acc = [e for e in ex if e.kind == "return" and isinstance(e.value, ast.Call)]
    s = E
    for e in acc:
        s = s | gi.sat_set(e.cond, U, E)
    # `opcode` is re-read several times; the accepted set is the intersection of all range tests and the final equality with CHECKMULTISIG is opaque
    rng = [n_ for n_ in body_nodes(g.node) if isinstance(n_, ast.If) and "OP_1 <= opcode" in norm(n_.test)]
    ctx.check(len(rng) == 2 and norm(rng[1].test) == "not OP_1 <= opcode <= OP_16", "multisig-n-range", ctx.where(g), "the multisig classifier does not require the key-count opcode to be OP_1..OP_16 (tests: %s)" % [norm(r.test) for r in rng],
              sample={"range_tests": [norm(r.test) for r in rng]})
    ctx.check("if m > n or len(sec_keys) != n:" in t and "if opcode != OP_CHECKMULTISIG:" in t and "if pc != len(script):" in t, "multisig-shape", ctx.where(g), "the multisig classifier does not check m <= n == number of keys, the final opcode and the script end")


def _num(e):
    v = df.const_int(e)
    if v is not None:
        return v
    if isinstance(e, ast.BinOp) and isinstance(e.op, ast.Div):
        a, b = df.const_int(e.left), df.const_int(e.right)
        if a is not None and b and a % b == 0:
            return a // b
    return None


# ------------------------------------------------------------------ C08.5
def c08_5(ctx):
    k = ctx.func(KEY, "Key.address")
    ctx.check("return self._network.address.for_p2pkh(self.hash160(is_compressed=is_compressed))" in norm(k.node), "key-address", ctx.where(k), "Key.address is not the P2PKH address of hash160(sec)")
    h = ctx.func(KEY, "Key.hash160")
    t = norm(h.node)
    ctx.check("self._hash160_compressed = hash160(self.sec(is_compressed=is_compressed))" in t and "self._hash160_uncompressed = hash160(self.sec(is_compressed=is_compressed))" in t, "key-hash160", ctx.where(h), "Key.hash160 is not hash160 of the SEC encoding with the requested compression")
    w = GuardWalker(ru.opaque)
    ex = w.run(h.node.body)
    rc = [e for e in ex if e.kind == "return" and norm(e.value) == "self._hash160_compressed"]
    ru_ = [e for e in ex if e.kind == "return" and norm(e.value) == "self._hash160_uncompressed"]
    from rules.C01 import can_be
    ok = len(rc) == 1 and len(ru_) == 1 and not can_be(gi.f_and(rc[0].cond, ("not", ("op", "is_compressed"))), "\0") and not can_be(gi.f_and(ru_[0].cond, ("op", "is_compressed")), "\0")
    ctx.check(ok, "hash160-memo-by-compression", ctx.where(h), "Key.hash160 returns the memo of the other compression form")
    b49 = ctx.func("pycoin/key/BIP49Node.py", "BIP49Node.address")
    t = norm(b49.node)
    ctx.check("underlying_script = self._network.contract.for_p2pkh_wit(pk_hash)" in t and "return self._network.address.for_p2s(underlying_script)" in t, "bip49-address", ctx.where(b49), "BIP49 address is not P2SH(P2WPKH(hash160))")
    b84 = ctx.func("pycoin/key/BIP84Node.py", "BIP84Node.address")
    ctx.check("return self._network.address.for_p2pkh_wit(pk_hash)" in norm(b84.node), "bip84-address", ctx.where(b84), "BIP84 address is not P2WPKH(hash160)")
    c = ctx.func(CAPI, "ContractAPI.for_p2s")
    ctx.check("return self.for_p2sh(hash160(underlying_script))" in norm(c.node), "p2s-script", ctx.where(c), "for_p2s is not P2SH of hash160(script)")
    a = ctx.func(AAPI, "AddressAPI.for_p2s")
    ctx.check("return self.for_p2sh(hash160(script))" in norm(a.node), "p2s-address", ctx.where(a), "AddressAPI.for_p2s is not the P2SH address of hash160(script)")


OBLIGATIONS = [
    Ob("C08.1", "all symbol configurations: hex literals, P2PKH != P2SH prefix, extended-key prefixes, HRPs", c08_1, floor=150, engines="TB", exhaustive=True, breaks_if="a network whose two address prefixes collide"),
    Ob("C08.2", "payload length == prefix length + 20 with the matched prefix; HRP equality; segwit kinds", c08_2, floor=14, engines="GI,DF", breaks_if="MZC / PIVX (prefixes of different length); bc vs bcrt"),
    Ob("C08.3", "builder templates equal matcher templates; type -> address routing", c08_3, floor=16, engines="SIB,CE"),
    Ob("C08.4", "classification requires the encoder's minimal push; placeholder lengths; multisig n range", c08_4, floor=12, engines="DF,GI", breaks_if="76..120-byte keys pushed with PUSHDATA2/4"),
    Ob("C08.5", "key -> address routing (P2PKH, BIP49, BIP84), hash160 memo per compression form", c08_5, floor=7, engines="DF,CG"),
]
