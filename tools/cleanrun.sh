#!/bin/bash
# cleanrun.sh: all twenty quick checks on /repo's working tree in parallel; prints one line per check that does not exit 0 and every
# VIOLATED / UNDECIDED / ANALYSIS-ERROR line (nothing at all on a clean tree except the KNOWN-FINDING lines)
cd /verif
for i in $(seq -w 1 20); do ( ./check C$i --no-evidence > /tmp/cleanrun-C$i.log 2>&1; c=$?; [ $c -ne 0 ] && echo "C$i exit $c" ) & done 2>/dev/null
wait 2>/dev/null
grep -h -E "^(VIOLATION|VIOLATED|UNDECIDED|ANALYSIS-ERROR)" /tmp/cleanrun-C*.log | cut -c1-300
rm -f /tmp/cleanrun-C*.log
echo "cleanrun done"
