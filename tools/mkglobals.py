#!/venv/bin/python
"""mkglobals.py: write spec/mod/GLOBALS.json, the reviewed tree's inventory of module-level objects and of the functions that change
one of them in place after import (sa/shared_state.py).  Run on the reviewed tree only (after a fix: commit, with mkmodref / mkdigests)."""
import json, os, sys
sys.path.insert(0, os.path.dirname(os.path.dirname(os.path.abspath(__file__))))
from sa.pm import Program
from sa import shared_state
inv = shared_state.inventory(Program())
json.dump(inv, open(os.path.join(os.path.dirname(os.path.dirname(os.path.abspath(__file__))), "spec", "mod", "GLOBALS.json"), "w"), indent=1, sort_keys=True)
print("objects: %d in %d modules; runtime writes: %d" % (sum(len(v) for v in inv["objects"].values()), len(inv["objects"]), len(inv["writes"])))
for w in inv["writes"]:
    print("  ", w)
