"""Reference transcriptions for small encoders / decoders (C10, C11, C12 ...).  NEVER IMPORTED OR EXECUTED: parsed and
compared in canonical form with the functions in /repo (sa/sym.py).  Exception messages are not part of the comparison.

  * DER (X.690 8.1.3 / 8.3, as restricted by BIP66): SEQUENCE tag 0x30, INTEGER tag 0x02, definite lengths short / long
    form, two's complement integers (a leading 00 exactly when the top bit of the magnitude is set); the lenient
    (`use_broken_open_ssl_mechanism`) mode reads negative encodings as positive and ignores trailing bytes.
  * SEC1 2.3.3/2.3.4: 04||X||Y, 02/03||X with the parity of Y; hybrid 06/07 only outside strict mode.
"""


# ---------------------------------------------------------------- pycoin.satoshi.der
def encode_integer(r):
    assert r >= 0
    h = "%x" % r
    if len(h) % 2:
        h = "0" + h
    s = binascii.unhexlify(h.encode("utf8"))
    if ord(s[:1]) <= 0x7F:
        return b"\x02" + bytes([len(s)]) + s
    else:
        return b"\x02" + bytes([len(s) + 1]) + b"\x00" + s


def encode_sequence(*encoded_pieces):
    total_len = sum([len(p) for p in encoded_pieces])
    return b"\x30" + encode_length(total_len) + b"".join(encoded_pieces)


def remove_sequence(string):
    if not string.startswith(b"\x30"):
        raise UnexpectedDER()
    length, lengthlength = read_length(string[1:])
    endseq = 1 + lengthlength + length
    return string[1 + lengthlength:endseq], string[endseq:]


def remove_integer(string, use_broken_open_ssl_mechanism=False):
    if not string.startswith(b"\x02"):
        raise UnexpectedDER()
    length, llen = read_length(string[1:])
    if len(string) < 1 + llen + length:
        raise UnexpectedDER()
    numberbytes = string[1 + llen:1 + llen + length]
    rest = string[1 + llen + length:]
    if length == 0:
        raise UnexpectedDER()
    v = int(binascii.hexlify(numberbytes), 16)
    if ord(numberbytes[:1]) >= 0x80:
        if not use_broken_open_ssl_mechanism:
            v -= 1 << (8 * length)
    return v, rest


def encode_length(length):
    assert length >= 0
    if length < 0x80:
        return bytes([length])
    h = "%x" % length
    if len(h) % 2:
        h = "0" + h
    b = binascii.unhexlify(h)
    llen = len(b)
    return bytes([0x80 | llen]) + b


def read_length(string):
    if len(string) == 0:
        raise UnexpectedDER()
    s0 = ord(string[:1])
    if not (s0 & 0x80):
        return (s0 & 0x7F), 1
    llen = s0 & 0x7F
    if llen > len(string) - 1:
        raise UnexpectedDER()
    return int(binascii.hexlify(string[1:1 + llen]), 16), 1 + llen


def sigencode_der(r, s):
    return encode_sequence(encode_integer(r), encode_integer(s))


def sigdecode_der(sig_der, use_broken_open_ssl_mechanism=True):
    rs_strings, remainder = remove_sequence(sig_der)
    if remainder and not use_broken_open_ssl_mechanism:
        raise UnexpectedDER()
    r, rest = remove_integer(rs_strings, use_broken_open_ssl_mechanism=use_broken_open_ssl_mechanism)
    s, remainder = remove_integer(rest, use_broken_open_ssl_mechanism=use_broken_open_ssl_mechanism)
    if remainder and not use_broken_open_ssl_mechanism:
        raise UnexpectedDER()
    return r, s


# ---------------------------------------------------------------- pycoin.encoding.sec
def public_pair_to_sec(public_pair, compressed=True):
    x_str = to_bytes_32(public_pair[0])
    if compressed:
        return bytes([2 + (public_pair[1] & 1)]) + x_str
    y_str = to_bytes_32(public_pair[1])
    return b"\4" + x_str + y_str


# ---------------------------------------------------------------- pycoin.key.Key
def key_wif(self, is_compressed=None):
    secret_exponent = self.secret_exponent()
    if secret_exponent is None:
        return None
    if is_compressed is None:
        is_compressed = self.is_compressed()
    blob = to_bytes_32(secret_exponent)
    if is_compressed:
        blob += b"\01"
    return self._network.wif_for_blob(blob)


def remove_integer_v2(string, use_broken_open_ssl_mechanism=False):
    # same decoder, sign bit tested on the first content octet with a mask (X.690 8.3.3: bit 8 of the first octet)
    if not string.startswith(b"\x02"):
        raise UnexpectedDER()
    length, llen = read_length(string[1:])
    if len(string) < 1 + llen + length:
        raise UnexpectedDER()
    numberbytes = string[1 + llen:1 + llen + length]
    rest = string[1 + llen + length:]
    if length == 0:
        raise UnexpectedDER()
    v = int.from_bytes(numberbytes, "big")
    if (numberbytes[0] & 0x80) != 0 and not use_broken_open_ssl_mechanism:
        v -= 1 << (8 * length)
    return v, rest
