"""Transcription of every function of pycoin/coins/bitcoin/ScriptStreamer.py as of the reviewed tree (see DESIGN.md section 12).
NEVER IMPORTED OR EXECUTED: parsed and compared in canonical form (sa/sym.py) with the functions in /repo."""


_CONSTS = {
    'errno.MINIMALDATA': 24,
}


# pycoin/coins/bitcoin/ScriptStreamer.py :: make_opcode_const_list
def q__make_opcode_const_list():
    return [('OP_%d' % i, IntStreamer.int_to_script_bytes(i)) for i in range(17)] + [('OP_1NEGATE', IntStreamer.int_to_script_bytes(-1))]


# pycoin/coins/bitcoin/ScriptStreamer.py :: make_opcode_sized_list
def q__make_opcode_sized_list():
    return [('OP_PUSH_%d' % i, i) for i in range(1, 76)]


# pycoin/coins/bitcoin/ScriptStreamer.py :: make_opcode_variable_list
def q__make_opcode_variable_list():

    def make_variable_decoder(struct_data):
        struct_size = struct.calcsize(struct_data)

        def decode_OP_PUSHDATA(script, pc):
            pc += 1
            try:
                size = struct.unpack(struct_data, script[pc:pc + struct_size])[0]
            except Exception:
                return (None, pc)
            pc += struct_size
            return (size, pc)
        return decode_OP_PUSHDATA
    OPCODE_VARIABLE_LIST = [('OP_PUSHDATA1', (1 << 8) - 1, lambda d: struct.pack('<B', d), make_variable_decoder('<B')), ('OP_PUSHDATA2', (1 << 16) - 1, lambda d: struct.pack('<H', d), make_variable_decoder('<H')), ('OP_PUSHDATA4', (1 << 32) - 1, lambda d: struct.pack('<L', d), make_variable_decoder('<L'))]
    return OPCODE_VARIABLE_LIST


# pycoin/coins/bitcoin/ScriptStreamer.py :: make_opcode_variable_list.make_variable_decoder
def q__make_opcode_variable_list__make_variable_decoder(struct_data):
    struct_size = struct.calcsize(struct_data)

    def decode_OP_PUSHDATA(script, pc):
        pc += 1
        try:
            size = struct.unpack(struct_data, script[pc:pc + struct_size])[0]
        except Exception:
            return (None, pc)
        pc += struct_size
        return (size, pc)
    return decode_OP_PUSHDATA


# pycoin/coins/bitcoin/ScriptStreamer.py :: make_opcode_variable_list.make_variable_decoder.decode_OP_PUSHDATA
def q__make_opcode_variable_list__make_variable_decoder__decode_OP_PUSHDATA(script, pc):
    pc += 1
    try:
        size = struct.unpack(struct_data, script[pc:pc + struct_size])[0]
    except Exception:
        return (None, pc)
    pc += struct_size
    return (size, pc)


# pycoin/coins/bitcoin/ScriptStreamer.py :: non_minimal_f
def q__non_minimal_f(msg):
    raise ScriptError()


# pycoin/coins/bitcoin/ScriptStreamer.py :: make_script_streamer
def q__make_script_streamer():
    OPCODE_CONST_LIST = make_opcode_const_list()
    OPCODE_SIZED_LIST = make_opcode_sized_list()
    OPCODE_VARIABLE_LIST = make_opcode_variable_list()
    OPCODE_LOOKUP = dict((o for o in opcodes.OPCODE_LIST))
    return ScriptStreamer(OPCODE_CONST_LIST, OPCODE_SIZED_LIST, OPCODE_VARIABLE_LIST, OPCODE_LOOKUP, non_minimal_f)
