"""Reference transcriptions for C08 (addresses <-> scripts).  NEVER IMPORTED OR EXECUTED: parsed and compared in
canonical form (sa/sym.py) with the functions in /repo.  Written from the tree after the fixes c01e23e / 38c2c4e /
7eb09c4 and reviewed against BIP13 (P2SH addresses), BIP141/BIP173/BIP350 (witness programs: version 0 with 20- or
32-byte programs, version 1 with 32 bytes), Bitcoin Core's Solver() (standard templates: 33..65-byte keys pushed
minimally, multisig m-of-n with 1 <= m <= n <= 16)."""


# pycoin/networks/ContractAPI.py :: ContractAPI.match
def capi_match(self, template_disassembly, script):
    template = self._script_tools.compile(template_disassembly)
    r = collections.defaultdict(list)
    pc1 = pc2 = 0
    while 1:
        if pc1 == len(script) and pc2 == len(template):
            return r
        if pc1 >= len(script) or pc2 >= len(template):
            break
        opcode1, data1, pc1, is_ok1 = self._script_tools.scriptStreamer.get_opcode(script, pc1)
        opcode2, data2, pc2, is_ok2 = self._script_tools.scriptStreamer.get_opcode(template, pc2)
        l1 = 0 if data1 is None else len(data1)
        if data2 in (b'PUBKEY', b'PUBKEYHASH', b'SEGWIT', b'SYNTHETIC_KEY'):
            if data1 is None or self._is_nonminimal_push(opcode1, data1):
                break
        if data2 == b'PUBKEY':
            if l1 < 33 or l1 > 120:
                break
            r['PUBKEY_LIST'].append(data1)
        elif data2 == b'PUBKEYHASH':
            if l1 != 160 / 8:
                break
            r['PUBKEYHASH_LIST'].append(data1)
        elif data2 == b'SEGWIT':
            if l1 not in (256 / 8, 160 / 8):
                break
            r['SEGWIT_LIST'].append(data1)
        elif data2 == b'DATA':
            r['DATA_LIST'].append(data1)
        elif data2 == b'SYNTHETIC_KEY':
            if l1 != 32:
                break
            r['SYNTHETIC_KEY'].append(data1)
        elif (opcode1, data1) != (opcode2, data2):
            break
    return None


# pycoin/networks/ContractAPI.py :: ContractAPI._info_from_multisig_script
def capi_multisig(self, script):
    script_tools = self._script_tools
    scriptStreamer = script_tools.scriptStreamer
    OP_1 = script_tools.int_for_opcode('OP_1')
    OP_16 = script_tools.int_for_opcode('OP_16')
    pc = 0
    if len(script) == 0:
        return None
    opcode, data, pc, is_ok = scriptStreamer.get_opcode(script, pc)
    if not OP_1 <= opcode < OP_16:
        return None
    m = opcode + (1 - OP_1)
    sec_keys = []
    while pc < len(script):
        opcode, data, pc, is_ok = scriptStreamer.get_opcode(script, pc)
        size = len(data) if data else 0
        if size < 33 or size > 120:
            break
        if self._is_nonminimal_push(opcode, data):
            return None
        sec_keys.append(data)
    if pc >= len(script):
        return None
    if not OP_1 <= opcode <= OP_16:
        return None
    n = opcode + (1 - OP_1)
    if m > n or len(sec_keys) != n:
        return None
    opcode, data, pc, is_ok = scriptStreamer.get_opcode(script, pc)
    OP_CHECKMULTISIG = script_tools.int_for_opcode('OP_CHECKMULTISIG')
    if opcode != OP_CHECKMULTISIG:
        return None
    if pc != len(script):
        return None
    return dict(type='multisig', sec_keys=sec_keys, m=m)


# pycoin/networks/ContractAPI.py :: ContractAPI._is_nonminimal_push
def capi_nonminimal(self, opcode, data):
    minimal = self._script_tools.scriptStreamer.compile_push_data(data)
    return bool(minimal[0] != opcode)


# pycoin/networks/ContractAPI.py :: ContractAPI.for_p2s
def capi_for_p2s(self, underlying_script):
    return self.for_p2sh(hash160(underlying_script))


# pycoin/networks/AddressAPI.py :: AddressAPI.for_script_info
def aapi_for_script_info(self, script_info):
    type_ = script_info.get('type')
    if type_ == 'p2pkh':
        return self.for_p2pkh(script_info['hash160'])
    if type_ == 'p2pkh_wit':
        return self.for_p2pkh_wit(script_info['hash160'])
    if type_ == 'p2sh_wit':
        return self.for_p2sh_wit(script_info['hash256'])
    if type_ == 'p2pk':
        h160 = hash160(script_info['sec'])
        return self.for_p2pkh(h160)
    if type_ == 'p2sh':
        return self.for_p2sh(script_info['hash160'])
    if type_ == 'p2tr':
        return self.for_p2tr(script_info['synthetic_key'])
    if type_ == 'nulldata':
        return '(nulldata %s)' % b2h(script_info['data'])
    return '???'


# pycoin/networks/AddressAPI.py :: AddressAPI.for_p2pkh
def aapi_for_p2pkh(self, h160):
    if self._address_prefix is None:
        return None
    return self.b2a(self._address_prefix + h160)


# pycoin/networks/AddressAPI.py :: AddressAPI.for_p2sh
def aapi_for_p2sh(self, h160):
    if self._pay_to_script_prefix is None:
        return None
    return self.b2a(self._pay_to_script_prefix + h160)


# pycoin/networks/AddressAPI.py :: AddressAPI.for_p2pkh_wit
def aapi_for_p2pkh_wit(self, h160):
    if self._bech32_hrp is None:
        return None
    assert len(h160) == 20
    return bech32m.encode(self._bech32_hrp, 0, h160)


# pycoin/networks/AddressAPI.py :: AddressAPI.for_p2sh_wit
def aapi_for_p2sh_wit(self, hash256):
    if self._bech32_hrp is None:
        return None
    assert len(hash256) == 32
    return bech32m.encode(self._bech32_hrp, 0, hash256)


# pycoin/networks/AddressAPI.py :: AddressAPI.for_p2tr
def aapi_for_p2tr(self, synthetic_key):
    if self._bech32_hrp is None:
        return None
    return bech32m.encode(self._bech32_hrp, 1, synthetic_key)


# pycoin/networks/AddressAPI.py :: AddressAPI.for_p2s
def aapi_for_p2s(self, script):
    return self.for_p2sh(hash160(script))


# pycoin/key/Key.py :: Key.address
def key_address(self, is_compressed=None):
    return self._network.address.for_p2pkh(self.hash160(is_compressed=is_compressed))


# pycoin/key/Key.py :: Key.hash160
def key_hash160(self, is_compressed=None):
    if is_compressed is None:
        is_compressed = self.is_compressed()
    if is_compressed:
        if self._hash160_compressed is None:
            self._hash160_compressed = hash160(self.sec(is_compressed=is_compressed))
        return self._hash160_compressed
    if self._hash160_uncompressed is None:
        self._hash160_uncompressed = hash160(self.sec(is_compressed=is_compressed))
    return self._hash160_uncompressed


# pycoin/key/BIP49Node.py :: BIP49Node.address
def bip49_address(self, is_compressed=True):
    pk_hash = self.hash160(is_compressed=is_compressed)
    underlying_script = self._network.contract.for_p2pkh_wit(pk_hash)
    return self._network.address.for_p2s(underlying_script)


# pycoin/key/BIP84Node.py :: BIP84Node.address
def bip84_address(self, is_compressed=True):
    pk_hash = self.hash160(is_compressed=is_compressed)
    return self._network.address.for_p2pkh_wit(pk_hash)


# pycoin/networks/ParseAPI.py :: ParseAPI.p2pkh_segwit
def papi_p2pkh_segwit(self, s):
    return self._bech32m(s, 0, 20, 'for_p2pkh_wit')


# pycoin/networks/ParseAPI.py :: ParseAPI.p2sh_segwit
def papi_p2sh_segwit(self, s):
    return self._bech32m(s, 0, 32, 'for_p2sh_wit')


# pycoin/networks/ParseAPI.py :: ParseAPI.p2tr
def papi_p2tr(self, s):
    return self._bech32m(s, 1, 32, 'for_p2tr')


