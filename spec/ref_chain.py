"""Reference transcriptions for C15 (header-chain tracking).  NEVER IMPORTED OR EXECUTED: parsed and compared in
canonical form (sa/sym.py) with the functions in /repo.  Written from the tree after the fixes af3ba15 / c3a0c3a / 9c9c0e9
and reviewed against the contract stated in the class docstrings: the reported chain is the heaviest chain ending at the
anchor, operations and hash_to_index_lookup change in lock-step, locking moves a prefix without changing the report."""


# pycoin/blockchain/BlockChain.py :: BlockChain._longest_local_block_chain
def bc_longest(self):
    if self._longest_chain_cache is None:
        max_weight = 0
        longest = []
        for chain in self.chain_finder.all_chains_ending_at(self.parent_hash):
            weight = sum((self.weight_lookup.get(h, 0) for h in chain))
            if weight > max_weight:
                longest = chain
                max_weight = weight
        self._longest_chain_cache = longest[:-1]
    return self._longest_chain_cache


# pycoin/blockchain/BlockChain.py :: BlockChain.add_headers
def bc_add_headers(self, header_iter):

    def iterate():
        for header in header_iter:
            h = header.hash()
            if self.is_hash_known(h):
                continue
            self.weight_lookup[h] = header.difficulty
            self.unlocked_block_storage[h] = header
            yield (h, header.previous_block_hash)
    old_longest_chain = self._longest_local_block_chain()
    self.chain_finder.load_nodes(iterate())
    self._longest_chain_cache = None
    new_longest_chain = self._longest_local_block_chain()
    if old_longest_chain and new_longest_chain:
        old_path, new_path = self.chain_finder.find_ancestral_path(old_longest_chain[0], new_longest_chain[0])
        old_path = old_path[:-1]
        new_path = new_path[:-1]
    else:
        old_path = old_longest_chain
        new_path = new_longest_chain
    if old_path:
        logger.debug('old_path is %r-%r', old_path[0], old_path[-1])
    if new_path:
        logger.debug('new_path is %r-%r', new_path[0], new_path[-1])
        logger.debug('block chain now has %d elements', self.length())
    ops = []
    size = len(old_longest_chain) + len(self._locked_chain)
    for idx, h in enumerate(old_path):
        op = ('remove', self.block_for_hash(h), size - idx - 1)
        ops.append(op)
        del self.hash_to_index_lookup[h]
    size = len(new_longest_chain) + len(self._locked_chain)
    for idx, h in reversed(list(enumerate(new_path))):
        op = ('add', self.block_for_hash(h), size - idx - 1)
        ops.append(op)
        self.hash_to_index_lookup[h] = size - idx - 1
    for callback in self.change_callbacks:
        callback(self, ops)
    return ops


# pycoin/blockchain/BlockChain.py :: BlockChain.add_headers.iterate
def bc_add_headers_iterate():
    for header in header_iter:
        h = header.hash()
        if self.is_hash_known(h):
            continue
        self.weight_lookup[h] = header.difficulty
        self.unlocked_block_storage[h] = header
        yield (h, header.previous_block_hash)


# pycoin/blockchain/BlockChain.py :: BlockChain.lock_to_index
def bc_lock_to_index(self, index):
    old_length = len(self._locked_chain)
    index -= old_length
    longest_chain = self._longest_local_block_chain()
    if index < 1:
        return
    excluded = set()
    the_hash = None
    for idx in range(index):
        the_hash = longest_chain[-idx - 1]
        parent_hash = self.parent_hash if idx <= 0 else self._longest_chain_cache[-idx]
        weight = self.weight_lookup.get(the_hash)
        item = (the_hash, parent_hash, weight)
        self._locked_chain.append(item)
        excluded.add(the_hash)
    if self.did_lock_to_index_f:
        self.did_lock_to_index_f(self._locked_chain[old_length:old_length + index], old_length)
    old_chain_finder = self.chain_finder
    self.chain_finder = ChainFinder()
    self._longest_chain_cache = longest_chain[:-index]

    def iterate():
        for tree in old_chain_finder.trees_from_bottom.values():
            for c in tree:
                if c in excluded:
                    break
                excluded.add(c)
                if c in old_chain_finder.parent_lookup:
                    yield (c, old_chain_finder.parent_lookup[c])
    self.chain_finder.load_nodes(iterate())
    self.parent_hash = the_hash


# pycoin/blockchain/BlockChain.py :: BlockChain.lock_to_index.iterate
def bc_lock_iterate():
    for tree in old_chain_finder.trees_from_bottom.values():
        for c in tree:
            if c in excluded:
                break
            excluded.add(c)
            if c in old_chain_finder.parent_lookup:
                yield (c, old_chain_finder.parent_lookup[c])


# pycoin/blockchain/BlockChain.py :: BlockChain.tuple_for_index
def bc_tuple_for_index(self, index):
    if index < 0:
        index = self.length() + index
    size = len(self._locked_chain)
    if index < size:
        return self._locked_chain[index]
    index -= size
    longest_chain = self._longest_local_block_chain()
    the_hash = longest_chain[-index - 1]
    parent_hash = self.parent_hash if index <= 0 else self._longest_chain_cache[-index]
    weight = self.weight_lookup.get(the_hash)
    return (the_hash, parent_hash, weight)


# pycoin/blockchain/BlockChain.py :: BlockChain.length
def bc_length(self):
    return len(self._longest_local_block_chain()) + len(self._locked_chain)


# pycoin/blockchain/BlockChain.py :: BlockChain.is_hash_known
def bc_is_hash_known(self, the_hash):
    return the_hash in self.hash_to_index_lookup


# pycoin/blockchain/ChainFinder.py :: ChainFinder.meld_new_hashes
def cf_meld(self, new_hashes):
    while len(new_hashes) > 0:
        h = new_hashes.pop()
        path = [h]
        while 1:
            h = self.parent_lookup.get(h)
            if h is None:
                break
            preceding_path = self.trees_from_bottom.get(h)
            if preceding_path:
                del self.trees_from_bottom[h]
                path.extend(preceding_path)
                self.descendents_by_top[preceding_path[-1]].remove(preceding_path[0])
                break
            path.append(h)
        self.trees_from_bottom[path[0]] = path
        bottom_h, top_h = (path[0], path[-1])
        top_descendents = self.descendents_by_top.setdefault(top_h, set())
        bottom_descendents = self.descendents_by_top.get(bottom_h)
        if bottom_descendents:
            for descendent in bottom_descendents:
                prior_path = self.trees_from_bottom[descendent]
                prior_path.extend(path[1:])
                if path[0] in self.trees_from_bottom:
                    del self.trees_from_bottom[path[0]]
                else:
                    pass
            del self.descendents_by_top[bottom_h]
            top_descendents.update(bottom_descendents)
        else:
            top_descendents.add(bottom_h)


# pycoin/blockchain/ChainFinder.py :: ChainFinder.load_nodes
def cf_load_nodes(self, nodes):
    new_hashes = set()
    for h, parent in nodes:
        if h in self.parent_lookup:
            continue
        self.parent_lookup[h] = parent
        new_hashes.add(h)
    if new_hashes:
        self.meld_new_hashes(new_hashes)


# pycoin/blockchain/ChainFinder.py :: ChainFinder.find_ancestral_path
def cf_find_ancestral_path(self, h1, h2, path_cache={}):
    p1 = self.maximum_path(h1, path_cache)
    p2 = self.maximum_path(h2, path_cache)
    if p1[-1] != p2[-1]:
        return ([], [])
    shorter_len = min(len(p1), len(p2))
    i1 = len(p1) - shorter_len
    i2 = len(p2) - shorter_len
    while 1:
        if p1[i1] == p2[i2]:
            return (p1[:i1 + 1], p2[:i2 + 1])
        i1 += 1
        i2 += 1


# pycoin/blockchain/ChainFinder.py :: ChainFinder.all_chains_ending_at
def cf_all_chains_ending_at(self, h):
    for bottom_h in self.descendents_by_top.get(h, []):
        yield self.trees_from_bottom[bottom_h]


# pycoin/blockchain/ChainFinder.py :: ChainFinder.maximum_path
def cf_maximum_path(self, h, cache={}):
    v = self.trees_from_bottom.get(h)
    if v:
        return v
    h1 = h
    v = []
    while h1 is not None:
        v.append(h1)
        h1 = self.parent_lookup.get(h1)
    for i, h1 in enumerate(v):
        cache[h1] = v[i:]
    return v


