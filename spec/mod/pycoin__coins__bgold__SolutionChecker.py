"""Transcription of every function of pycoin/coins/bgold/SolutionChecker.py as of the reviewed tree (see DESIGN.md section 12).
NEVER IMPORTED OR EXECUTED: parsed and compared in canonical form (sa/sym.py) with the functions in /repo."""


_CONSTS = {
    'SIGHASH_FORKID': 64,
    'self.FORKID_BTG': 79,
}


# pycoin/coins/bgold/SolutionChecker.py :: BgoldSolutionChecker._signature_hash
def q__BgoldSolutionChecker___signature_hash(self, tx_out_script, unsigned_txs_out_idx, hash_type):
    if hash_type & SIGHASH_FORKID != SIGHASH_FORKID:
        raise self.ScriptError()
    return self._signature_for_hash_type_segwit(tx_out_script, unsigned_txs_out_idx, hash_type)


# pycoin/coins/bgold/SolutionChecker.py :: BgoldSolutionChecker._signature_for_hash_type_segwit
def q__BgoldSolutionChecker___signature_for_hash_type_segwit(self, script, tx_in_idx, hash_type):
    hash_type |= self.FORKID_BTG << 8
    return from_bytes_32(double_sha256(self._segwit_signature_preimage(script, tx_in_idx, hash_type)))
