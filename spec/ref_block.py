"""Reference transcriptions for C14 (blocks, merkle trees, BIP37 partial merkle proofs).  NEVER IMPORTED OR EXECUTED:
parsed and compared in canonical form (sa/sym.py) with the functions in /repo.  Reviewed against the block header layout
(version u32, previous block 32 bytes, merkle root 32 bytes, time u32, bits u32, nonce u32 = 80 bytes), Bitcoin Core's
ComputeMerkleRoot (the last element of an odd row is paired with itself on EVERY level) and CPartialMerkleTree::
ExtractMatches / TraverseAndExtract (depth-first, flag bits least-significant first, reject: identical children when a
right child exists (CVE-2012-2459), unconsumed hashes, unconsumed flag bytes, set padding bits, root mismatch)."""


# pycoin/block.py :: Block.stream_header
def blk_stream_header(self, f):
    stream_struct('L##LLL', f, self.version, self.previous_block_hash, self.merkle_root, self.timestamp, self.difficulty, self.nonce)


# pycoin/block.py :: Block.parse_as_header
def blk_parse_as_header(class_, f):
    version, previous_block_hash, merkle_root, timestamp, difficulty, nonce = parse_struct('L##LLL', f)
    return class_(version, previous_block_hash, merkle_root, timestamp, difficulty, nonce)


# pycoin/block.py :: Block._calculate_hash
def blk_calculate_hash(self):
    s = io.BytesIO()
    self.stream_header(s)
    return double_sha256(s.getvalue())


# pycoin/block.py :: Block.id
def blk_id(self):
    return b2h_rev(self.hash())


# pycoin/block.py :: Block.stream
def blk_stream(self, f):
    self.stream_header(f)
    self._stream_transactions(f)


# pycoin/block.py :: Block._stream_transactions
def blk_stream_transactions(self, f):
    if self.txs:
        stream_struct('I', f, len(self.txs))
        for tx in self.txs:
            tx.stream(f)


# pycoin/block.py :: Block.parse
def blk_parse(class_, f, include_transactions=True, include_offsets=None, check_merkle_hash=True):
    block = class_.parse_as_header(f)
    if include_transactions:
        count = parse_struct('I', f)[0]
        txs = block._parse_transactions(f, count, include_offsets=include_offsets)
        block.set_txs(txs, check_merkle_hash=check_merkle_hash)
    return block


# pycoin/block.py :: Block._parse_transactions
def blk_parse_transactions(class_, f, count, include_offsets=None):
    txs = []
    for i in range(count):
        if include_offsets:
            offset_in_block = f.tell()
        tx = class_.Tx.parse(f)
        txs.append(tx)
        if include_offsets:
            tx.offset_in_block = offset_in_block
    return txs


# pycoin/block.py :: Block.check_merkle_hash
def blk_check_merkle_hash(self):
    calculated_hash = merkle([tx.hash() for tx in self.txs], double_sha256)
    if calculated_hash != self.merkle_root:
        raise BadMerkleRootError()


# pycoin/block.py :: Block.set_txs
def blk_set_txs(self, txs, check_merkle_hash=True):
    self.txs = txs
    if not txs:
        return
    for tx in txs:
        tx.block = self
    if check_merkle_hash:
        self.check_merkle_hash()


# pycoin/merkle.py :: merkle
def mk_merkle(hashes, hash_f=double_sha256):
    while len(hashes) > 1:
        hashes = merkle_pair(hashes, hash_f)
    return hashes[0]


# pycoin/merkle.py :: merkle_pair
def mk_merkle_pair(hashes, hash_f):
    if len(hashes) % 2 == 1:
        hashes = list(hashes)
        hashes.append(hashes[-1])
    items = []
    for i in range(0, len(hashes), 2):
        items.append(hash_f(hashes[i] + hashes[i + 1]))
    return items


# pycoin/message/make_parser_and_packer.py :: post_unpack_merkleblock
def mpp_post_unpack_merkleblock(d, f):
    level_widths = []
    count = d['total_transactions']
    while count > 1:
        level_widths.append(count)
        count += 1
        count //= 2
    level_widths.append(1)
    level_widths.reverse()
    tx_acc = []
    flags = d['flags']
    hashes = list(reversed(d['hashes']))
    left_hash, flag_index = _recurse(level_widths, 0, 0, hashes, flags, 0, tx_acc)
    if len(hashes) > 0:
        raise ValueError()
    idx, r = divmod(flag_index - 1, 8)
    if idx != len(flags) - 1:
        raise ValueError()
    if flags[idx] > (1 << r + 1) - 1:
        raise ValueError()
    if left_hash != d['header'].merkle_root:
        raise ValueError()
    d['tx_hashes'] = tx_acc
    return d


# pycoin/message/make_parser_and_packer.py :: _recurse
def mpp_recurse(level_widths, level_index, node_index, hashes, flags, flag_index, tx_acc):
    idx, r = divmod(flag_index, 8)
    mask = 1 << r
    flag_index += 1
    if flags[idx] & mask == 0:
        h = hashes.pop()
        return (h, flag_index)
    if level_index == len(level_widths) - 1:
        h = hashes.pop()
        tx_acc.append(h)
        return (h, flag_index)
    left_hash, flag_index = _recurse(level_widths, level_index + 1, node_index * 2, hashes, flags, flag_index, tx_acc)
    if node_index * 2 + 1 < level_widths[level_index + 1]:
        right_hash, flag_index = _recurse(level_widths, level_index + 1, node_index * 2 + 1, hashes, flags, flag_index, tx_acc)
        if left_hash == right_hash:
            raise ValueError()
    else:
        right_hash = left_hash
    return (double_sha256(left_hash + right_hash), flag_index)




def mk_merkle_pair_v2(hashes, hash_f):
    # the same row reduction written with zip over the even / odd positions
    if len(hashes) % 2 == 1:
        hashes = list(hashes)
        hashes.append(hashes[-1])
    return [hash_f(left + right) for left, right in zip(hashes[0::2], hashes[1::2])]
