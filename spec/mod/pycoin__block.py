"""Transcription of every function of pycoin/block.py as of the reviewed tree (see DESIGN.md section 12).
NEVER IMPORTED OR EXECUTED: parsed and compared in canonical form (sa/sym.py) with the functions in /repo."""


_CONSTS = {

}


# pycoin/block.py :: difficulty_max_mask_for_bits
def q__difficulty_max_mask_for_bits(bits):
    prefix = bits >> 24
    mask = (bits & 524287) << 8 * (prefix - 3)
    return mask


# pycoin/block.py :: Block.make_subclass
def q__Block__make_subclass(class_, symbol, tx):
    return type('%s_%s' % (symbol, class_.__name__), (class_,), dict(Tx=tx))


# pycoin/block.py :: Block.parse
def q__Block__parse(class_, f, include_transactions=True, include_offsets=None, check_merkle_hash=True):
    block = class_.parse_as_header(f)
    if include_transactions:
        count = parse_struct('I', f)[0]
        txs = block._parse_transactions(f, count, include_offsets=include_offsets)
        block.set_txs(txs, check_merkle_hash=check_merkle_hash)
    return block


# pycoin/block.py :: Block.parse_as_header
def q__Block__parse_as_header(class_, f):
    version, previous_block_hash, merkle_root, timestamp, difficulty, nonce = parse_struct('L##LLL', f)
    return class_(version, previous_block_hash, merkle_root, timestamp, difficulty, nonce)


# pycoin/block.py :: Block.from_bin
def q__Block__from_bin(class_, bytes):
    f = io.BytesIO(bytes)
    return class_.parse(f)


# pycoin/block.py :: Block.__init__
def q__Block____init__(self, version, previous_block_hash, merkle_root, timestamp, difficulty, nonce):
    self.version = version
    self.previous_block_hash = previous_block_hash
    self.merkle_root = merkle_root
    self.timestamp = timestamp
    self.difficulty = difficulty
    self.nonce = nonce
    self.txs = []


# pycoin/block.py :: Block.set_nonce
def q__Block__set_nonce(self, nonce):
    self.nonce = nonce
    if hasattr(self, '__hash'):
        del self.__hash


# pycoin/block.py :: Block._calculate_hash
def q__Block___calculate_hash(self):
    s = io.BytesIO()
    self.stream_header(s)
    return double_sha256(s.getvalue())


# pycoin/block.py :: Block.hash
def q__Block__hash(self):
    if not hasattr(self, '__hash'):
        self.__hash = self._calculate_hash()
    return self.__hash


# pycoin/block.py :: Block._parse_transactions
def q__Block___parse_transactions(class_, f, count, include_offsets=None):
    txs = []
    for i in range(count):
        if include_offsets:
            offset_in_block = f.tell()
        tx = class_.Tx.parse(f)
        txs.append(tx)
        if include_offsets:
            tx.offset_in_block = offset_in_block
    return txs


# pycoin/block.py :: Block.set_txs
def q__Block__set_txs(self, txs, check_merkle_hash=True):
    self.txs = txs
    if not txs:
        return
    for tx in txs:
        tx.block = self
    if check_merkle_hash:
        self.check_merkle_hash()


# pycoin/block.py :: Block.as_blockheader
def q__Block__as_blockheader(self):
    return Block(self.version, self.previous_block_hash, self.merkle_root, self.timestamp, self.difficulty, self.nonce)


# pycoin/block.py :: Block.stream_header
def q__Block__stream_header(self, f):
    stream_struct('L##LLL', f, self.version, self.previous_block_hash, self.merkle_root, self.timestamp, self.difficulty, self.nonce)


# pycoin/block.py :: Block._stream_transactions
def q__Block___stream_transactions(self, f):
    if self.txs:
        stream_struct('I', f, len(self.txs))
        for tx in self.txs:
            tx.stream(f)


# pycoin/block.py :: Block.stream
def q__Block__stream(self, f):
    self.stream_header(f)
    self._stream_transactions(f)


# pycoin/block.py :: Block.as_bin
def q__Block__as_bin(self):
    f = io.BytesIO()
    self.stream(f)
    return f.getvalue()


# pycoin/block.py :: Block.as_hex
def q__Block__as_hex(self):
    return b2h(self.as_bin())


# pycoin/block.py :: Block.id
def q__Block__id(self):
    return b2h_rev(self.hash())


# pycoin/block.py :: Block.previous_block_id
def q__Block__previous_block_id(self):
    return b2h_rev(self.previous_block_hash)


# pycoin/block.py :: Block.check_merkle_hash
def q__Block__check_merkle_hash(self):
    calculated_hash = merkle([tx.hash() for tx in self.txs], double_sha256)
    if calculated_hash != self.merkle_root:
        raise BadMerkleRootError()


# pycoin/block.py :: Block.__str__
def q__Block____str__(self):
    c = '%s%s' % (self.__class__.__name__, '' if self.txs else 'Header')
    return '%s [%s] (previous %s)' % (c, self.id(), self.previous_block_id())


# pycoin/block.py :: Block.__repr__
def q__Block____repr__(self):
    return self.__str__()
