#!/usr/bin/env python3
"""reref.py <spec/ref_file.py> <refname> <relpath> <dotted> [...]: replace (or append) the top-level function <refname> of a
reference file by a fresh transcription of /repo's <relpath>:<dotted> (tools/mkref.py).  Used after a reviewed change of
/repo (a `fix:` commit): the diff of the reference file is what gets reviewed."""
import ast, subprocess, sys
args = sys.argv[1:]
while args:
    path, refname, rel, dotted = args[:4]
    args = args[4:]
    new = subprocess.run(["/venv/bin/python", "/verif/tools/mkref.py", rel, dotted, refname], capture_output=True, text=True, check=True).stdout.strip() + "\n"
    src = open(path).read()
    tree = ast.parse(src)
    lines = src.splitlines(keepends=True)
    hit = [n for n in tree.body if isinstance(n, ast.FunctionDef) and n.name == refname]
    if hit:
        n = hit[0]
        start = n.lineno - 1
        end = n.end_lineno
        lines[start:end] = [new]
        print("replaced", refname, "in", path)
    else:
        lines.append("\n\n" + new)
        print("appended", refname, "to", path)
    open(path, "w").write("".join(lines))
