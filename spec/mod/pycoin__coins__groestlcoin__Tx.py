"""Transcription of every function of pycoin/coins/groestlcoin/Tx.py as of the reviewed tree (see DESIGN.md section 12).
NEVER IMPORTED OR EXECUTED: parsed and compared in canonical form (sa/sym.py) with the functions in /repo."""


_CONSTS = {

}


# pycoin/coins/groestlcoin/Tx.py :: Tx.hash
def q__Tx__hash(self, hash_type=None):
    s = io.BytesIO()
    self.stream(s, include_witness_data=False)
    if hash_type is not None:
        stream_struct('L', s, hash_type)
    return sha256(s.getvalue())


# pycoin/coins/groestlcoin/Tx.py :: Tx.w_hash
def q__Tx__w_hash(self):
    return sha256(self.as_bin())


# pycoin/coins/groestlcoin/Tx.py :: Tx.blanked_hash
def q__Tx__blanked_hash(self):
    s = io.BytesIO()
    self.stream(s, blank_solutions=True)
    return sha256(s.getvalue())
