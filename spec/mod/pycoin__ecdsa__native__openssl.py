"""Transcription of every function of pycoin/ecdsa/native/openssl.py as of the reviewed tree (see DESIGN.md section 12).
NEVER IMPORTED OR EXECUTED: parsed and compared in canonical form (sa/sym.py) with the functions in /repo."""


_CONSTS = {

}


# pycoin/ecdsa/native/openssl.py :: set_api
def q__set_api(library, api_info):
    for f_name, argtypes, restype in api_info:
        f = getattr(library, f_name)
        f.argtypes = argtypes
        f.restype = restype


# pycoin/ecdsa/native/openssl.py :: load_library
def q__load_library():
    system = platform.system()
    PYCOIN_LIBCRYPTO_PATH = os.getenv('PYCOIN_LIBCRYPTO_PATH')
    if PYCOIN_LIBCRYPTO_PATH:
        library_path = PYCOIN_LIBCRYPTO_PATH
    elif system == 'Windows':
        if platform.architecture()[0] == '64bit':
            library_path = ctypes.util.find_library('libeay64')
        else:
            library_path = ctypes.util.find_library('libeay32')
    elif system == 'Darwin':
        library_path = ctypes.util.find_library('crypto')
    else:
        library_path = ctypes.util.find_library('crypto')
    if library_path is None:
        return None
    RTLD_NOLOAD = 16 if sys.platform == 'darwin' else 4
    if sys.platform == 'darwin':
        _candidates = [library_path] + [p for p in ['/opt/homebrew/opt/openssl@3/lib/libcrypto.dylib', '/usr/local/opt/openssl@3/lib/libcrypto.dylib', '/opt/homebrew/opt/openssl@1.1/lib/libcrypto.dylib', '/usr/local/opt/openssl@1.1/lib/libcrypto.dylib'] if os.path.exists(p)]
        library = None
        for _p in _candidates:
            try:
                library = ctypes.CDLL(_p, mode=RTLD_NOLOAD)
                break
            except OSError:
                continue
        if library is None:
            return None
    else:
        try:
            library = ctypes.CDLL(library_path, mode=RTLD_NOLOAD)
        except OSError:
            library = ctypes.CDLL(library_path)
    library.BignumType = bignum_type_for_library(library)
    BN_P = ctypes.POINTER(library.BignumType)
    BN_CTX = ctypes.POINTER(BignumContext)
    BIGNUM_API = [('BN_new', [], BN_P), ('BN_set_word', [BN_P, ctypes.c_ulong], ctypes.c_int), ('BN_clear_free', [BN_P], None), ('BN_bin2bn', [ctypes.c_char_p, ctypes.c_int, BN_P], BN_P), ('BN_mod_inverse', [BN_P, BN_P, BN_P, BN_CTX], BN_P), ('BN_CTX_new', [], BN_CTX), ('BN_CTX_free', [BN_CTX], None), ('BN_mpi2bn', [ctypes.c_char_p, ctypes.c_int, BN_P], BN_P)]
    ECC_API = [('EC_GROUP_new_by_curve_name', [ctypes.c_int], ctypes.c_void_p), ('EC_POINT_new', [ctypes.c_void_p], ctypes.c_void_p), ('EC_POINT_free', [ctypes.c_void_p], None), ('EC_POINT_set_affine_coordinates_GFp', [ctypes.c_void_p, ctypes.c_void_p, BN_P, BN_P, BN_CTX], ctypes.c_int), ('EC_POINT_get_affine_coordinates_GFp', [ctypes.c_void_p, ctypes.c_void_p, BN_P, BN_P, BN_CTX], ctypes.c_int), ('EC_POINT_mul', [ctypes.c_void_p, ctypes.c_void_p, BN_P, ctypes.c_void_p, BN_P, BN_CTX], ctypes.c_int)]
    set_api(library, BIGNUM_API)
    set_api(library, ECC_API)
    return library


# pycoin/ecdsa/native/openssl.py :: create_OpenSSLOptimizations
def q__create_OpenSSLOptimizations(curve_id):

    class noop:
        pass
    native = os.getenv('PYCOIN_NATIVE')
    if native and native.lower() != 'openssl':
        return noop
    if not OpenSSL:
        return noop

    class Optimizations:
        if OpenSSL:
            openssl_group = OpenSSL.EC_GROUP_new_by_curve_name(curve_id)

        def multiply(self, p, e):
            if self._order:
                e %= self._order
            if e == 0 or p == self._infinity:
                return self._infinity
            bn_x = OpenSSL.BignumType(p[0])
            bn_y = OpenSSL.BignumType(p[1])
            bn_n = OpenSSL.BignumType(e)
            ctx = OpenSSL.BN_CTX_new()
            ec_result = OpenSSL.EC_POINT_new(self.openssl_group)
            ec_point = OpenSSL.EC_POINT_new(self.openssl_group)
            OpenSSL.EC_POINT_set_affine_coordinates_GFp(self.openssl_group, ec_point, bn_x, bn_y, ctx)
            OpenSSL.EC_POINT_mul(self.openssl_group, ec_result, None, ec_point, bn_n, ctx)
            OpenSSL.EC_POINT_get_affine_coordinates_GFp(self.openssl_group, ec_result, bn_x, bn_y, ctx)
            OpenSSL.EC_POINT_free(ec_point)
            OpenSSL.EC_POINT_free(ec_result)
            OpenSSL.BN_CTX_free(ctx)
            return self.Point(bn_x.to_int(), bn_y.to_int())

        def raw_mul(self, e):
            return self.multiply(self, e)

        def inverse_mod(self, a, p):
            ctx = OpenSSL.BN_CTX_new()
            a1 = OpenSSL.BignumType(a)
            OpenSSL.BN_mod_inverse(a1, a1, OpenSSL.BignumType(p), ctx)
            OpenSSL.BN_CTX_free(ctx)
            return int(a1.to_int())
    return Optimizations


# pycoin/ecdsa/native/openssl.py :: create_OpenSSLOptimizations.Optimizations.multiply
def q__create_OpenSSLOptimizations__Optimizations__multiply(self, p, e):
    if self._order:
        e %= self._order
    if e == 0 or p == self._infinity:
        return self._infinity
    bn_x = OpenSSL.BignumType(p[0])
    bn_y = OpenSSL.BignumType(p[1])
    bn_n = OpenSSL.BignumType(e)
    ctx = OpenSSL.BN_CTX_new()
    ec_result = OpenSSL.EC_POINT_new(self.openssl_group)
    ec_point = OpenSSL.EC_POINT_new(self.openssl_group)
    OpenSSL.EC_POINT_set_affine_coordinates_GFp(self.openssl_group, ec_point, bn_x, bn_y, ctx)
    OpenSSL.EC_POINT_mul(self.openssl_group, ec_result, None, ec_point, bn_n, ctx)
    OpenSSL.EC_POINT_get_affine_coordinates_GFp(self.openssl_group, ec_result, bn_x, bn_y, ctx)
    OpenSSL.EC_POINT_free(ec_point)
    OpenSSL.EC_POINT_free(ec_result)
    OpenSSL.BN_CTX_free(ctx)
    return self.Point(bn_x.to_int(), bn_y.to_int())


# pycoin/ecdsa/native/openssl.py :: create_OpenSSLOptimizations.Optimizations.raw_mul
def q__create_OpenSSLOptimizations__Optimizations__raw_mul(self, e):
    return self.multiply(self, e)


# pycoin/ecdsa/native/openssl.py :: create_OpenSSLOptimizations.Optimizations.inverse_mod
def q__create_OpenSSLOptimizations__Optimizations__inverse_mod(self, a, p):
    ctx = OpenSSL.BN_CTX_new()
    a1 = OpenSSL.BignumType(a)
    OpenSSL.BN_mod_inverse(a1, a1, OpenSSL.BignumType(p), ctx)
    OpenSSL.BN_CTX_free(ctx)
    return int(a1.to_int())
