#!/bin/bash
# show.sh Cxx-k [width] [check-pid]: print a kept variant's patch and every VIOLATED / UNDECIDED / ANALYSIS-ERROR line its check prints
d=/verif/seeded/$1; pid=${3:-$(echo $1 | cut -d- -f1)}
grep -E "^[-+@]" $d/patch.diff | grep -vE "^(\+\+\+|---)" | cut -c1-170
td=$(mktemp -d /tmp/vs-XXXXXX); cp -r /repo/pycoin $td/pycoin; (cd $td && patch -p1 -s --no-backup-if-mismatch -i $d/patch.diff)
cd /verif; VERIF_REPO=$td ./check $pid --no-evidence 2>&1 | grep -E "^VIOLATED|^UNDECIDED|ANALYSIS-ERROR" | cut -c1-${2:-400}; rm -rf $td
