"""CFG - statement level control-flow graph, reachability-with-removal (must-pass-through) and dominators."""
from __future__ import annotations

import ast

from .pm import AnalysisError, norm


class Node:
    __slots__ = ("id", "kind", "ast", "succ", "pred", "label")

    def __init__(self, id_, kind, node=None, label=""):
        self.id = id_
        self.kind = kind      # entry | stmt | cond | return | raise | exit | join
        self.ast = node
        self.succ = []        # (Node, edge-label)
        self.pred = []
        self.label = label

    def __repr__(self):
        t = norm(self.ast)[:60] if self.ast is not None else self.label
        return "<%d %s %s>" % (self.id, self.kind, t)


class CFG:
    def __init__(self, func_node):
        self.nodes = []
        self.entry = self.new("entry")
        self.exit = self.new("exit")          # normal return (explicit or implicit)
        self.raise_exit = self.new("exit", label="raise")
        self.func = func_node
        self._loops = []      # (continue_target, break_target)
        self._handlers = []   # stack of lists of handler entry nodes
        body = [func_node.body] if isinstance(func_node, ast.Lambda) else func_node.body
        if isinstance(func_node, ast.Lambda):
            r = self.new("return", ast.Return(value=func_node.body))
            self.edge(self.entry, r)
            self.edge(r, self.exit)
        else:
            last = self.block(body, [self.entry])
            for n in last:
                self.edge(n, self.exit, "fall")

    def new(self, kind, node=None, label=""):
        n = Node(len(self.nodes), kind, node, label)
        self.nodes.append(n)
        return n

    def edge(self, a, b, label=""):
        a.succ.append((b, label))
        b.pred.append((a, label))

    def link(self, preds, n, label=""):
        for p in preds:
            if isinstance(p, tuple):
                self.edge(p[0], n, p[1])
            else:
                self.edge(p, n, label)

    def block(self, body, preds):
        for st in body:
            if not preds:
                break
            preds = self.stmt(st, preds)
        return preds

    def cond(self, test, preds):
        """returns (true_preds, false_preds); splits and/or/not into atom nodes."""
        if isinstance(test, ast.BoolOp):
            if isinstance(test.op, ast.And):
                falses = []
                cur = preds
                for v in test.values:
                    t, f = self.cond(v, cur)
                    falses.extend(f)
                    cur = t
                return cur, falses
            trues = []
            cur = preds
            for v in test.values:
                t, f = self.cond(v, cur)
                trues.extend(t)
                cur = f
            return trues, cur
        if isinstance(test, ast.UnaryOp) and isinstance(test.op, ast.Not):
            t, f = self.cond(test.operand, preds)
            return f, t
        n = self.new("cond", test)
        self.link(preds, n)
        self.may_raise(n)
        return [(n, "T")], [(n, "F")]

    def may_raise(self, n):
        if self._handlers:
            for h in self._handlers[-1]:
                self.edge(n, h, "exc")

    def stmt(self, st, preds):
        if isinstance(st, ast.If):
            t, f = self.cond(st.test, preds)
            a = self.block(st.body, t)
            b = self.block(st.orelse, f) if st.orelse else f
            return a + b
        if isinstance(st, (ast.While,)):
            head = self.new("join", label="while")
            self.link(preds, head)
            t, f = self.cond(st.test, [head])
            brk = self.new("join", label="break")
            self._loops.append((head, brk))
            out = self.block(st.body, t)
            self._loops.pop()
            self.link(out, head)
            if st.orelse:
                f = self.block(st.orelse, f)
            return f + [brk] if brk.pred else f
        if isinstance(st, (ast.For, ast.AsyncFor)):
            it = self.new("stmt", st.iter, label="iter")
            self.link(preds, it)
            self.may_raise(it)
            head = self.new("cond", st, label="for")
            self.edge(it, head)
            brk = self.new("join", label="break")
            self._loops.append((head, brk))
            out = self.block(st.body, [(head, "T")])
            self._loops.pop()
            self.link(out, head)
            f = [(head, "F")]
            if st.orelse:
                f = self.block(st.orelse, f)
            return f + ([brk] if brk.pred else [])
        if isinstance(st, ast.Return):
            n = self.new("return", st)
            self.link(preds, n)
            self.may_raise(n)
            self.edge(n, self.exit)
            return []
        if isinstance(st, ast.Raise):
            n = self.new("raise", st)
            self.link(preds, n)
            if self._handlers:
                for h in self._handlers[-1]:
                    self.edge(n, h, "exc")
            self.edge(n, self.raise_exit)
            return []
        if isinstance(st, ast.Break):
            if not self._loops:
                raise AnalysisError("break outside loop")
            self.link(preds, self._loops[-1][1])
            return []
        if isinstance(st, ast.Continue):
            if not self._loops:
                raise AnalysisError("continue outside loop")
            self.link(preds, self._loops[-1][0])
            return []
        if isinstance(st, ast.Try):
            hentries = [self.new("join", h, label="except") for h in st.handlers]
            self._handlers.append(hentries)
            tstart = self.new("join", label="try")
            self.link(preds, tstart)
            for h in hentries:
                self.edge(tstart, h, "exc")
            out = self.block(st.body, [tstart])
            self._handlers.pop()
            if st.orelse:
                out = self.block(st.orelse, out)
            for h, he in zip(st.handlers, hentries):
                out = out + self.block(h.body, [he])
            if st.finalbody:
                out = self.block(st.finalbody, out)
            return out
        if isinstance(st, (ast.With, ast.AsyncWith)):
            n = self.new("stmt", st, label="with")
            self.link(preds, n)
            self.may_raise(n)
            return self.block(st.body, [n])
        if isinstance(st, ast.Assert):
            n = self.new("cond", st.test, label="assert")
            self.link(preds, n)
            r = self.new("raise", st)
            self.edge(n, r, "F")
            self.edge(r, self.raise_exit)
            return [(n, "T")]
        if isinstance(st, (ast.FunctionDef, ast.AsyncFunctionDef, ast.ClassDef)):
            return preds
        n = self.new("stmt", st)
        self.link(preds, n)
        self.may_raise(n)
        return [n]

    # -------------------------------------------------------------- queries
    def reachable(self, start, blocked=(), edge_ok=None):
        blocked = set(id(b) for b in blocked)
        seen = {start.id}
        stack = [start]
        parent = {}
        while stack:
            n = stack.pop()
            for s, lab in n.succ:
                if id(s) in blocked or s.id in seen:
                    continue
                if edge_ok is not None and not edge_ok(n, s, lab):
                    continue
                seen.add(s.id)
                parent[s.id] = n
                stack.append(s)
        return seen, parent

    def path_avoiding(self, target, blocked, edge_ok=None, start=None):
        """a path entry -> target that avoids `blocked` nodes, or None."""
        start = start or self.entry
        if any(b is start for b in blocked):
            return None
        seen, parent = self.reachable(start, blocked, edge_ok)
        if target.id not in seen:
            return None
        path = [target]
        while path[-1].id in parent:
            path.append(parent[path[-1].id])
        return list(reversed(path))

    def find(self, pred):
        return [n for n in self.nodes if pred(n)]

    def must_pass(self, targets, guards, edge_ok=None):
        """For each target node: None if every entry->target path passes one of `guards`, else a witness path."""
        out = []
        for t in targets:
            p = self.path_avoiding(t, [g for g in guards if g is not t], edge_ok)
            if p is not None:
                out.append((t, p))
        return out


def fmt_path(path):
    return " -> ".join("L%s" % getattr(n.ast, "lineno", "?") if n.ast is not None else n.kind for n in path)


# --------------------------------------------------------- structured helpers
def stmt_paths(func_node):
    """Map id(stmt) -> tuple of (block-owner-id, branch, index) from the function body down to the statement."""
    out = {}

    def rec(body, prefix, owner, branch):
        for i, st in enumerate(body):
            p = prefix + ((owner, branch, i),)
            out[id(st)] = p
            for name in ("body", "orelse", "finalbody"):
                sub = getattr(st, name, None)
                if isinstance(sub, list) and sub and isinstance(sub[0], ast.stmt) and not isinstance(st, (ast.FunctionDef, ast.ClassDef, ast.AsyncFunctionDef)):
                    rec(sub, p, id(st), name)
            if isinstance(st, ast.Try):
                for k, h in enumerate(st.handlers):
                    rec(h.body, p, id(st), "handler%d" % k)
    if isinstance(func_node, ast.Lambda):
        return out
    rec(func_node.body, (), id(func_node), "body")
    return out


def struct_dominates(paths, a, b):
    """Statement a structurally dominates statement b: a sits in a block that encloses b's position
    (same nesting prefix) and comes earlier in that block."""
    pa, pb = paths.get(id(a)), paths.get(id(b))
    if pa is None or pb is None:
        return False
    if len(pa) > len(pb):
        return False
    if pa[:-1] != pb[: len(pa) - 1]:
        return False
    la, lb = pa[-1], pb[len(pa) - 1]
    return la[0] == lb[0] and la[1] == lb[1] and la[2] < lb[2]


def enclosing_stmt(func_node, node):
    """The statement of func_node's body tree that contains the expression `node`."""
    best = None
    for st in ast.walk(func_node):
        if isinstance(st, ast.stmt) and st is not func_node:
            for sub in ast.walk(st):
                if sub is node:
                    if best is None or _depth_contains(best, st):
                        best = st
                    break
    return best


def _depth_contains(outer, inner):
    if outer is inner:
        return False
    for sub in ast.walk(outer):
        if sub is inner:
            return True
    return False
