"""Transcription of every function of pycoin/contrib/ripemd160.py as of the reviewed tree (see DESIGN.md section 12).
NEVER IMPORTED OR EXECUTED: parsed and compared in canonical form (sa/sym.py) with the functions in /repo."""


_CONSTS = {

}


# pycoin/contrib/ripemd160.py :: fi
def q__fi(x, y, z, i):
    if i == 0:
        return x ^ y ^ z
    elif i == 1:
        return x & y | ~x & z
    elif i == 2:
        return (x | ~y) ^ z
    elif i == 3:
        return x & z | y & ~z
    elif i == 4:
        return x ^ (y | ~z)
    else:
        assert False


# pycoin/contrib/ripemd160.py :: rol
def q__rol(x, i):
    return (x << i | (x & 4294967295) >> 32 - i) & 4294967295


# pycoin/contrib/ripemd160.py :: compress
def q__compress(h0, h1, h2, h3, h4, block):
    al, bl, cl, dl, el = (h0, h1, h2, h3, h4)
    ar, br, cr, dr, er = (h0, h1, h2, h3, h4)
    x = [struct.unpack('<L', block[4 * i:4 * (i + 1)])[0] for i in range(16)]
    for j in range(80):
        rnd = j >> 4
        al = rol(al + fi(bl, cl, dl, rnd) + x[ML[j]] + KL[rnd], RL[j]) + el
        al, bl, cl, dl, el = (el, al, bl, rol(cl, 10), dl)
        ar = rol(ar + fi(br, cr, dr, 4 - rnd) + x[MR[j]] + KR[rnd], RR[j]) + er
        ar, br, cr, dr, er = (er, ar, br, rol(cr, 10), dr)
    return (h1 + cl + dr, h2 + dl + er, h3 + el + ar, h4 + al + br, h0 + bl + cr)


# pycoin/contrib/ripemd160.py :: ripemd160
def q__ripemd160(data):
    state = (1732584193, 4023233417, 2562383102, 271733878, 3285377520)
    for b in range(len(data) >> 6):
        state = compress(*state, data[64 * b:64 * (b + 1)])
    pad = b'\x80' + b'\x00' * (119 - len(data) & 63)
    fin = data[len(data) & ~63:] + pad + struct.pack('<Q', 8 * len(data))
    for b in range(len(fin) >> 6):
        state = compress(*state, fin[64 * b:64 * (b + 1)])
    return b''.join((struct.pack('<L', h & 4294967295) for h in state))


# pycoin/contrib/ripemd160.py :: TestFrameworkKey.test_ripemd160
def q__TestFrameworkKey__test_ripemd160(self):
    for msg, hexout in [(b'', '9c1185a5c5e9fc54612808977ee8f548b2258d31'), (b'a', '0bdc9d2d256b3ee9daae347be6f4dc835a467ffe'), (b'abc', '8eb208f7e05d987a9b044a8e98c6b087f15a0bfc'), (b'message digest', '5d0689ef49d2fae572b881b123a85ffa21595f36'), (b'abcdefghijklmnopqrstuvwxyz', 'f71c27109c692c1b56bbdceb5b9d2865b3708dbc'), (b'abcdbcdecdefdefgefghfghighijhijkijkljklmklmnlmnomnopnopq', '12a053384a9c0c88e405a06c27dcf49ada62eb2b'), (b'ABCDEFGHIJKLMNOPQRSTUVWXYZabcdefghijklmnopqrstuvwxyz0123456789', 'b0e20b6e3116640286ed3a87a5713079b21f5189'), (b'1234567890' * 8, '9b752e45573d4b39f4dbd3323cab82bf63326bfb'), (b'a' * 1000000, '52783243c1697bdbe16d37f97f68f08325dc1528')]:
        self.assertEqual(binascii.hexlify(ripemd160(msg)).decode(), hexout)
