"""Transcription of every function of pycoin/coins/bitcoin/SegwitChecker.py as of the reviewed tree (see DESIGN.md section 12).
NEVER IMPORTED OR EXECUTED: parsed and compared in canonical form (sa/sym.py) with the functions in /repo."""


_CONSTS = {
    'SIGHASH_ANYONECANPAY': 128,
    'SIGHASH_NONE': 2,
    'SIGHASH_SINGLE': 3,
    'VERIFY_CLEANSTACK': 256,
    'VERIFY_DISCOURAGE_UPGRADABLE_WITNESS_PROGRAM': 4096,
    'VERIFY_WITNESS': 2048,
    'ZERO32': b'\x00\x00\x00\x00\x00\x00\x00\x00\x00\x00\x00\x00\x00\x00\x00\x00\x00\x00\x00\x00\x00\x00\x00\x00\x00\x00\x00\x00\x00\x00\x00\x00',
    'errno.DISCOURAGE_UPGRADABLE_WITNESS_PROGRAM': 33,
    'errno.PUSH_SIZE': 5,
    'errno.WITNESS_MALLEATED': 37,
    'errno.WITNESS_MALLEATED_P2SH': 38,
    'errno.WITNESS_PROGRAM_MISMATCH': 36,
    'errno.WITNESS_PROGRAM_WITNESS_EMPTY': 35,
    'errno.WITNESS_PROGRAM_WRONG_LENGTH': 34,
    'errno.WITNESS_UNEXPECTED': 39,
}


# pycoin/coins/bitcoin/SegwitChecker.py :: SegwitChecker._make_witness_sighash_f
def q__SegwitChecker___make_witness_sighash_f(self, tx_in_idx):

    def witness_signature_for_hash_type(hash_type, sig_blobs, vm):
        return self._signature_for_hash_type_segwit(vm.script[vm.begin_code_hash:], tx_in_idx, hash_type)
    return witness_signature_for_hash_type


# pycoin/coins/bitcoin/SegwitChecker.py :: SegwitChecker._make_witness_sighash_f.witness_signature_for_hash_type
def q__SegwitChecker___make_witness_sighash_f__witness_signature_for_hash_type(hash_type, sig_blobs, vm):
    return self._signature_for_hash_type_segwit(vm.script[vm.begin_code_hash:], tx_in_idx, hash_type)


# pycoin/coins/bitcoin/SegwitChecker.py :: SegwitChecker._puzzle_script_for_len20_segwit
def q__SegwitChecker___puzzle_script_for_len20_segwit(self, witness_program):
    return self.V0_len20_prefix + self.ScriptTools.compile_push_data_list([witness_program]) + self.V0_len20_postfix


# pycoin/coins/bitcoin/SegwitChecker.py :: SegwitChecker._check_witness_program_v0
def q__SegwitChecker___check_witness_program_v0(self, witness_solution_stack, witness_program):
    size = len(witness_program)
    if size == 32:
        if len(witness_solution_stack) == 0:
            raise ScriptError()
        puzzle_script = witness_solution_stack[-1]
        if sha256(puzzle_script).digest() != witness_program:
            raise ScriptError()
        stack = list(witness_solution_stack[:-1])
    elif size == 20:
        if len(witness_solution_stack) != 2:
            raise ScriptError()
        puzzle_script = self._puzzle_script_for_len20_segwit(witness_program)
        stack = list(witness_solution_stack)
    else:
        raise ScriptError()
    return (stack, puzzle_script)


# pycoin/coins/bitcoin/SegwitChecker.py :: SegwitChecker._witness_program_version
def q__SegwitChecker___witness_program_version(self, script):
    size = len(script)
    if size < 4 or size > 42:
        return None
    first_opcode = script[0]
    if script[1] + 2 != size:
        return None
    if first_opcode == self.OP_0:
        return 0
    if self.OP_1 is not None and self.OP_16 is not None and (self.OP_1 <= first_opcode <= self.OP_16):
        return first_opcode - self.OP_1 + 1
    return None


# pycoin/coins/bitcoin/SegwitChecker.py :: SegwitChecker._hash_prevouts
def q__SegwitChecker___hash_prevouts(self, hash_type):
    if hash_type & SIGHASH_ANYONECANPAY:
        return ZERO32
    f = io.BytesIO()
    for tx_in in self.tx.txs_in:
        f.write(tx_in.previous_hash)
        stream_struct('L', f, tx_in.previous_index)
    return double_sha256(f.getvalue())


# pycoin/coins/bitcoin/SegwitChecker.py :: SegwitChecker._hash_sequence
def q__SegwitChecker___hash_sequence(self, hash_type):
    if hash_type & SIGHASH_ANYONECANPAY or hash_type & 31 == SIGHASH_SINGLE or hash_type & 31 == SIGHASH_NONE:
        return ZERO32
    f = io.BytesIO()
    for tx_in in self.tx.txs_in:
        stream_struct('L', f, tx_in.sequence)
    return double_sha256(f.getvalue())


# pycoin/coins/bitcoin/SegwitChecker.py :: SegwitChecker._hash_outputs
def q__SegwitChecker___hash_outputs(self, hash_type, tx_in_idx):
    txs_out = self.tx.txs_out
    if hash_type & 31 == SIGHASH_SINGLE:
        if tx_in_idx >= len(txs_out):
            return ZERO32
        txs_out = txs_out[tx_in_idx:tx_in_idx + 1]
    elif hash_type & 31 == SIGHASH_NONE:
        return ZERO32
    f = io.BytesIO()
    for tx_out in txs_out:
        stream_struct('QS', f, tx_out.coin_value, tx_out.script)
    return double_sha256(f.getvalue())


# pycoin/coins/bitcoin/SegwitChecker.py :: SegwitChecker._segwit_signature_preimage
def q__SegwitChecker___segwit_signature_preimage(self, script, tx_in_idx, hash_type):
    f = io.BytesIO()
    stream_struct('L', f, self.tx.version)
    f.write(self._hash_prevouts(hash_type))
    f.write(self._hash_sequence(hash_type))
    tx_in = self.tx.txs_in[tx_in_idx]
    f.write(tx_in.previous_hash)
    stream_struct('L', f, tx_in.previous_index)
    tx_out = self.tx.unspents[tx_in_idx]
    stream_satoshi_string(f, script)
    stream_struct('Q', f, tx_out.coin_value)
    stream_struct('L', f, tx_in.sequence)
    f.write(self._hash_outputs(hash_type, tx_in_idx))
    stream_struct('L', f, self.tx.lock_time)
    stream_struct('L', f, hash_type)
    return f.getvalue()


# pycoin/coins/bitcoin/SegwitChecker.py :: SegwitChecker._signature_for_hash_type_segwit
def q__SegwitChecker___signature_for_hash_type_segwit(self, script, tx_in_idx, hash_type):
    return from_bytes_32(double_sha256(self._segwit_signature_preimage(script, tx_in_idx, hash_type)))


# pycoin/coins/bitcoin/SegwitChecker.py :: SegwitChecker.witness_program_tuple
def q__SegwitChecker__witness_program_tuple(self, tx_context, puzzle_script, solution_stack, flags, is_p2sh):
    if not flags & VERIFY_WITNESS:
        return None
    witness_version = self._witness_program_version(puzzle_script)
    if witness_version is None:
        if len(tx_context.witness_solution_stack) > 0:
            raise ScriptError()
    else:
        witness_program = puzzle_script[2:]
        if not is_p2sh and len(tx_context.solution_script) > 0:
            raise ScriptError()
        if len(solution_stack) > 0:
            err = errno.WITNESS_MALLEATED_P2SH if is_p2sh else errno.WITNESS_MALLEATED
            raise ScriptError()
        if is_p2sh and tx_context.solution_script != self.ScriptTools.compile_push_data_list([puzzle_script]):
            raise ScriptError()
        if witness_version == 0:
            stack, puzzle_script = self._check_witness_program_v0(tx_context.witness_solution_stack, witness_program)
            for s in stack:
                if len(s) > self.VM.MAX_BLOB_LENGTH:
                    raise ScriptError()
            sighash_f = self._make_witness_sighash_f(tx_context.tx_in_idx)
            return (puzzle_script, stack, flags | VERIFY_CLEANSTACK, sighash_f)
        elif flags & VERIFY_DISCOURAGE_UPGRADABLE_WITNESS_PROGRAM:
            raise ScriptError()
    return None
