"""Transcription of every function of pycoin/coins/tx_utils.py as of the reviewed tree (see DESIGN.md section 12).
NEVER IMPORTED OR EXECUTED: parsed and compared in canonical form (sa/sym.py) with the functions in /repo."""


_CONSTS = {

}


# pycoin/coins/tx_utils.py :: create_tx
def q__create_tx(network, spendables, payables, fee='standard', lock_time=0, version=1):
    Tx = network.tx

    def _fix_spendable(s):
        if isinstance(s, Tx.Spendable):
            return s
        if not hasattr(s, 'keys'):
            return Tx.Spendable.from_text(s)
        return Tx.Spendable.from_dict(s)
    spendables = [_fix_spendable(s) for s in spendables]
    txs_in = [spendable.tx_in() for spendable in spendables]
    txs_out = []
    for payable in payables:
        if len(payable) == 2:
            address, coin_value = payable
        else:
            address = payable
            coin_value = 0
        script = network.contract.for_address(address)
        txs_out.append(Tx.TxOut(coin_value, script))
    tx = Tx(version=version, txs_in=txs_in, txs_out=txs_out, lock_time=lock_time)
    tx.set_unspents(spendables)
    distribute_from_split_pool(tx, fee)
    return tx


# pycoin/coins/tx_utils.py :: create_tx._fix_spendable
def q__create_tx___fix_spendable(s):
    if isinstance(s, Tx.Spendable):
        return s
    if not hasattr(s, 'keys'):
        return Tx.Spendable.from_text(s)
    return Tx.Spendable.from_dict(s)


# pycoin/coins/tx_utils.py :: split_with_remainder
def q__split_with_remainder(total_amount, split_count):
    value_each, extra_count = divmod(total_amount, split_count)
    for _ in range(extra_count):
        yield (value_each + 1)
    for _ in range(split_count - extra_count):
        yield value_each


# pycoin/coins/tx_utils.py :: distribute_from_split_pool
def q__distribute_from_split_pool(tx, fee):
    if fee == 'standard':
        fee = tx_fee.recommended_fee_for_tx(tx)
    zero_txs_out = [tx_out for tx_out in tx.txs_out if tx_out.coin_value == 0]
    zero_count = len(zero_txs_out)
    if zero_count > 0:
        total_coin_value = sum((spendable.coin_value for spendable in tx.unspents))
        coins_allocated = sum((tx_out.coin_value for tx_out in tx.txs_out)) + fee
        remaining_coins = total_coin_value - coins_allocated
        if remaining_coins < 0:
            raise ValueError()
        if remaining_coins < zero_count:
            raise ValueError()
        for value, tx_out in zip(split_with_remainder(remaining_coins, zero_count), zero_txs_out):
            tx_out.coin_value = value
    elif sum((tx_out.coin_value for tx_out in tx.txs_out)) > sum((spendable.coin_value for spendable in tx.unspents)):
        raise ValueError()
    return zero_count


# pycoin/coins/tx_utils.py :: sign_tx
def q__sign_tx(network, tx, wifs=None, **kwargs):
    keychain = network.keychain()
    keychain.add_secrets((network.parse.wif(_) for _ in wifs or []))
    solver = tx.Solver(tx)
    solver.sign(keychain, **kwargs)


# pycoin/coins/tx_utils.py :: create_signed_tx
def q__create_signed_tx(network, spendables, payables, wifs=None, fee='standard', lock_time=0, version=1, **kwargs):
    tx = create_tx(network, spendables, payables, fee=fee, lock_time=lock_time, version=version)
    sign_tx(network, tx, wifs=wifs or [], **kwargs)
    for idx, tx_out in enumerate(tx.txs_in):
        if not tx.is_solution_ok(idx):
            raise SecretExponentMissing()
    return tx
