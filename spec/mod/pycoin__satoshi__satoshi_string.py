"""Transcription of every function of pycoin/satoshi/satoshi_string.py as of the reviewed tree (see DESIGN.md section 12).
NEVER IMPORTED OR EXECUTED: parsed and compared in canonical form (sa/sym.py) with the functions in /repo."""


_CONSTS = {

}


# pycoin/satoshi/satoshi_string.py :: parse_satoshi_string
def q__parse_satoshi_string(f):
    size = parse_satoshi_int(f)
    return f.read(size)


# pycoin/satoshi/satoshi_string.py :: stream_satoshi_string
def q__stream_satoshi_string(f, v):
    stream_satoshi_int(f, len(v))
    f.write(v)
