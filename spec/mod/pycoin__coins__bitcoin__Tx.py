"""Transcription of every function of pycoin/coins/bitcoin/Tx.py as of the reviewed tree (see DESIGN.md section 12).
NEVER IMPORTED OR EXECUTED: parsed and compared in canonical form (sa/sym.py) with the functions in /repo."""


_CONSTS = {
    'ZERO32': b'\x00\x00\x00\x00\x00\x00\x00\x00\x00\x00\x00\x00\x00\x00\x00\x00\x00\x00\x00\x00\x00\x00\x00\x00\x00\x00\x00\x00\x00\x00\x00\x00',
}


# pycoin/coins/bitcoin/Tx.py :: Tx.coinbase_tx
def q__Tx__coinbase_tx(cls, public_key_sec, coin_value, coinbase_bytes=b'', version=1, lock_time=0):
    tx_in = cls.TxIn.coinbase_tx_in(script=coinbase_bytes)
    COINBASE_SCRIPT_OUT = '%s OP_CHECKSIG'
    script_text = COINBASE_SCRIPT_OUT % b2h(public_key_sec)
    script_bin = BitcoinScriptTools.compile(script_text)
    tx_out = cls.TxOut(coin_value, script_bin)
    return cls(version, [tx_in], [tx_out], lock_time)


# pycoin/coins/bitcoin/Tx.py :: Tx.parse
def q__Tx__parse(class_, f, allow_segwit=None):
    if allow_segwit is None:
        allow_segwit = class_.ALLOW_SEGWIT
    version, = parse_struct('L', f)
    v1 = ord(f.read(1))
    is_segwit = bool(allow_segwit and v1 == 0)
    v2 = None
    if is_segwit:
        flag = f.read(1)
        if flag == b'\x00' or len(flag) == 0:
            raise ValueError()
        v2 = ord(flag)
        is_segwit = v2 & 1
        if is_segwit:
            v1 = v2 = None
    count = parse_satoshi_int(f, v=v1)
    txs_in = []
    for i in range(count):
        txs_in.append(class_.TxIn.parse(f))
    count = parse_satoshi_int(f, v=v2)
    txs_out = []
    for i in range(count):
        txs_out.append(class_.TxOut.parse(f))
    if is_segwit:
        for tx_in in txs_in:
            stack = []
            count = parse_satoshi_int(f)
            for i in range(count):
                stack.append(parse_satoshi_string(f))
            tx_in.witness = stack
    lock_time, = parse_struct('L', f)
    return class_(version, txs_in, txs_out, lock_time)


# pycoin/coins/bitcoin/Tx.py :: Tx.tx_from_hex
def q__Tx__tx_from_hex(cls, hex_string):
    warnings.simplefilter('always', DeprecationWarning)
    warnings.warn('Call to deprecated function tx_from_hex, use from_hex instead', category=DeprecationWarning, stacklevel=2)
    warnings.simplefilter('default', DeprecationWarning)
    return cls.from_hex(hex_string)


# pycoin/coins/bitcoin/Tx.py :: Tx.__init__
def q__Tx____init__(self, version, txs_in, txs_out, lock_time=0, unspents=None):
    self.version = version
    self.txs_in = txs_in
    self.txs_out = txs_out
    self.lock_time = lock_time
    self.unspents = unspents or []
    for tx_in in self.txs_in:
        assert type(tx_in) is self.TxIn
    for tx_out in self.txs_out:
        assert type(tx_out) is self.TxOut


# pycoin/coins/bitcoin/Tx.py :: Tx.stream
def q__Tx__stream(self, f, blank_solutions=False, include_unspents=False, include_witness_data=True):
    include_witnesses = include_witness_data and self.has_witness_data()
    stream_struct('L', f, self.version)
    if include_witnesses:
        f.write(b'\x00\x01')
    stream_struct('I', f, len(self.txs_in))
    for t in self.txs_in:
        t.stream(f, blank_solutions=blank_solutions)
    stream_struct('I', f, len(self.txs_out))
    for t in self.txs_out:
        t.stream(f)
    if include_witnesses:
        for tx_in in self.txs_in:
            witness = tx_in.witness
            stream_struct('I', f, len(witness))
            for w in witness:
                stream_satoshi_string(f, w)
    stream_struct('L', f, self.lock_time)
    if include_unspents and (not self.missing_unspents()):
        self.stream_unspents(f)


# pycoin/coins/bitcoin/Tx.py :: Tx.set_witness
def q__Tx__set_witness(self, tx_idx_in, witness):
    self.txs_in[tx_idx_in].witness = tuple(witness)


# pycoin/coins/bitcoin/Tx.py :: Tx.has_witness_data
def q__Tx__has_witness_data(self):
    return any((len(tx_in.witness) > 0 for tx_in in self.txs_in))


# pycoin/coins/bitcoin/Tx.py :: Tx.hash
def q__Tx__hash(self, hash_type=None):
    s = io.BytesIO()
    self.stream(s, include_witness_data=False)
    if hash_type is not None:
        stream_struct('L', s, hash_type)
    return double_sha256(s.getvalue())


# pycoin/coins/bitcoin/Tx.py :: Tx.w_hash
def q__Tx__w_hash(self):
    return double_sha256(self.as_bin())


# pycoin/coins/bitcoin/Tx.py :: Tx.w_id
def q__Tx__w_id(self):
    return b2h_rev(self.w_hash())


# pycoin/coins/bitcoin/Tx.py :: Tx.blanked_hash
def q__Tx__blanked_hash(self):
    s = io.BytesIO()
    self.stream(s, blank_solutions=True)
    return double_sha256(s.getvalue())


# pycoin/coins/bitcoin/Tx.py :: Tx.total_out
def q__Tx__total_out(self):
    return sum((tx_out.coin_value for tx_out in self.txs_out))


# pycoin/coins/bitcoin/Tx.py :: Tx.tx_outs_as_spendable
def q__Tx__tx_outs_as_spendable(self, block_index_available=0):
    h = self.hash()
    return [self.Spendable.from_tx_out(tx_out, h, tx_out_index, block_index_available) for tx_out_index, tx_out in enumerate(self.txs_out)]


# pycoin/coins/bitcoin/Tx.py :: Tx.is_coinbase
def q__Tx__is_coinbase(self):
    return len(self.txs_in) == 1 and self.txs_in[0].is_coinbase()


# pycoin/coins/bitcoin/Tx.py :: Tx.__str__
def q__Tx____str__(self):
    return 'Tx [%s]' % self.id()


# pycoin/coins/bitcoin/Tx.py :: Tx.__repr__
def q__Tx____repr__(self):
    return 'Tx [%s] (v:%d) [%s] [%s]' % (self.id(), self.version, ', '.join((str(t) for t in self.txs_in)), ', '.join((str(t) for t in self.txs_out)))


# pycoin/coins/bitcoin/Tx.py :: Tx._check_tx_inout_count
def q__Tx___check_tx_inout_count(self):
    if not self.txs_out:
        raise ValidationFailureError()
    if not self.is_coinbase() and (not self.txs_in):
        raise ValidationFailureError()


# pycoin/coins/bitcoin/Tx.py :: Tx._check_size_limit
def q__Tx___check_size_limit(self):
    size = len(self.as_bin())
    if size > self.MAX_TX_SIZE:
        raise ValidationFailureError()


# pycoin/coins/bitcoin/Tx.py :: Tx._check_txs_out
def q__Tx___check_txs_out(self):
    nValueOut = 0
    for tx_out in self.txs_out:
        if tx_out.coin_value < 0 or tx_out.coin_value > self.MAX_MONEY:
            raise ValidationFailureError()
        nValueOut += tx_out.coin_value
        if nValueOut > self.MAX_MONEY:
            raise ValidationFailureError()


# pycoin/coins/bitcoin/Tx.py :: Tx._check_txs_in
def q__Tx___check_txs_in(self):
    if [x for x in self.txs_in if self.txs_in.count(x) > 1]:
        raise ValidationFailureError()
    if self.is_coinbase():
        if not 2 <= len(self.txs_in[0].script) <= 100:
            raise ValidationFailureError()
    else:
        refs = set()
        for tx_in in self.txs_in:
            if tx_in.is_coinbase():
                raise ValidationFailureError()
            pair = (tx_in.previous_hash, tx_in.previous_index)
            if pair in refs:
                raise ValidationFailureError()
            refs.add(pair)


# pycoin/coins/bitcoin/Tx.py :: Tx.check
def q__Tx__check(self):
    self._check_tx_inout_count()
    self._check_txs_out()
    self._check_txs_in()
    self._check_size_limit()


# pycoin/coins/bitcoin/Tx.py :: Tx.bad_solution_count
def q__Tx__bad_solution_count(self, *args, **kwargs):
    if self.is_coinbase():
        return 0
    return super(Tx, self).bad_solution_count(*args, **kwargs)


# pycoin/coins/bitcoin/Tx.py :: Tx.unspents_from_db
def q__Tx__unspents_from_db(self, tx_db, ignore_missing=False):
    unspents = []
    for tx_in in self.txs_in:
        if tx_in.is_coinbase():
            unspents.append(None)
            continue
        tx = tx_db.get(tx_in.previous_hash)
        if tx and tx.hash() == tx_in.previous_hash:
            unspents.append(tx.txs_out[tx_in.previous_index])
        elif ignore_missing:
            unspents.append(None)
        else:
            raise KeyError()
    self.unspents = unspents


# pycoin/coins/bitcoin/Tx.py :: Tx.missing_unspent
def q__Tx__missing_unspent(self, idx):
    if self.is_coinbase():
        return True
    if len(self.unspents) <= idx:
        return True
    return self.unspents[idx] is None


# pycoin/coins/bitcoin/Tx.py :: Tx.missing_unspents
def q__Tx__missing_unspents(self):
    if self.is_coinbase():
        return False
    return len(self.unspents) != len(self.txs_in) or any((self.missing_unspent(idx) for idx, tx_in in enumerate(self.txs_in)))


# pycoin/coins/bitcoin/Tx.py :: Tx.check_unspents
def q__Tx__check_unspents(self):
    if self.missing_unspents():
        raise ValueError()


# pycoin/coins/bitcoin/Tx.py :: Tx.stream_unspents
def q__Tx__stream_unspents(self, f):
    self.check_unspents()
    for tx_out in self.unspents:
        if tx_out is None:
            tx_out = self.TxOut(0, b'')
        tx_out.stream(f)


# pycoin/coins/bitcoin/Tx.py :: Tx.parse_unspents
def q__Tx__parse_unspents(self, f):
    unspents = []
    for i in enumerate(self.txs_in):
        tx_out_or_none = self.TxOut.parse(f)
        if tx_out_or_none.coin_value == 0:
            tx_out_or_none = None
        unspents.append(tx_out_or_none)
    self.set_unspents(unspents)


# pycoin/coins/bitcoin/Tx.py :: Tx.total_in
def q__Tx__total_in(self):
    if self.is_coinbase():
        return self.txs_out[0].coin_value
    self.check_unspents()
    return sum((tx_out.coin_value for tx_out in self.unspents))


# pycoin/coins/bitcoin/Tx.py :: Tx.fee
def q__Tx__fee(self):
    return self.total_in() - self.total_out()


# pycoin/coins/bitcoin/Tx.py :: Tx.validate_unspents
def q__Tx__validate_unspents(self, tx_db):
    tx_hashes = set((tx_in.previous_hash for tx_in in self.txs_in))
    tx_lookup = {}
    for h in tx_hashes:
        if h == ZERO32:
            continue
        the_tx = tx_db.get(h)
        if the_tx is None:
            raise KeyError()
        if the_tx.hash() != h:
            raise KeyError()
        tx_lookup[h] = the_tx
    for idx, tx_in in enumerate(self.txs_in):
        if tx_in.previous_hash == ZERO32:
            continue
        txs_out = tx_lookup[tx_in.previous_hash].txs_out
        if tx_in.previous_index > len(txs_out):
            raise BadSpendableError()
        tx_out1 = txs_out[tx_in.previous_index]
        tx_out2 = self.unspents[idx]
        if tx_out1.coin_value != tx_out2.coin_value:
            raise BadSpendableError()
        if tx_out1.script != tx_out2.script:
            raise BadSpendableError()
    return self.fee()
