"""C13 - value conservation: structural obligations (DESIGN.md section 4, C13)."""
from __future__ import annotations

import ast

from sa.core import Ob
from sa.pm import AnalysisError, norm, body_nodes
from sa import gi, df, ru
from sa.gi import IntSet, iv, GuardWalker, SymbolicAtomizer
from sa.cfg import stmt_paths, struct_dominates

TU = "pycoin/coins/tx_utils.py"
TX = "pycoin/coins/bitcoin/Tx.py"
CONV = "pycoin/convention/__init__.py"
SP = "pycoin/coins/bitcoin/Spendable.py"
U, E = IntSet.all(), IntSet.empty()


# ------------------------------------------------------------------ C13.1
def c13_1(ctx):
    f = ctx.func(TU, "distribute_from_split_pool")
    const = ru.const_resolver(ctx, f, {"zero_count"})
    w = GuardWalker(SymbolicAtomizer(ru.subject({"remaining_coins"}), const))
    ex = w.run(f.node.body)
    s, n = ru.guard_reject_set(f.node, w, ex, ru.is_raise, U, E)
    want = iv(None, ("s", -1))
    ctx.check(s == want, "insufficiency-set", ctx.where(f),
              "distribute_from_split_pool raises for remaining amounts %s; it must raise exactly when remaining < number of unspecified outputs (every split output gets at least one satoshi), i.e. %s"
              % (s.fmt("zero_count"), want.fmt("zero_count")), sample={"subject": "remaining_coins", "raises_for": s.fmt("zero_count")})
    neg, n2 = ru.guard_reject_set(f.node, w, ex, lambda e: ru.is_raise(e) and "insufficient" in norm(e.value), U, E)
    ctx.check(neg == iv(None, -1), "negative-remaining", ctx.where(f), "`insufficient inputs` is raised for %s, expected remaining < 0" % neg.fmt())
    paths = stmt_paths(f.node)
    writes = [st for st in body_nodes(f.node) if isinstance(st, ast.Assign) and isinstance(st.targets[0], ast.Attribute) and st.targets[0].attr == "coin_value"]
    raises = [n_ for n_ in body_nodes(f.node) if isinstance(n_, ast.If) and any(isinstance(x, ast.Raise) for x in n_.body) and "remaining_coins" in norm(n_.test)]
    ok = bool(writes) and len(raises) >= 1
    for wr in writes:
        lp = [n_ for n_ in body_nodes(f.node) if isinstance(n_, ast.For) and any(x is wr for x in ast.walk(n_))]
        tgt = lp[0] if lp else wr
        ok = ok and all(struct_dominates(paths, r, tgt) for r in raises)
    ctx.check(ok, "guards-before-writes", ctx.where(f), "the insufficiency guards do not all precede the loop that writes the split amounts (a partially modified transaction could be left behind)")
    # amounts only go to outputs that were zero
    lp = [n_ for n_ in body_nodes(f.node) if isinstance(n_, ast.For) and any(x in writes for x in ast.walk(n_))]
    ok = len(lp) == 1 and norm(lp[0].iter) == "zip(split_with_remainder(remaining_coins, zero_count), zero_txs_out)" and norm(lp[0].target) == "(value, tx_out)" and norm(writes[0]) == "tx_out.coin_value = value"
    ctx.check(ok, "shares-to-zero-outputs", ctx.where(f), "the shares are not zipped with the zero-valued outputs in transaction order")


# ------------------------------------------------------------------ C13.2
def c13_2(ctx):
    f = ctx.func(TU, "distribute_from_split_pool")
    d = df.single_defs(f.node)
    want = {"zero_txs_out": "[tx_out for tx_out in tx.txs_out if tx_out.coin_value == 0]", "zero_count": "len(zero_txs_out)",
            "total_coin_value": "sum((spendable.coin_value for spendable in tx.unspents))", "coins_allocated": "sum((tx_out.coin_value for tx_out in tx.txs_out)) + fee",
            "remaining_coins": "total_coin_value - coins_allocated"}
    for k, v in want.items():
        ctx.check(k in d and norm(d[k]) == v, "definition:%s" % k, ctx.where(f), "%s is `%s`; conservation requires `%s`" % (k, norm(d[k]) if k in d else None, v), sample={"name": k, "definition": norm(d[k]) if k in d else None})
    g = ctx.func(TU, "split_with_remainder")
    body = [norm(s) for s in g.node.body if not (isinstance(s, ast.Expr) and isinstance(s.value, ast.Constant))]
    tot, cnt = g.params()[:2]
    want_b = ["value_each, extra_count = divmod(%s, %s)" % (tot, cnt), "for _ in range(extra_count):\n    yield (value_each + 1)", "for _ in range(%s - extra_count):\n    yield value_each" % cnt]
    ctx.check(body == want_b, "split-shape", ctx.where(g),
              "split_with_remainder is %s; with (q, r) = divmod(total, count) it must yield r shares of q+1 first and then count-r shares of q (r(q+1) + (count-r)q = q*count + r = total)" % body,
              sample={"body": body, "identity": "r*(q+1) + (count-r)*q == q*count + r == total"})
    t = ctx.func(TX, "Tx.fee")
    ctx.check([norm(s) for s in t.node.body] == ["return self.total_in() - self.total_out()"], "fee-definition", ctx.where(t), "Tx.fee is not total_in() - total_out()")
    ti = ctx.func(TX, "Tx.total_in")
    tt = norm(ti.node)
    ctx.check("self.check_unspents()" in tt and "return sum((tx_out.coin_value for tx_out in self.unspents))" in tt, "total-in", ctx.where(ti), "Tx.total_in is not the sum of the spent outputs' values (after checking they are all known)")
    to = ctx.func(TX, "Tx.total_out")
    ctx.check("return sum((tx_out.coin_value for tx_out in self.txs_out))" in norm(to.node), "total-out", ctx.where(to), "Tx.total_out is not the sum of the outputs' values")
    # decimal conversions use exact decimal arithmetic
    m = ctx.p.module(CONV)
    it = ctx.interp
    mv = it.module(m.name)
    import decimal
    ctx.check(mv.ns.get("SATOSHI_PER_COIN") == decimal.Decimal(100000000) and mv.ns.get("SATOSHI_TO_MBTC") == decimal.Decimal(100000), "conversion-constants", CONV + ":1", "SATOSHI_PER_COIN / SATOSHI_TO_MBTC are not 10^8 / 10^5")
    bad = []
    for n_ in ast.walk(m.tree):
        if isinstance(n_, ast.Attribute) and n_.attr in ("Context", "localcontext", "setcontext", "prec", "BasicContext", "ExtendedContext") or (isinstance(n_, ast.Name) and n_.id in ("float",)):
            bad.append(n_)
    for b in bad:
        ctx.bad("inexact-decimal:%s" % norm(b), "%s:%d" % (CONV, b.lineno), "pycoin.convention uses `%s`: a reduced precision context / float rounds amounts of 10^15 satoshi and more; conversions must be exact over 0..21e14" % norm(b))
    want_f = {"satoshi_to_btc": ["r = satoshi_count * COIN_PER_SATOSHI", "return r.quantize(COIN_PER_SATOSHI)"], "btc_to_satoshi": ["return int(decimal.Decimal(btc) * SATOSHI_PER_COIN)"],
              "satoshi_to_mbtc": ["r = satoshi_count / SATOSHI_TO_MBTC", "return r.quantize(MBTC_PER_SATOSHI)"], "mbtc_to_satoshi": ["return int(decimal.Decimal(btc) * SATOSHI_TO_MBTC)"]}
    for name, frag in want_f.items():
        fn = ctx.func(CONV, name)
        t_ = norm(fn.node)
        ctx.check(all(x in t_ for x in frag), "conversion:%s" % name, ctx.where(fn), "%s is not the exact decimal conversion (%s)" % (name, frag), sample={"function": name})


# ------------------------------------------------------------------ C13.3
def c13_3(ctx):
    f = ctx.func(TU, "create_tx")
    top = [s for s in f.node.body if not (isinstance(s, ast.Expr) and isinstance(s.value, ast.Constant))]
    texts = [norm(s) for s in top]
    i_fix = [i for i, t in enumerate(texts) if t == "spendables = [_fix_spendable(s) for s in spendables]"]
    i_in = [i for i, t in enumerate(texts) if t == "txs_in = [spendable.tx_in() for spendable in spendables]"]
    i_un = [i for i, t in enumerate(texts) if t == "tx.set_unspents(spendables)"]
    ok = len(i_fix) == 1 and len(i_in) == 1 and len(i_un) == 1 and i_fix[0] < i_in[0] < i_un[0]
    ctx.check(ok, "inputs-and-unspents-same-list", ctx.where(f), "create_tx does not build the inputs and the recorded spent outputs from the same list in the same order")
    if ok:
        between = top[i_in[0] + 1:i_un[0]]
        touched = [norm(s) for s in between for n_ in ast.walk(s) if (isinstance(n_, ast.Name) and n_.id in ("spendables", "txs_in") and isinstance(n_.ctx, ast.Store)) or
                   (isinstance(n_, ast.Call) and isinstance(n_.func, ast.Attribute) and norm(n_.func.value) in ("spendables", "txs_in") and n_.func.attr in ("sort", "reverse", "pop", "insert", "remove", "append"))]
        ctx.check(not touched, "no-reordering", ctx.where(f), "create_tx reorders or rebinds the input list between building the inputs and recording the spent outputs: %s" % touched[:2])
    ctx.check("tx = Tx(version=version, txs_in=txs_in, txs_out=txs_out, lock_time=lock_time)" in texts and "distribute_from_split_pool(tx, fee)" in texts and texts.index("tx.set_unspents(spendables)") < texts.index("distribute_from_split_pool(tx, fee)"),
              "split-after-unspents", ctx.where(f), "create_tx does not distribute the split pool after the spent outputs are recorded")
    s = ctx.func(SP, "Spendable.tx_in")
    ctx.check("return self.TxIn(self.tx_hash, self.tx_out_index, script, sequence)" in norm(s.node), "spendable-outpoint", ctx.where(s), "Spendable.tx_in does not reference (tx_hash, tx_out_index)")
    su = ctx.func("pycoin/coins/Tx.py", "Tx.set_unspents")
    ctx.check("self.unspents = unspents" in norm(su.node), "unspents-stored", ctx.where(su), "set_unspents does not store the list as given")


# ------------------------------------------------------------------ C13.4
def c13_4(ctx):
    f = ctx.func(TX, "Tx.validate_unspents")
    loops = [n for n in body_nodes(f.node) if isinstance(n, ast.For)]
    cmp_loops = [lp for lp in loops if any(isinstance(x, ast.Raise) and "BadSpendableError" in norm(x) for x in ast.walk(lp))]
    if len(cmp_loops) != 1:
        ctx.bad("comparison-loop", ctx.where(f), "validate_unspents: expected one loop comparing every input with its source transaction, found %d" % len(cmp_loops))
        return
    lp = cmp_loops[0]
    ctx.check(norm(lp.iter) == "enumerate(self.txs_in)" and norm(lp.target) == "(idx, tx_in)", "every-input", ctx.where(f, lp), "the comparison loop iterates %s, expected enumerate(self.txs_in)" % norm(lp.iter))
    for n in body_nodes(lp):
        if isinstance(n, (ast.Continue, ast.Break)):
            t = ru.enclosing_test(lp, n)
            ok = t is not None and norm(t) in ("tx_in.previous_hash == ZERO32", "tx_in.is_coinbase()")
            ctx.check(ok and isinstance(n, ast.Continue), "skip-only-coinbase", ctx.where(f, n),
                      "validate_unspents skips an input under `%s`; only the null outpoint may be skipped, every other input's amount and script must be compared" % (norm(t) if t is not None else "<unconditional>"),
                      what="skip:%s" % (norm(t) if t is not None else ""), sample={"skip_condition": norm(t) if t is not None else None})
    w = GuardWalker(ru.opaque)
    ex = w.run(lp.body)
    rs = [e for e in ex if ru.is_raise_of("BadSpendableError")(e)]
    atoms = [o for e in rs for o in gi.f_opaques(e.cond)]
    ctx.check("tx_out1.coin_value != tx_out2.coin_value" in atoms, "amount-mismatch-raises", ctx.where(f, lp), "no BadSpendableError for a differing amount")
    ctx.check("tx_out1.script != tx_out2.script" in atoms, "script-mismatch-raises", ctx.where(f, lp), "no BadSpendableError for a differing script")
    d = {}
    for st in lp.body:
        if isinstance(st, ast.Assign) and isinstance(st.targets[0], ast.Name):
            d[st.targets[0].id] = norm(st.value)
    ctx.check(d.get("tx_out1") == "txs_out[tx_in.previous_index]" and d.get("txs_out") == "tx_lookup[tx_in.previous_hash].txs_out" and d.get("tx_out2") == "self.unspents[idx]", "compared-objects", ctx.where(f, lp),
              "the comparison is not between source_tx.txs_out[previous_index] and self.unspents[idx]: %s" % d)
    # normal exit only after the loop
    rets = df.returns_of(f.node)
    ctx.check(len(rets) == 1 and rets[0] in f.node.body and f.node.body.index(rets[0]) > f.node.body.index(lp), "return-after-loop", ctx.where(f), "validate_unspents can return before every input was compared")
    # authenticity of the source transactions
    t = norm(f.node)
    ctx.check("if the_tx.hash() != h:" in t and "if the_tx is None:" in t, "source-authenticated", ctx.where(f), "validate_unspents does not check that each source transaction exists and hashes to the referenced id")
    src = [l2 for l2 in loops if l2 is not lp and "tx_db.get(h)" in norm(l2)]
    ok = len(src) == 1 and norm(src[0].iter) == "tx_hashes" and "tx_hashes = set((tx_in.previous_hash for tx_in in self.txs_in))" in t
    ctx.check(ok, "all-sources-loaded", ctx.where(f), "validate_unspents does not load the source transaction of every input")


OBLIGATIONS = [
    Ob("C13.1", "insufficiency guards as intervals, dominating the writes of split amounts", c13_1, floor=4, engines="GI,CFG", breaks_if="1 .. zero_count-1 satoshi left for several unspecified outputs"),
    Ob("C13.2", "fee / total / split definitions; divmod identity; exact decimal conversions", c13_2, floor=12, engines="DF,LIN,CE", breaks_if="amounts >= 10^15 satoshi in the decimal conversions"),
    Ob("C13.3", "inputs and recorded spent outputs come from one list, unreordered", c13_3, floor=4, engines="DF"),
    Ob("C13.4", "validate_unspents compares amount and script of every non-coinbase input", c13_4, floor=7, engines="CFG,DF", breaks_if="two inputs spending the same source transaction, discrepancy on the later one"),
]
