"""C13 - value conservation: structural obligations (DESIGN.md section 4, C13)."""
from __future__ import annotations

import ast

from sa.core import Ob
from sa.pm import AnalysisError, norm, body_nodes
from sa import gi, df, ru, sym
from sa.pm import Undecided
from sa.gi import IntSet, iv, GuardWalker, SymbolicAtomizer
from sa.cfg import stmt_paths, struct_dominates

TU = "pycoin/coins/tx_utils.py"
TX = "pycoin/coins/bitcoin/Tx.py"
CONV = "pycoin/convention/__init__.py"
SP = "pycoin/coins/bitcoin/Spendable.py"
U, E = IntSet.all(), IntSet.empty()


_REF = None


def _ref():
    global _REF
    if _REF is None:
        import os
        _REF = ast.parse(open(os.path.join(os.path.dirname(os.path.dirname(os.path.abspath(__file__))), "spec", "ref_value.py")).read())
    return _REF


INTS = lambda t: t in ("fee", "zero_count", "total_coin_value", "coins_allocated", "remaining_coins", "value_each", "extra_count", "total_amount", "split_count", "idx", "coin_value") or t.startswith(("len(", "sum(", "self.total_"))


def _refcheck(ctx, rel, dotted, refname, key, ints=None):
    fi = ctx.p.functions.get(ctx.p.module(rel).name + "." + dotted) or ctx.func(rel, dotted)
    return sym.against_reference(ctx, fi, _ref(), refname, key, ints or INTS)


# ------------------------------------------------------------------ C13.1
def c13_1(ctx):
    f = ctx.func(TU, "distribute_from_split_pool")
    _refcheck(ctx, TU, "distribute_from_split_pool", "tu_distribute", "split-pool")
    # the insufficiency guards come before any output is written: every write of a coin_value is reached only when no guard raised
    w = sym.walk(ctx, f, int_names=INTS)
    writes = [e for e in w.effects if e.kind == "setattr" and e.attr == "coin_value"]
    raises = sym.exits_formula(w, ru.is_raise)
    if not writes:
        raise Undecided("distribute_from_split_pool writes no coin_value")
    # the request `estimate the fee` is told from a fee by a value no NUMBER equals: a sentinel compared with == / in that is (or
    # contains) a bool or an int is taken for the fee of that amount (True == 1, so a fee of one satoshi is replaced by the estimate)
    fee_p = f.params()[1]
    cof = sym.make_const_of(ctx, f, tables=True)
    numeric = []
    for n in ast.walk(sym.expanded(ctx, f)):
        if isinstance(n, ast.Compare) and len(n.ops) == 1 and isinstance(n.ops[0], (ast.Eq, ast.NotEq, ast.In, ast.NotIn)):
            sides = [n.left, n.comparators[0]]
            if not any(isinstance(x, ast.Name) and x.id == fee_p for x in sides):
                continue
            other = sides[1] if isinstance(sides[0], ast.Name) and sides[0].id == fee_p else sides[0]
            vals = None
            if isinstance(other, ast.Constant):
                vals = [other.value]
            elif isinstance(other, (ast.Tuple, ast.List, ast.Set)) and all(isinstance(x, ast.Constant) for x in other.elts):
                vals = [x.value for x in other.elts]
            elif isinstance(other, (ast.Name, ast.Attribute)):
                v_ = cof(other)
                vals = list(v_) if isinstance(v_, (tuple, list)) else ([v_] if v_ is not None else None)
                if vals is None:
                    a_ = sym.make_assign_resolver(ctx, f)(other) if isinstance(other, ast.Name) else None
                    if isinstance(a_, (ast.Tuple, ast.List, ast.Set)) and all(isinstance(x, ast.Constant) for x in a_.elts):
                        vals = [x.value for x in a_.elts]
                    elif isinstance(a_, ast.Constant):
                        vals = [a_.value]
            if vals is not None and isinstance(n.ops[0], (ast.In, ast.NotIn, ast.Eq, ast.NotEq)) and any(isinstance(v_, (bool, int, float)) for v_ in vals) and any(isinstance(v_, str) for v_ in vals):
                numeric.append((n, vals))
    ctx.check(not numeric, "fee-sentinel-is-no-number", ctx.where(f, numeric[0][0]) if numeric else ctx.where(f),
              "distribute_from_split_pool tells `estimate the fee` from a fee with `%s` over %r: a numeric fee equal to one of these (True == 1) is replaced by the estimate, and outputs + requested fee no longer equal the inputs"
              % (norm(numeric[0][0])[:60] if numeric else "", numeric[0][1] if numeric else None), sample={"sentinel_values_that_equal_a_number": 0})
    # with no output left to split the outputs as given must still be covered by the inputs
    _plain = lambda o: "tx.txs_out" in o and "tx.unspents" in o and " < " in o and "fee" not in o and "len(" not in o
    ctx.check(sym.exit_under(w, ru.is_raise, _plain) or sym.exit_under(w, ru.is_raise, _plain, positive=False), "funds-cover-fixed-outputs", ctx.where(f),
              "distribute_from_split_pool never compares the sum of the outputs with the sum of the inputs on its own (only together with the number of outputs to split): fixed outputs that exceed the inputs are accepted")
    for e in writes:
        ctx.check(e.loops != () and not any(x.kind == "raise" and x.node is not None and any(l.node is y for l in e.loops for y in [l.node] if any(z is x.node for z in ast.walk(y))) for x in w.exits), "guards-before-writes", ctx.where(f, e.node),
                  "an insufficiency guard is evaluated inside the loop that writes the split amounts (a partially modified transaction could be left behind)")


# ------------------------------------------------------------------ C13.2
def c13_2(ctx):
    _refcheck(ctx, TU, "split_with_remainder", "tu_split", "split-shape")
    _refcheck(ctx, TX, "Tx.fee", "tx_fee", "fee-definition")
    _refcheck(ctx, TX, "Tx.total_in", "tx_total_in", "total-in")
    _refcheck(ctx, TX, "Tx.total_out", "tx_total_out", "total-out")
    # decimal conversions use exact decimal arithmetic
    m = ctx.p.module(CONV)
    it = ctx.interp
    mv = it.module(m.name)
    import decimal
    spc, stm = mv.ns.get("SATOSHI_PER_COIN"), mv.ns.get("SATOSHI_TO_MBTC")
    ctx.check(spc == decimal.Decimal(100000000) and stm == decimal.Decimal(100000), "conversion-constants", CONV + ":1", "SATOSHI_PER_COIN / SATOSHI_TO_MBTC are %r / %r, not 10^8 / 10^5 as Decimal" % (spc, stm))
    bad = []
    for n_ in ast.walk(m.tree):
        if isinstance(n_, ast.Attribute) and n_.attr in ("Context", "localcontext", "setcontext", "prec", "BasicContext", "ExtendedContext") or (isinstance(n_, ast.Name) and n_.id in ("float",)):
            bad.append(n_)
    for b in bad:
        ctx.bad("inexact-decimal:%s" % norm(b), "%s:%d" % (CONV, b.lineno), "pycoin.convention uses `%s`: a reduced precision context / float rounds amounts of 10^15 satoshi and more; conversions must be exact over 0..21*10^14" % norm(b))
    for name in ("satoshi_to_btc", "btc_to_satoshi", "satoshi_to_mbtc", "mbtc_to_satoshi"):
        _refcheck(ctx, CONV, name, "cv_" + name, "conversion:%s" % name, ints=lambda t: False)


# ------------------------------------------------------------------ C13.3
def c13_3(ctx):
    _refcheck(ctx, TU, "create_tx", "tu_create_tx", "inputs-and-unspents-same-list")
    _refcheck(ctx, SP, "Spendable.tx_in", "sp_tx_in", "spendable-outpoint")
    _refcheck(ctx, "pycoin/coins/Tx.py", "Tx.set_unspents", "btx_set_unspents", "unspents-stored")
    # every spendable handed in becomes an input: between the parameter and the comprehension that makes the inputs, the list is
    # only mapped element by element (never filtered, de-duplicated, sliced or re-ordered) -- a spendable that is dropped takes its
    # value out of `outputs + fee = inputs`, and shifts the pairing of every later input
    ct = ctx.func(TU, "create_tx")
    sp = ct.params()[1]
    dropping = []
    unread = []

    def elementwise(v):
        if isinstance(v, ast.Name):
            return v.id == sp
        if isinstance(v, (ast.ListComp, ast.GeneratorExp)) and len(v.generators) == 1:
            g = v.generators[0]
            if g.ifs:
                return None
            return elementwise(g.iter)
        if isinstance(v, ast.Call) and isinstance(v.func, ast.Name) and v.func.id in ("list", "tuple") and len(v.args) == 1:
            return elementwise(v.args[0])
        if isinstance(v, ast.Call) and isinstance(v.func, ast.Name) and v.func.id == "map" and len(v.args) == 2:
            return elementwise(v.args[1])
        return None
    for n in ast.walk(ct.node):
        if isinstance(n, ast.Assign) and len(n.targets) == 1 and isinstance(n.targets[0], ast.Name) and n.targets[0].id == sp:
            ew = elementwise(n.value)
            if ew:
                continue
            t = norm(n.value)
            if any(k in t for k in ("dict.fromkeys(", "set(", "filter(", "OrderedDict", "unique", "sorted(")) or (isinstance(n.value, (ast.ListComp, ast.GeneratorExp)) and any(g.ifs for g in n.value.generators)) or \
                    (isinstance(n.value, ast.Subscript) and isinstance(n.value.slice, ast.Slice)):
                dropping.append(n)
            else:
                unread.append(n)
    for n in dropping:
        ctx.bad("every-spendable-becomes-an-input", ctx.where(ct, n), "create_tx re-binds its list of spendables to `%s`: elements can be dropped or re-ordered (two spendables that compare equal, whatever equality their class defines, become one), "
                "so outputs + fee no longer equal the inputs that were given and later inputs are paired with other spendables" % norm(n.value)[:70], sample={"rebinding": norm(n.value)[:70]})
    for n in unread:
        ctx.undecided("every-spendable-becomes-an-input", ctx.where(ct, n), "create_tx re-binds its list of spendables to `%s`; this clause reads element-wise mappings only" % norm(n.value)[:70])
    if not dropping and not unread:
        ctx.ok("every-spendable-becomes-an-input", sample={"rebindings": "element-wise"})
    # unspents[i] is the output spent by txs_in[i]: the list unspents_from_db records is filled in the order of the inputs -- each
    # element is appended inside a loop that ranges over self.txs_in itself (a loop over a grouping of the inputs, a dict keyed by
    # source transaction, yields first-appearance-of-source order, and amounts / scripts are paired with the wrong inputs)
    ud = ctx.func(TX, "Tx.unspents_from_db")
    node = sym.expanded(ctx, ud)
    stored = [n for n in ast.walk(node) if isinstance(n, ast.Assign) and any(norm(t) == "self.unspents" for t in n.targets)]
    names = {norm(n.value) for n in stored if isinstance(n.value, ast.Name)}
    if not names:
        ctx.undecided("unspents-in-input-order", ctx.where(ud), "unspents_from_db does not store a local list in self.unspents")
    for nm in sorted(names):
        fills = []
        def visit(n, loops):
            for c in ast.iter_child_nodes(n):
                if isinstance(c, ast.Call) and isinstance(c.func, ast.Attribute) and c.func.attr in ("append", "extend", "insert") and norm(c.func.value) == nm:
                    fills.append((c, loops))
                visit(c, loops + [c] if isinstance(c, (ast.For, ast.While)) else loops)
        visit(node, [])
        if not fills:
            ctx.undecided("unspents-in-input-order", ctx.where(ud), "unspents_from_db: `%s` is not filled by append / extend" % nm)
        for c, loops in fills:
            its = [norm(l.iter) for l in loops if isinstance(l, ast.For)]
            over_inputs = any(t in ("self.txs_in", "enumerate(self.txs_in)", "range(len(self.txs_in))") for t in its)
            grouped = [t for t in its if t.endswith((".items()", ".values()", ".keys()")) or "groupby(" in t or "sorted(" in t or "set(" in t]
            if over_inputs and not grouped:
                ctx.ok("unspents-in-input-order", sample={"filled_in_loop_over": its})
            elif grouped:
                ctx.bad("unspents-in-input-order", ctx.where(ud, c), "unspents_from_db appends to the recorded spent outputs inside a loop over `%s`: the list comes out in that collection's order, not in the order of self.txs_in, so unspents[i] is no longer the output txs_in[i] spends" % grouped[0][:60])
            else:
                ctx.undecided("unspents-in-input-order", ctx.where(ud, c), "unspents_from_db fills the list in loops over %s; this rule reads loops over self.txs_in" % its)


# ------------------------------------------------------------------ C13.4
def c13_4(ctx):
    f = ctx.func(TX, "Tx.validate_unspents")
    _refcheck(ctx, TX, "Tx.validate_unspents", "tx_validate_unspents", "comparison")
    # only the null outpoint may be skipped
    w = sym.walk(ctx, f, int_names=INTS)
    skips = [e for e in w.effects if e.kind == "continue" and e.loops and norm(e.loops[-1].iter or ast.Constant(0)) in ("enumerate(self.txs_in)", "self.txs_in", "zip(self.txs_in, self.unspents)", "range(len(self.txs_in))")]
    for e in skips:
        lp_reach = e.loops[-1].reach
        ops = [o for o in (gi.f_opaques(e.reach) if e.reach not in (True, False) else []) if o not in (gi.f_opaques(lp_reach) if lp_reach not in (True, False) else [])]
        ok = bool(ops) and all(("previous_hash" in o and repr(b"\0" * 32) in o) or o.endswith(".is_coinbase())") for o in ops)
        ctx.check(ok, "skip-only-coinbase", ctx.where(f, e.node), "validate_unspents skips an input under `%s`; only the null outpoint may be skipped, every other input's amount and script must be compared" % (ops or "<unconditional>"),
                  what="skip:%s" % ops, sample={"skip_condition": ops})
    ctx.ok("skip-conditions-analysed")
    # every input is compared: the mismatch errors are raised inside a loop that runs over the inputs themselves, not over a
    # collection keyed by something several inputs share (a dict or set keyed by the source transaction keeps one input each)
    per_input = ("enumerate(self.txs_in)", "self.txs_in", "zip(self.txs_in, self.unspents)", "range(len(self.txs_in))", "enumerate(zip(self.txs_in, self.unspents))", "range(len(self.unspents))")
    mism = [e for e in w.effects if e.kind == "call" and norm(e.call.func).endswith("BadSpendableError")]
    if not mism:
        raise Undecided("validate_unspents raises no BadSpendableError itself; this rule does not read where the comparison went")
    for e in mism:
        if not e.loops:
            ctx.undecided("every-input-compared", ctx.where(f, e.node), "a BadSpendableError is raised outside any loop; this rule reads comparisons made per input only")
            continue
        lp = e.loops[-1]
        it_ = lp.iter
        t = norm(it_) if it_ is not None else ""
        keyed = isinstance(it_, (ast.Dict, ast.DictComp, ast.Set, ast.SetComp)) or t.startswith(("set(", "dict(", "frozenset(")) or (
            isinstance(it_, ast.Call) and isinstance(it_.func, ast.Attribute) and it_.func.attr in ("items", "keys", "values") and (
                isinstance(it_.func.value, (ast.Dict, ast.DictComp)) or norm(it_.func.value).startswith(("dict(", "{"))))
        # ... and for every input: not only when the source transaction is met for the first time (a cache filled in the loop)
        filled = {norm(x.target) for x in w.effects if x.kind == "setitem" and x.loops and x.loops[-1].node is lp.node and isinstance(x.target, ast.Name)}
        filled |= {x.call.func.value.id for x in w.effects if x.kind == "call" and x.loops and x.loops[-1].node is lp.node and isinstance(x.call.func, ast.Attribute)
                   and x.call.func.attr in ("add", "setdefault", "update") and isinstance(x.call.func.value, ast.Name)}
        first_only = [o for o in (gi.f_opaques(e.reach) if e.reach not in (True, False) else []) if isinstance(o, str) and any(o.endswith(" in %s" % c) for c in filled)
                      and sym.entails(e.reach, ("not", ("op", o)))]
        if first_only:
            ctx.bad("every-input-compared", ctx.where(f, e.node), "validate_unspents compares an input only when `%s` is false, and the loop itself makes it true: of several inputs spending from one source transaction only the first is compared"
                    % first_only[0][:90], sample={"only_when_not": first_only[0][:120]})
        elif t in per_input:
            ctx.ok("every-input-compared", sample={"loop": t})
        elif keyed and "previous_hash" in t:
            ctx.bad("every-input-compared", ctx.where(f, e.node), "validate_unspents compares inside a loop over `%s`, a collection keyed by the source transaction: of several inputs spending from one transaction only one is compared with its authenticated output"
                    % t[:100], sample={"loop": t[:140]})
        else:
            ctx.undecided("every-input-compared", ctx.where(f, e.node), "the comparison runs in a loop over `%s`; this rule reads loops over the inputs themselves" % t[:80])


# ------------------------------------------------------------------ C13.5
def c13_5(ctx):
    """conservation clauses phrased over the functions' inputs"""
    # (a) quotient and remainder of the split are taken by the SAME divisor, the number of shares
    f = ctx.func(TU, "split_with_remainder")
    total, count = f.params()[:2]
    w = sym.walk(ctx, f, int_names=INTS)
    terms = [e.value for e in w.effects if e.kind == "yield" and e.value is not None]
    for e in w.effects:
        for l in e.loops:
            if l.iter is not None:
                terms.append(l.iter if isinstance(l.iter, ast.AST) else w.sub(l.iter))
    divs = []
    for t in terms:
        for n in ast.walk(t):
            if isinstance(n, ast.BinOp) and isinstance(n.op, (ast.Mod, ast.FloorDiv)) and any(isinstance(x, ast.Name) and x.id == total for x in ast.walk(n.left)):
                divs.append((n, norm(n.right)))
            elif isinstance(n, ast.Call) and norm(n.func) == "divmod" and len(n.args) == 2 and any(isinstance(x, ast.Name) and x.id == total for x in ast.walk(n.args[0])):
                divs.append((n, norm(n.args[1])))
    if not divs:
        ctx.undecided("split-one-divisor", ctx.where(f), "split_with_remainder: no quotient / remainder of the total found in what it yields")
    for n, d in divs:
        ctx.check(d == count, "split-one-divisor", ctx.where(f), "split_with_remainder computes `%s`: quotient and remainder must both be taken by the number of shares `%s`, or the shares do not add up to the total" % (norm(n)[:80], count),
                  sample={"term": norm(n)[:60], "divisor": d})
    # (b) the fee is inputs minus outputs as it is: no clamping, no rounding
    g = ctx.func(TX, "Tx.fee")
    wg = sym.walk(ctx, g)
    for e in [e for e in wg.exits if e.kind == "return" and e.value is not None]:
        v = wg.sub(e.value)
        t = norm(v)
        if isinstance(v, ast.BinOp) and isinstance(v.op, ast.Sub) and "total_in" in norm(v.left) and "total_out" in norm(v.right):
            ctx.ok("fee-is-the-difference", sample={"fee": t[:60]})
        elif "total_in" in t and "total_out" in t and isinstance(v, ast.Call) and norm(v.func) in ("max", "min", "abs", "int", "round"):
            ctx.bad("fee-is-the-difference", ctx.where(g, e.node), "Tx.fee returns `%s`: the difference inputs - outputs is passed through %s, so an overspending transaction no longer shows a negative fee" % (t[:80], norm(v.func)))
        else:
            ctx.undecided("fee-is-the-difference", ctx.where(g, e.node), "Tx.fee returns `%s`; this rule reads `total_in() - total_out()`" % t[:80])
    # (c) spent outputs are `missing` whenever their count is not the number of inputs (a LONGER list would be summed by total_in)
    m = ctx.func(TX, "Tx.missing_unspents")
    wm = sym.walk(ctx, m, int_names=INTS)
    truth = sym.truth_formula(wm)
    atoms = sorted(a for a in (set(gi.f_opaques(truth)) if truth not in (True, False) else set()) | sym.all_atoms(wm) if isinstance(a, str) and "len(self.unspents)" in a and "len(self.txs_in)" in a)
    if atoms:
        a = atoms[0]
        differ = ("not", ("op", a)) if (" == " in a) else ("op", a)
        cb = [o for o in sym.all_atoms(wm) if "is_coinbase" in o]
        assume = gi.f_and(differ, *[("not", ("op", o)) for o in cb])
        ctx.check(sym.entails(assume, truth), "count-mismatch-is-missing", ctx.where(m), "Tx.missing_unspents does not answer True whenever the number of recorded spent outputs differs from the number of inputs (test `%s`)" % a[:80], sample={"test": a[:80]})
    else:
        longer = any("len(self.unspents)" in o for o in sym.all_atoms(wm))
        if longer:
            ctx.undecided("count-mismatch-is-missing", ctx.where(m), "Tx.missing_unspents looks at len(self.unspents) in a form this rule does not read")
        else:
            ctx.bad("count-mismatch-is-missing", ctx.where(m), "Tx.missing_unspents never compares the number of recorded spent outputs with the number of inputs: a list with MORE entries than inputs passes, and total_in() / fee() then sum outputs that no input spends")
    # (e) the amounts written to the unspecified outputs come from split_with_remainder, the one place whose shares are shown to
    #     add up to the total (C13.2): a second split written out next to it shares none of that argument
    dsp = ctx.func(TU, "distribute_from_split_pool")
    wd = sym.walk(ctx, dsp, int_names=INTS)
    cw = [e for e in wd.effects if e.kind == "setattr" and e.attr == "coin_value"]
    uses_split = any("split_with_remainder(" in norm(n) for n in ast.walk(sym.expanded(ctx, dsp)) if isinstance(n, ast.Call))
    if not cw:
        ctx.undecided("split-through-split_with_remainder", ctx.where(dsp), "distribute_from_split_pool writes no coin_value")
    elif uses_split:
        ctx.ok("split-through-split_with_remainder", sample={"writes": len(cw), "amounts_from": "split_with_remainder(..)"})
    elif (ctx.p.module(TU).name + ".split_with_remainder") not in ctx.p.functions:
        ctx.undecided("split-through-split_with_remainder", ctx.where(dsp), "split_with_remainder is no longer a function of tx_utils (inlined or moved): where the shares come from is not read here")
    else:
        own = [e for e in cw if any(isinstance(x, ast.BinOp) and isinstance(x.op, (ast.FloorDiv, ast.Mod, ast.Add)) for x in ast.walk(e.value)) or "divmod(" in norm(e.value)]
        if own:
            ctx.bad("split-through-split_with_remainder", ctx.where(dsp, own[0].node), "distribute_from_split_pool computes the shares itself (`%s`) instead of taking them from split_with_remainder: which outputs get the extra satoshi, and that the shares add up, is decided a second time here" % norm(own[0].value)[:80])
        else:
            ctx.undecided("split-through-split_with_remainder", ctx.where(dsp), "distribute_from_split_pool neither calls split_with_remainder nor shows arithmetic of its own in the written amounts")
    # (d) wrappers hand the fee on as given: 0 is a fee (`fee or default` replaces it)
    c = ctx.func(TU, "create_signed_tx")
    wc = sym.walk(ctx, c)
    calls = sym.calls_matching(wc, lambda t: t == "create_tx" or t.endswith(".create_tx"))
    if not calls:
        ctx.undecided("fee-forwarded", ctx.where(c), "create_signed_tx does not call create_tx")
    for e in calls:
        fv = next((k.value for k in e.call.keywords if k.arg == "fee"), e.call.args[3] if len(e.call.args) > 3 else None)
        if fv is None:
            ctx.undecided("fee-forwarded", ctx.where(c, e.node), "create_signed_tx calls create_tx without a fee argument")
        elif isinstance(fv, ast.Name) and fv.id == "fee":
            ctx.ok("fee-forwarded", sample={"fee_argument": norm(fv)})
        elif isinstance(fv, (ast.BoolOp, ast.IfExp)) and any(isinstance(x, ast.Name) and x.id == "fee" for x in ast.walk(fv)) and not any("is None" in norm(x) for x in ast.walk(fv) if isinstance(x, ast.Compare)):
            ctx.bad("fee-forwarded", ctx.where(c, e.node), "create_signed_tx hands `%s` to create_tx: a requested fee of 0 is falsy and is replaced, so outputs + requested fee no longer equal the inputs" % norm(fv)[:60])
        else:
            ctx.undecided("fee-forwarded", ctx.where(c, e.node), "create_signed_tx hands `%s` to create_tx as the fee" % norm(fv)[:60])


OBLIGATIONS = [
    Ob("C13.1", "insufficiency guards as intervals, dominating the writes of split amounts", c13_1, floor=2, engines="SYM", breaks_if="1 .. zero_count-1 satoshi left for several unspecified outputs"),
    Ob("C13.2", "fee / total / split definitions; divmod identity; exact decimal conversions", c13_2, floor=9, engines="SYM,CE", breaks_if="amounts >= 10^15 satoshi in the decimal conversions"),
    Ob("C13.3", "inputs and recorded spent outputs come from one list, unreordered", c13_3, floor=3, engines="SYM"),
    Ob("C13.4", "validate_unspents compares amount and script of every non-coinbase input", c13_4, floor=2, engines="SYM", breaks_if="two inputs spending the same source transaction, discrepancy on the later one"),
    Ob("C13.5", "conservation clauses over the inputs: one divisor for quotient and remainder, fee = inputs - outputs unclamped, a count mismatch of spent outputs is `missing`, the fee is forwarded as given", c13_5, floor=4, engines="SYM",
       breaks_if="dust-sized split pools; overspending transactions; more recorded spent outputs than inputs; fee=0"),
]
