"""Transcription of every function of pycoin/networks/bitcoinish.py as of the reviewed tree (see DESIGN.md section 12).
NEVER IMPORTED OR EXECUTED: parsed and compared in canonical form (sa/sym.py) with the functions in /repo."""


_CONSTS = {

}


# pycoin/networks/bitcoinish.py :: make_output_for_secret_exponent
def q__make_output_for_secret_exponent(Key):

    def f(secret_exponent):
        yield ('secret_exponent', '%d' % secret_exponent, None)
        yield ('secret_exponent_hex', '%x' % secret_exponent, ' hex')
        key = Key(secret_exponent)
        yield ('wif', key.wif(is_compressed=True), None)
        yield ('wif_uncompressed', key.wif(is_compressed=False), ' uncompressed')
    return f


# pycoin/networks/bitcoinish.py :: make_output_for_secret_exponent.f
def q__make_output_for_secret_exponent__f(secret_exponent):
    yield ('secret_exponent', '%d' % secret_exponent, None)
    yield ('secret_exponent_hex', '%x' % secret_exponent, ' hex')
    key = Key(secret_exponent)
    yield ('wif', key.wif(is_compressed=True), None)
    yield ('wif_uncompressed', key.wif(is_compressed=False), ' uncompressed')


# pycoin/networks/bitcoinish.py :: make_output_for_public_pair
def q__make_output_for_public_pair(Key, network):

    def f(public_pair):
        yield ('public_pair_x', '%d' % public_pair[0], None)
        yield ('public_pair_y', '%d' % public_pair[1], None)
        yield ('public_pair_x_hex', '%x' % public_pair[0], ' x as hex')
        yield ('public_pair_y_hex', '%x' % public_pair[1], ' y as hex')
        yield ('y_parity', 'odd' if public_pair[1] & 1 else 'even', None)
        key = Key(public_pair=public_pair)
        yield ('key_pair_as_sec', b2h(key.sec(is_compressed=True)), None)
        yield ('key_pair_as_sec_uncompressed', b2h(key.sec(is_compressed=False)), ' uncompressed')
        network_name = network.network_name
        hash160_u = key.hash160(is_compressed=False)
        hash160_c = key.hash160(is_compressed=True)
        yield ('hash160', b2h(hash160_c), None)
        if hash160_c and hash160_u:
            yield ('hash160_uncompressed', b2h(hash160_u), ' uncompressed')
        address = network.address.for_p2pkh(hash160_c)
        yield ('address', address, '%s address' % network_name)
        yield ('%s_address' % network.symbol, address, 'legacy')
        address = key.address(is_compressed=False)
        yield ('address_uncompressed', address, '%s address uncompressed' % network_name)
        yield ('%s_address_uncompressed' % network.symbol, address, 'legacy')
        if hash160_c:
            address_segwit = network.address.for_p2pkh_wit(hash160_c) if network.address else None
            if address_segwit:
                yield ('address_segwit', address_segwit, '%s segwit address' % network_name)
                yield ('%s_address_segwit' % network.symbol, address_segwit, 'legacy')
                p2sh_script = network.contract.for_p2pkh_wit(hash160_c)
                p2s_address = network.address.for_p2s(p2sh_script)
                if p2s_address:
                    yield ('p2sh_segwit', p2s_address, None)
                p2sh_script_hex = b2h(p2sh_script)
                yield ('p2sh_segwit_script', p2sh_script_hex, ' corresponding p2sh script')
    return f


# pycoin/networks/bitcoinish.py :: make_output_for_public_pair.f
def q__make_output_for_public_pair__f(public_pair):
    yield ('public_pair_x', '%d' % public_pair[0], None)
    yield ('public_pair_y', '%d' % public_pair[1], None)
    yield ('public_pair_x_hex', '%x' % public_pair[0], ' x as hex')
    yield ('public_pair_y_hex', '%x' % public_pair[1], ' y as hex')
    yield ('y_parity', 'odd' if public_pair[1] & 1 else 'even', None)
    key = Key(public_pair=public_pair)
    yield ('key_pair_as_sec', b2h(key.sec(is_compressed=True)), None)
    yield ('key_pair_as_sec_uncompressed', b2h(key.sec(is_compressed=False)), ' uncompressed')
    network_name = network.network_name
    hash160_u = key.hash160(is_compressed=False)
    hash160_c = key.hash160(is_compressed=True)
    yield ('hash160', b2h(hash160_c), None)
    if hash160_c and hash160_u:
        yield ('hash160_uncompressed', b2h(hash160_u), ' uncompressed')
    address = network.address.for_p2pkh(hash160_c)
    yield ('address', address, '%s address' % network_name)
    yield ('%s_address' % network.symbol, address, 'legacy')
    address = key.address(is_compressed=False)
    yield ('address_uncompressed', address, '%s address uncompressed' % network_name)
    yield ('%s_address_uncompressed' % network.symbol, address, 'legacy')
    if hash160_c:
        address_segwit = network.address.for_p2pkh_wit(hash160_c) if network.address else None
        if address_segwit:
            yield ('address_segwit', address_segwit, '%s segwit address' % network_name)
            yield ('%s_address_segwit' % network.symbol, address_segwit, 'legacy')
            p2sh_script = network.contract.for_p2pkh_wit(hash160_c)
            p2s_address = network.address.for_p2s(p2sh_script)
            if p2s_address:
                yield ('p2sh_segwit', p2s_address, None)
            p2sh_script_hex = b2h(p2sh_script)
            yield ('p2sh_segwit_script', p2sh_script_hex, ' corresponding p2sh script')


# pycoin/networks/bitcoinish.py :: create_bitcoinish_network
def q__create_bitcoinish_network(symbol, network_name, subnet_name, **kwargs):
    generator = kwargs.get('generator', secp256k1_generator)
    kwargs.setdefault('sec_prefix', '%sSEC:' % symbol.upper())
    KEYS_TO_H2B = 'bip32_prv_prefix bip32_pub_prefix bip49_prv_prefix bip49_pub_prefix bip84_prv_prefix bip84_pub_prefix wif_prefix address_prefix pay_to_script_prefix sec_prefix magic_header'.split()
    for k in KEYS_TO_H2B:
        k_hex = '%s_hex' % k
        if k_hex in kwargs:
            kwargs[k] = h2b(kwargs[k_hex])
    script_tools = kwargs.get('script_tools', BitcoinScriptTools)
    UI_KEYS = 'bip32_prv_prefix bip32_pub_prefix bip49_prv_prefix bip49_pub_prefix bip84_prv_prefix bip84_pub_prefix wif_prefix sec_prefix address_prefix pay_to_script_prefix bech32_hrp'.split()
    ui_kwargs = {k: kwargs[k] for k in UI_KEYS if k in kwargs}
    _wif_prefix = ui_kwargs.get('wif_prefix')
    _sec_prefix = ui_kwargs.get('sec_prefix')

    def bip32_as_string(blob, as_private):
        prefix = ui_kwargs.get('bip32_%s_prefix' % ('prv' if as_private else 'pub'))
        return b2a_hashed_base58(prefix + blob)

    def bip49_as_string(blob, as_private):
        prefix = ui_kwargs.get('bip49_%s_prefix' % ('prv' if as_private else 'pub'))
        return b2a_hashed_base58(prefix + blob)

    def bip84_as_string(blob, as_private):
        prefix = ui_kwargs.get('bip84_%s_prefix' % ('prv' if as_private else 'pub'))
        return b2a_hashed_base58(prefix + blob)

    def wif_for_blob(blob):
        return b2a_hashed_base58(_wif_prefix + blob)

    def sec_text_for_blob(blob):
        return _sec_prefix + b2h(blob)
    tx_class = kwargs.get('tx') or Tx
    network = Network(symbol=symbol, network_name=network_name, subnet_name=subnet_name)
    for k in 'dns_bootstrap default_port magic_header'.split():
        if k in kwargs:
            setattr(network, k, kwargs[k])
    NetworkKey = Key.make_subclass(symbol, network=network, generator=generator)
    NetworkElectrumKey = ElectrumWallet.make_subclass(symbol, network=network, generator=generator)
    NetworkBIP32Node = BIP32Node.make_subclass(symbol, network=network, generator=generator)
    NetworkBIP49Node = BIP49Node.make_subclass(symbol, network=network, generator=generator)
    NetworkBIP84Node = BIP84Node.make_subclass(symbol, network=network, generator=generator)
    network.tx = tx_class
    network.block = kwargs.get('block') or Block.make_subclass(symbol, tx_class)
    network.generator = generator
    network.keychain = Keychain
    network.script = script_tools
    network.parseable_str_type = parseable_str
    network.tx.solve = API()
    network.tx.solve.build_hash160_lookup = lambda iter: build_hash160_lookup(iter, [generator])
    network.tx.solve.build_p2sh_lookup = build_p2sh_lookup
    network.tx.solve.build_sec_lookup = build_sec_lookup
    streamer = standard_streamer(standard_parsing_functions(network.block, network.tx))
    msg_parse, msg_pack = make_parser_and_packer(streamer, standard_messages(), standard_message_post_unpacks(streamer))
    network.message = NetworkMessage(parse=msg_parse, pack=msg_pack)
    network.contract = ContractAPI(network, script_tools)
    parse_api_class = kwargs.get('parse_api_class', ParseAPI)
    network.parse = parse_api_class(network, **ui_kwargs)
    network.address = make_address_api(network.contract, **ui_kwargs)
    message_signer = MessageSigner(network, generator)
    network.annotate = Annotate(script_tools, network.address)
    network.who_signed = WhoSigned(script_tools, network.address, generator)

    def keys_private(secret_exponent, is_compressed=True):
        return NetworkKey(secret_exponent=secret_exponent, is_compressed=is_compressed)

    def keys_public(item, is_compressed=None):
        if isinstance(item, tuple):
            if is_compressed is None:
                is_compressed = True
            return NetworkKey(public_pair=item, is_compressed=is_compressed)
        if is_compressed is not None:
            raise ValueError()
        return NetworkKey.from_sec(item)
    network.keys = NetworkKeys(private=keys_private, public=keys_public, bip32_seed=NetworkBIP32Node.from_master_secret, bip32_deserialize=NetworkBIP32Node.deserialize, bip49_deserialize=NetworkBIP49Node.deserialize, bip84_deserialize=NetworkBIP84Node.deserialize, electrum_seed=lambda seed=None, **kw: NetworkElectrumKey(initial_key=seed, **kw), electrum_private=lambda master_private_key=None, **kw: NetworkElectrumKey(master_private_key=master_private_key, **kw), electrum_public=lambda master_public_key=None, **kw: NetworkElectrumKey(master_public_key=master_public_key, **kw), InvalidSecretExponentError=InvalidSecretExponentError, InvalidPublicPairError=InvalidPublicPairError)
    network.msg = NetworkMsg(sign=message_signer.sign_message, verify=message_signer.verify_message, parse_signed=message_signer.parse_signed_message, hash_for_signing=message_signer.hash_for_signing, signature_for_message_hash=message_signer.signature_for_message_hash, pair_for_message_hash=message_signer.pair_for_message_hash)
    network.validator = NetworkValidator(ScriptError=ScriptError, ValidationFailureError=ValidationFailureError, errno=errno, flags=flags)
    network.tx_utils = NetworkTxUtils(create_tx=lambda *a, **kw: create_tx(network, *a, **kw), sign_tx=lambda *a, **kw: sign_tx(network, *a, **kw), create_signed_tx=lambda *a, **kw: create_signed_tx(network, *a, **kw), split_with_remainder=lambda *a, **kw: split_with_remainder(*a, **kw), distribute_from_split_pool=distribute_from_split_pool)
    network.bip32_as_string = bip32_as_string
    network.bip49_as_string = bip49_as_string
    network.bip84_as_string = bip84_as_string
    network.wif_for_blob = wif_for_blob
    network.sec_text_for_blob = sec_text_for_blob
    network.output_for_secret_exponent = make_output_for_secret_exponent(NetworkKey)
    network.output_for_public_pair = make_output_for_public_pair(NetworkKey, network)
    return network


# pycoin/networks/bitcoinish.py :: create_bitcoinish_network.bip32_as_string
def q__create_bitcoinish_network__bip32_as_string(blob, as_private):
    prefix = ui_kwargs.get('bip32_%s_prefix' % ('prv' if as_private else 'pub'))
    return b2a_hashed_base58(prefix + blob)


# pycoin/networks/bitcoinish.py :: create_bitcoinish_network.bip49_as_string
def q__create_bitcoinish_network__bip49_as_string(blob, as_private):
    prefix = ui_kwargs.get('bip49_%s_prefix' % ('prv' if as_private else 'pub'))
    return b2a_hashed_base58(prefix + blob)


# pycoin/networks/bitcoinish.py :: create_bitcoinish_network.bip84_as_string
def q__create_bitcoinish_network__bip84_as_string(blob, as_private):
    prefix = ui_kwargs.get('bip84_%s_prefix' % ('prv' if as_private else 'pub'))
    return b2a_hashed_base58(prefix + blob)


# pycoin/networks/bitcoinish.py :: create_bitcoinish_network.wif_for_blob
def q__create_bitcoinish_network__wif_for_blob(blob):
    return b2a_hashed_base58(_wif_prefix + blob)


# pycoin/networks/bitcoinish.py :: create_bitcoinish_network.sec_text_for_blob
def q__create_bitcoinish_network__sec_text_for_blob(blob):
    return _sec_prefix + b2h(blob)


# pycoin/networks/bitcoinish.py :: create_bitcoinish_network.keys_private
def q__create_bitcoinish_network__keys_private(secret_exponent, is_compressed=True):
    return NetworkKey(secret_exponent=secret_exponent, is_compressed=is_compressed)


# pycoin/networks/bitcoinish.py :: create_bitcoinish_network.keys_public
def q__create_bitcoinish_network__keys_public(item, is_compressed=None):
    if isinstance(item, tuple):
        if is_compressed is None:
            is_compressed = True
        return NetworkKey(public_pair=item, is_compressed=is_compressed)
    if is_compressed is not None:
        raise ValueError()
    return NetworkKey.from_sec(item)
