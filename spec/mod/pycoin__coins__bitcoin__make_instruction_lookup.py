"""Transcription of every function of pycoin/coins/bitcoin/make_instruction_lookup.py as of the reviewed tree (see DESIGN.md section 12).
NEVER IMPORTED OR EXECUTED: parsed and compared in canonical form (sa/sym.py) with the functions in /repo."""


_CONSTS = {
    'errno.BAD_OPCODE': 15,
}


# pycoin/coins/bitcoin/make_instruction_lookup.py :: _make_bad_instruction
def q___make_bad_instruction(v):

    def f(vm_state):
        raise ScriptError()
    return f


# pycoin/coins/bitcoin/make_instruction_lookup.py :: _make_bad_instruction.f
def q___make_bad_instruction__f(vm_state):
    raise ScriptError()


# pycoin/coins/bitcoin/make_instruction_lookup.py :: _collect_opcodes
def q___collect_opcodes(module):
    d = {}
    for k in dir(module):
        if k.startswith('do_OP'):
            d[k[3:]] = getattr(module, k)
    return d


# pycoin/coins/bitcoin/make_instruction_lookup.py :: _no_op
def q___no_op(vm):
    pass


# pycoin/coins/bitcoin/make_instruction_lookup.py :: make_instruction_lookup
def q__make_instruction_lookup(opcode_pairs):
    OPCODE_DATA_LIST = list(BitcoinScriptStreamer.data_opcodes)
    instruction_lookup = [_make_bad_instruction(i) for i in range(256)]
    for i in OPCODE_DATA_LIST:
        if i is not None:
            instruction_lookup[i] = _no_op
    opcode_lookups = {}
    opcode_lookups.update(_collect_opcodes(checksigops))
    opcode_lookups.update(_collect_opcodes(intops))
    opcode_lookups.update(_collect_opcodes(stackops))
    opcode_lookups.update(_collect_opcodes(miscops))
    opcode_lookups.update(miscops.extra_opcodes())
    for opcode_name, opcode_value in opcode_pairs:
        if opcode_name in opcode_lookups:
            instruction_lookup[opcode_value] = opcode_lookups[opcode_name]
    return instruction_lookup
