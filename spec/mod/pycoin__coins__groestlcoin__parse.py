"""Transcription of every function of pycoin/coins/groestlcoin/parse.py as of the reviewed tree (see DESIGN.md section 12).
NEVER IMPORTED OR EXECUTED: parsed and compared in canonical form (sa/sym.py) with the functions in /repo."""


_CONSTS = {

}


# pycoin/coins/groestlcoin/parse.py :: b58_groestl
def q__b58_groestl(s):
    data = parse_b58(s)
    if data:
        data, the_hash = (data[:-4], data[-4:])
        if groestlHash(data)[:4] == the_hash:
            return data
    return None


# pycoin/coins/groestlcoin/parse.py :: parse_b58_groestl
def q__parse_b58_groestl(s):
    ps = parseable_str(s)
    return ps.cache('b58_groestl', b58_groestl)


# pycoin/coins/groestlcoin/parse.py :: GRSParseAPI.parse_b58_hashed
def q__GRSParseAPI__parse_b58_hashed(self, s):
    return parse_b58_groestl(s)
