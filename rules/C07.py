"""C07 - transaction and spendable codecs: structural obligations (DESIGN.md section 4, C07)."""
from __future__ import annotations

import ast

from sa.core import Ob
from sa.pm import AnalysisError, norm, body_nodes
from sa import gi, df, ru, ct
from sa.gi import IntSet, iv, GuardWalker, SymbolicAtomizer, reach_sets

TX = "pycoin/coins/bitcoin/Tx.py"
CTX = "pycoin/coins/Tx.py"
TXIN = "pycoin/coins/bitcoin/TxIn.py"
TXOUT = "pycoin/coins/bitcoin/TxOut.py"
SP = "pycoin/coins/bitcoin/Spendable.py"
SINT = "pycoin/satoshi/satoshi_int.py"
SSTR = "pycoin/satoshi/satoshi_string.py"
U, E = IntSet.all(), IntSet.empty()


# ------------------------------------------------------------------ C07.1
def c07_1(ctx):
    s = ctx.func(TX, "Tx.stream")
    defs = {}
    tr = ct.write_trace(s.node, "f", defs=defs)
    got = [(i.kind, i.fmt, i.value, i.loop, ct.fmt_formula(i.reach)) for i in tr]
    want = [
        ("fmt", "L", "self.version", None, "True"),
        ("const", None, "0001", None, "include_witnesses"),
        ("fmt", "I", "len(self.txs_in)", None, "True"),
        ("call", "stream(blank_solutions=blank_solutions)", "t", "t in self.txs_in", "True"),
        ("fmt", "I", "len(self.txs_out)", None, "True"),
        ("call", "stream", "t", "t in self.txs_out", "True"),
        ("fmt", "I", "len(witness)", "tx_in in self.txs_in", "include_witnesses"),
        ("fmt", "S", "w", "tx_in in self.txs_in / w in witness", "include_witnesses"),
        ("fmt", "L", "self.lock_time", None, "True"),
        ("call", "stream_unspents", "self", None, "include_unspents and (not self.missing_unspents())"),
    ]
    ctx.check(got == want, "tx-writer-trace", ctx.where(s), "Tx.stream writes %s; BIP144: version, [00 01], inputs, outputs, [witness stacks: count + items per input], lock time" % [g for g in got if g not in want][:3],
              sample={"trace": [repr(i) for i in tr]})
    d = df.single_defs(s.node)
    iw = d.get("include_witnesses")
    ctx.check(iw is not None and norm(iw) == "include_witness_data and self.has_witness_data()", "extended-form-condition", ctx.where(s), "the extended form is not used exactly when include_witness_data and some witness is non-empty")
    wd = [st for st in body_nodes(s.node) if isinstance(st, ast.Assign) and norm(st.targets[0]) == "witness"]
    ctx.check(len(wd) == 1 and norm(wd[0].value) == "tx_in.witness", "witness-source", ctx.where(s), "the witness written is not tx_in.witness")
    h = ctx.func(TX, "Tx.has_witness_data")
    ctx.check("return any((len(tx_in.witness) > 0 for tx_in in self.txs_in))" in norm(h.node), "has-witness", ctx.where(h), "has_witness_data is not `any input has a non-empty witness`")
    # reader
    p = ctx.func(TX, "Tx.parse")
    t = norm(p.node)
    checks = [
        ("version, = parse_struct('L', f)", "version"),
        ("v1: int | None = ord(f.read(1))", "marker byte"),
        ("is_segwit: bool | int = bool(allow_segwit and v1 == 0)", "marker 00 recognised only when segwit parsing is allowed"),
        ("flag = f.read(1)", "flag byte"),
        ("if flag == b'\\x00' or len(flag) == 0:", "flag 00 rejected"),
        ("is_segwit = v2 & 1", "witness flag bit 0"),
        ("count = parse_satoshi_int(f, v=v1)", "input count (first byte reused for legacy form)"),
        ("txs_in.append(class_.TxIn.parse(f))", "inputs"),
        ("count = parse_satoshi_int(f, v=v2)", "output count"),
        ("txs_out.append(class_.TxOut.parse(f))", "outputs"),
        ("for tx_in in txs_in:", "witness per input"),
        ("stack.append(parse_satoshi_string(f))", "witness items"),
        ("tx_in.witness = stack", "witness stored"),
        ("lock_time, = parse_struct('L', f)", "lock time"),
        ("return class_(version, txs_in, txs_out, lock_time)", "constructor order"),
    ]
    pos = -1
    for frag, what in checks:
        i = t.find(frag)
        ctx.check(i > pos, "tx-reader:%s" % what, ctx.where(p), "Tx.parse: %s (`%s`) missing or out of order" % (what, frag), what="reader:" + what, sample=None)
        if i > pos:
            pos = i
    w = GuardWalker(ru.opaque)
    w.run(p.node.body)
    wit = [(st, r) for st, r in w.visits if norm(st) == "tx_in.witness = stack"]
    from rules.C01 import can_be

    def sat(f):
        return can_be(f, "\0none")
    ctx.check(len(wit) == 1 and sat(gi.f_and(wit[0][1], ("op", "is_segwit"))) and not sat(gi.f_and(wit[0][1], ("not", ("op", "is_segwit")))), "witness-read-iff-flag", ctx.where(p), "witness stacks are not read exactly when the marker/flag announced them")
    lt = [(st, r) for st, r in w.visits if "lock_time" in norm(st) and "parse_struct" in norm(st)]
    ctx.check(len(lt) == 1 and sat(gi.f_and(lt[0][1], ("op", "is_segwit"))) and sat(gi.f_and(lt[0][1], ("not", ("op", "is_segwit")))), "locktime-unconditional", ctx.where(p), "lock time is not read unconditionally")
    # TxIn / TxOut
    for rel, cls, fmt, fields in ((TXIN, "TxIn", "#LSL", ["previous_hash", "previous_index", "script", "sequence"]), (TXOUT, "TxOut", "QS", ["coin_value", "script"])):
        s_ = ctx.func(rel, cls + ".stream")
        tr = ct.write_trace(s_.node, "f")
        got = [(i.fmt, i.value) for i in tr]
        want_w = list(zip(fmt, ["self." + x for x in fields]))
        if cls == "TxIn":
            want_w[2] = ("S", "b'' if blank_solutions else self.script")
        ctx.check(got == want_w, "writer:%s" % cls, ctx.where(s_), "%s.stream writes %s, wire format %s" % (cls, got, want_w), sample={"trace": [repr(i) for i in tr]})
        p_ = ctx.func(rel, cls + ".parse")
        ps = ct.parse_struct_calls(p_.node)
        init = ctx.func(rel, cls + ".__init__")
        rets = df.returns_of(p_.node)
        ok = len(ps) == 1 and ps[0][0] == fmt and init.params()[1:1 + len(fields)] == fields and len(rets) == 1 and norm(rets[0].value) == "cls(*parse_struct('%s', f))" % fmt
        ctx.check(ok, "reader:%s" % cls, ctx.where(p_), "%s.parse does not read %s into the constructor (%s)" % (cls, fmt, init.params()[1:]))
        stores = {norm(st.targets[0]): norm(st.value) for st in body_nodes(init.node) if isinstance(st, ast.Assign)}
        ok = all(stores.get("self." + x) in (x, "self.COIN_VALUE_CAST_F(%s)" % x) for x in fields)
        ctx.check(ok, "fields:%s" % cls, ctx.where(init), "%s.__init__ does not store its wire fields unchanged: %s" % (cls, stores))


# ------------------------------------------------------------------ C07.2
def c07_2(ctx):
    h = ctx.func(TX, "Tx.hash")
    tr = ct.write_trace(h.node, "s")
    ctx.check(tr and tr[0].kind == "call" and tr[0].fmt == "stream(include_witness_data=False)" and tr[0].value == "self", "txid-strips-witness", ctx.where(h), "Tx.hash does not hash the witness-stripped serialisation (%s)" % tr[:1],
              sample={"trace": [repr(i) for i in tr]})
    w = ctx.func(TX, "Tx.w_hash")
    ctx.check("return double_sha256(self.as_bin())" in norm(w.node), "wtxid-full", ctx.where(w), "Tx.w_hash is not double_sha256 of the full serialisation")
    ab = ctx.func(CTX, "Tx.as_bin")
    ctx.check("self.stream(f, *args, **kwargs)" in norm(ab.node) and "return f.getvalue()" in norm(ab.node), "as-bin", ctx.where(ab), "as_bin is not the streamed bytes")
    a = ctx.func(TX, "Tx.stream").node.args
    names = [x.arg for x in a.args]
    d = dict(zip(names[len(names) - len(a.defaults):], a.defaults))
    ctx.check(isinstance(d.get("include_witness_data"), ast.Constant) and d["include_witness_data"].value is True and d["include_unspents"].value is False and d["blank_solutions"].value is False,
              "stream-defaults", TX + ":1", "Tx.stream defaults are not (blank_solutions=False, include_unspents=False, include_witness_data=True)")
    i = ctx.func(CTX, "Tx.id")
    ctx.check("return b2h_rev(self.hash())" in norm(i.node), "txid-text", ctx.where(i), "Tx.id is not the reversed hex of hash()")
    wi = ctx.func(TX, "Tx.w_id")
    ctx.check("return b2h_rev(self.w_hash())" in norm(wi.node), "wtxid-text", ctx.where(wi), "Tx.w_id is not the reversed hex of w_hash()")
    fb = ctx.func(CTX, "Tx.from_bin")
    t = norm(fb.node)
    ctx.check("tx = class_.parse(f)" in t and "tx.parse_unspents(f)" in t and "tx.unspents = []" in t, "from-bin", ctx.where(fb), "from_bin does not parse the transaction and then the optional unspents extension")
    fh = ctx.func(CTX, "Tx.from_hex")
    ctx.check("return class_.from_bin(h2b(hex_string))" in norm(fh.node), "from-hex", ctx.where(fh), "from_hex is not from_bin(h2b(text))")
    ah = ctx.func(CTX, "Tx.as_hex")
    ctx.check("return b2h(self.as_bin(*args, **kwargs))" in norm(ah.node), "as-hex", ctx.where(ah), "as_hex is not b2h(as_bin())")


# ------------------------------------------------------------------ C07.3
def c07_3(ctx):
    f = ctx.func(SINT, "stream_satoshi_int")
    v = f.params()[1]
    w = GuardWalker(SymbolicAtomizer(ru.subject({v}), df.const_int))
    w.run(f.node.body)
    got = {}
    for st, r in w.visits:
        if isinstance(st, ast.Expr) and isinstance(st.value, ast.Call) and df.last_attr(st.value) == "write":
            a = st.value.args[0]
            parts = df.flatten_add(a)
            prefix = parts[0].value.hex() if len(parts) == 2 and isinstance(parts[0], ast.Constant) else ""
            pk = parts[-1]
            fmt = pk.args[0].value if isinstance(pk, ast.Call) and norm(pk.func) == "struct.pack" else None
            got[(prefix, fmt)] = gi.sat_set(r, U, E)
    want = {("", "<B"): iv(None, 252), ("fd", "<H"): iv(253, 65535), ("fe", "<L"): iv(65536, 0xFFFFFFFF), ("ff", "<Q"): iv(0x100000000, None)}
    for k in sorted(set(got) | set(want)):
        g, wv = got.get(k), want.get(k)
        ctx.check(g == wv, "compact-size-writer:%s" % (k[1],), ctx.where(f),
                  "stream_satoshi_int uses prefix %r / format %r for values %s; the compact-size encoding requires %s" % (k[0], k[1], g.fmt() if g is not None else None, wv.fmt() if wv is not None else "no such form"),
                  sample={"prefix": k[0], "format": k[1], "values": g.fmt() if g is not None else None})
    p = ctx.func(SINT, "parse_satoshi_int")
    w = GuardWalker(SymbolicAtomizer(ru.subject({"v"}), df.const_int))
    w.run(p.node.body)
    gotp = {}
    for st, r in w.visits:
        if isinstance(st, ast.Assign) and "struct.unpack" in norm(st.value):
            c = [c for c in ast.walk(st.value) if isinstance(c, ast.Call) and norm(c.func) == "struct.unpack"][0]
            rd = [c2 for c2 in ast.walk(c) if isinstance(c2, ast.Call) and df.last_attr(c2) == "read"][0]
            gotp[(c.args[0].value, df.const_int(rd.args[0]))] = gi.sat_set(r, U, E, assume={"v is None": False})
    wantp = {("<H", 2): iv(253, 253), ("<L", 4): iv(254, 254), ("<Q", 8): iv(255, 255)}
    ctx.check(gotp == wantp, "compact-size-reader", ctx.where(p), "parse_satoshi_int reads %s; compact size: fd -> u16, fe -> u32, ff -> u64" % {k: v.fmt() for k, v in gotp.items()},
              sample={"reader": {str(k): v.fmt() for k, v in gotp.items()}})
    ctx.check("v = ord(f.read(1))" in norm(p.node) and "return v" in norm(p.node), "compact-size-first-byte", ctx.where(p), "parse_satoshi_int does not start from one byte / return small values directly")
    s = ctx.func(SSTR, "stream_satoshi_string")
    t = norm(s.node)
    ctx.check("stream_satoshi_int(f, len(v))" in t and "f.write(v)" in t and t.index("stream_satoshi_int") < t.index("f.write(v)"), "var-string-writer", ctx.where(s), "stream_satoshi_string is not compact-size length then bytes")
    r = ctx.func(SSTR, "parse_satoshi_string")
    t = norm(r.node)
    ctx.check("size = parse_satoshi_int(f)" in t and "return f.read(size)" in t, "var-string-reader", ctx.where(r), "parse_satoshi_string is not compact-size length then that many bytes")


# ------------------------------------------------------------------ C07.4
def c07_4(ctx):
    c = ctx.p.cls(SP, "Spendable")
    init = ctx.func(SP, "Spendable.__init__")
    order = init.params()[1:]
    want_order = ["coin_value", "script", "tx_hash", "tx_out_index", "block_index_available", "does_seem_spent", "block_index_spent"]
    ctx.check(order == want_order, "constructor-order", ctx.where(init), "Spendable.__init__ parameters are %s" % order)
    # attributes assigned by the class (and its bases)
    assigned = set()
    for k in ctx.p.mro(c):
        i = k.methods.get("__init__")
        if i is not None:
            for st in body_nodes(i.node):
                if isinstance(st, ast.Assign) and isinstance(st.targets[0], ast.Attribute) and norm(st.targets[0].value) == "self":
                    assigned.add(st.targets[0].attr)
    s = ctx.func(SP, "Spendable.stream")
    tr = ct.write_trace(s.node, "f")
    got = [(i.fmt, i.value, ct.fmt_formula(i.reach)) for i in tr if i.kind != "call"]
    want = [("#", "self.tx_hash", "as_spendable"), ("L", "self.tx_out_index", "as_spendable"), ("I", "self.block_index_available", "as_spendable"),
            ("b", "bool(self.does_seem_spent)", "as_spendable"), ("I", "self.block_index_spent", "as_spendable")]
    ctx.check(got == want, "binary-writer", ctx.where(s), "Spendable.stream(as_spendable=True) writes %s after the TxOut; the reader expects #LIbI = tx_hash, tx_out_index, block_index_available, does_seem_spent, block_index_spent" % got,
              sample={"trace": [repr(i) for i in tr]})
    for n in ast.walk(s.node):
        if isinstance(n, ast.Attribute) and norm(n.value) == "self" and isinstance(n.ctx, ast.Load) and n.attr not in assigned and n.attr not in {m for k in ctx.p.mro(c) for m in k.methods} and n.attr not in {a for k in ctx.p.mro(c) for a in k.attrs}:
            ctx.bad("writer-reads-missing-attribute:%s" % n.attr, ctx.where(s, n), "Spendable.stream reads self.%s, which no constructor of the class assigns (AttributeError)" % n.attr)
    ctx.check("super(Spendable, self).stream(f)" in norm(s.node), "binary-writer-txout-part", ctx.where(s), "Spendable.stream does not start with the TxOut part")
    p = ctx.func(SP, "Spendable.parse")
    ps = ct.parse_struct_calls(p.node)
    ctx.check(len(ps) == 1 and ps[0][0] == "QS#LIbI" and "return cls(*parse_struct('QS#LIbI', f))" in norm(p.node), "binary-reader", ctx.where(p), "Spendable.parse is not QS#LIbI into the constructor")
    # text form
    at = ctx.func(SP, "Spendable.as_text")
    rets = df.returns_of(at.node)
    parts = []
    if len(rets) == 1 and isinstance(rets[0].value, ast.Call) and norm(rets[0].value.func) == "'/'.join" and isinstance(rets[0].value.args[0], ast.List):
        parts = [norm(e) for e in rets[0].value.args[0].elts]
    want_parts = ["b2h_rev(self.tx_hash)", "str(self.tx_out_index)", "b2h(self.script)", "str(self.coin_value)", "str(self.block_index_available)", "'%d' % self.does_seem_spent", "str(self.block_index_spent)"]
    ctx.check(parts == want_parts, "text-writer", ctx.where(at), "Spendable.as_text joins %s" % parts, sample={"parts": parts})
    ft = ctx.func(SP, "Spendable.from_text")
    defs = df.single_defs(ft.node)
    unp = [st for st in body_nodes(ft.node) if isinstance(st, ast.Assign) and isinstance(st.targets[0], ast.Tuple) and norm(st.value) == "parts"]
    names = [norm(e) for e in unp[0].targets[0].elts] if unp else []
    rets = df.returns_of(ft.node)
    args = [norm(df.expand(a, defs)) for a in rets[0].value.args] if len(rets) == 1 and isinstance(rets[0].value, ast.Call) else []
    ok = len(names) == 7
    if ok:
        h, i, sc, cv, bia, dss, bis = names
        want_args = ["int(%s)" % cv, "h2b(str(%s))" % sc, "h2b_rev(str(%s))" % h, "int(%s)" % i, "int(%s)" % bia, "bool(int(%s))" % dss, "int(%s)" % bis]
        ok = args == want_args
    ctx.check(ok, "text-reader", ctx.where(ft), "Spendable.from_text converts the text fields as %s; each numeric field must be the exact integer of its text (int(text)), hashes h2b_rev, script h2b, in writer order" % args,
              sample={"constructor_args": args})
    ctx.check("parts: list[Any] = (text.split('/') + ['0', '0', '0'])[:7]" in norm(ft.node), "text-split", ctx.where(ft), "from_text does not split on '/' with defaults for the three optional fields")
    # dict form
    ad = ctx.func(SP, "Spendable.as_dict")
    rets = df.returns_of(ad.node)
    kw = {k.arg: norm(k.value) for k in rets[0].value.keywords} if len(rets) == 1 and isinstance(rets[0].value, ast.Call) else {}
    want_kw = {"coin_value": "self.coin_value", "script_hex": "b2h(self.script)", "tx_hash_hex": "b2h_rev(self.tx_hash)", "tx_out_index": "self.tx_out_index",
               "block_index_available": "self.block_index_available", "does_seem_spent": "int(self.does_seem_spent)", "block_index_spent": "self.block_index_spent"}
    ctx.check(kw == want_kw, "dict-writer", ctx.where(ad), "Spendable.as_dict is %s" % kw)
    fd = ctx.func(SP, "Spendable.from_dict")
    rets = df.returns_of(fd.node)
    args = [norm(a) for a in rets[0].value.args] if len(rets) == 1 and isinstance(rets[0].value, ast.Call) else []
    want_args = ["d['coin_value']", "h2b(d['script_hex'])", "h2b_rev(d['tx_hash_hex'])", "d['tx_out_index']", "d.get('block_index_available', 0)", "d.get('does_seem_spent', 0)", "d.get('block_index_spent', 0)"]
    ctx.check(args == want_args, "dict-reader", ctx.where(fd), "Spendable.from_dict reads %s" % args)
    ti = ctx.func(SP, "Spendable.tx_in")
    ctx.check("return self.TxIn(self.tx_hash, self.tx_out_index, script, sequence)" in norm(ti.node), "spendable-outpoint", ctx.where(ti), "Spendable.tx_in does not spend (tx_hash, tx_out_index)")


# ------------------------------------------------------------------ C07.5
def c07_5(ctx):
    s = ctx.func(TX, "Tx.stream_unspents")
    t = norm(s.node)
    ok = "for tx_out in self.unspents:" in t and "if tx_out is None:" in t and "tx_out = self.TxOut(0, b'')" in t and "tx_out.stream(f)" in t
    ctx.check(ok, "unspents-writer", ctx.where(s), "stream_unspents does not write one TxOut per input with (0, empty) standing for an unknown one")
    p = ctx.func(TX, "Tx.parse_unspents")
    t = norm(p.node)
    ifs = [n for n in body_nodes(p.node) if isinstance(n, ast.If) and any(isinstance(x, ast.Assign) and isinstance(x.value, ast.Constant) and x.value.value is None for x in n.body)]
    ok = len(ifs) == 1 and norm(ifs[0].test) in ("tx_out_or_none.coin_value == 0", "0 == tx_out_or_none.coin_value")
    ctx.check(ok, "unspents-none-marker", ctx.where(p), "parse_unspents recognises the `unknown` placeholder by `%s`; the writer's marker is a zero amount, so any other test loses spent outputs that legitimately look like it (e.g. empty scripts)"
              % ([norm(i.test) for i in ifs]), sample={"test": [norm(i.test) for i in ifs]})
    ok = "for i in enumerate(self.txs_in):" in t or "for _ in self.txs_in:" in t or "for i in range(len(self.txs_in)):" in t
    ctx.check(ok and "self.TxOut.parse(f)" in t and "self.set_unspents(unspents)" in t, "unspents-reader", ctx.where(p), "parse_unspents does not read one TxOut per input and install the list")
    su = ctx.func(CTX, "Tx.set_unspents")
    ctx.check("if len(unspents) != len(self.txs_in):" in norm(su.node), "unspents-count", ctx.where(su), "set_unspents does not insist on one unspent per input")


OBLIGATIONS = [
    Ob("C07.1", "Tx / TxIn / TxOut writer and reader traces agree with BIP144", c07_1, floor=25, engines="CT,GI", breaks_if="witness transactions; empty witness items; mixed inputs"),
    Ob("C07.2", "txid hashes the witness-stripped form, wtxid the full form; hex/bin wrappers", c07_2, floor=9, engines="CT,DF"),
    Ob("C07.3", "compact-size partition: writer intervals and reader prefixes symmetric", c07_3, floor=8, engines="GI", breaks_if="lengths/counts of exactly 252, 253, 65535, 65536, 2^32"),
    Ob("C07.4", "Spendable binary / text / dict forms are field-symmetric with exact integer conversions", c07_4, floor=10, engines="CT,DF,PM", breaks_if="amounts above 2^53 in the text form; binary form"),
    Ob("C07.5", "unspents extension: zero amount <-> unknown", c07_5, floor=4, engines="CT", breaks_if="spent output with empty script and non-zero amount"),
]
