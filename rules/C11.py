"""C11 - base58 / bech32 codecs: structural obligations (DESIGN.md section 4, C11)."""
from __future__ import annotations

import ast

from sa.core import Ob
from sa.pm import AnalysisError, norm, body_nodes
from sa import gi, df, ru, sym
from sa.pm import Undecided
from sa.gi import IntSet, iv, GuardWalker, SymbolicAtomizer, reach_sets

B58 = "pycoin/encoding/b58.py"
BC = "pycoin/encoding/base_conversion.py"
BECH = "pycoin/contrib/bech32m.py"
PSTR = "pycoin/networks/parseable_str.py"
GRSP = "pycoin/coins/groestlcoin/parse.py"
U, E = IntSet.all(), IntSet.empty()


def _none_ret(e):
    if e.kind != "return" or e.value is None:
        return False
    v = e.value
    return isinstance(v, ast.Tuple) and all(isinstance(x, ast.Constant) and x.value is None for x in v.elts) or (isinstance(v, ast.Constant) and v.value is None)


# ------------------------------------------------------------------ C11.1
def c11_1(ctx):
    it = ctx.interp
    a = it.get("pycoin.encoding.b58", "BASE58_ALPHABET")
    ctx.check(a == b"123456789ABCDEFGHJKLMNPQRSTUVWXYZabcdefghijkmnopqrstuvwxyz", "base58-alphabet", B58 + ":1", "BASE58_ALPHABET is %r" % (a,), sample={"alphabet": a.decode() if isinstance(a, bytes) else None})
    lk = it.get("pycoin.encoding.b58", "BASE58_LOOKUP")
    ctx.check(isinstance(lk, dict) and lk == {c: i for i, c in enumerate(a)} and it.get("pycoin.encoding.b58", "BASE58_BASE") == 58, "base58-lookup", B58 + ":1", "BASE58_LOOKUP / BASE58_BASE are not derived from the alphabet (BASE58_LOOKUP is %s)" % (repr(lk)[:80],))
    cs = it.get("pycoin.contrib.bech32m", "CHARSET")
    ctx.check(cs == "qpzry9x8gf2tvdw0s3jn54khce6mua7l", "bech32-charset", BECH + ":1", "CHARSET is %r" % (cs,), sample={"charset": cs})
    ctx.check(it.get("pycoin.contrib.bech32m", "BECH32M_CONST") == 0x2BC830A3, "bech32m-const", BECH + ":1", "BECH32M_CONST is %r, not 0x2bc830a3" % (it.get("pycoin.contrib.bech32m", "BECH32M_CONST"),))
    for fn in ("bech32_polymod", "bech32_verify_checksum", "bech32_create_checksum", "bech32_hrp_expand", "bech32_encode"):
        _refcheck(ctx, BECH, fn, "bm_" + fn.replace("bech32_", "") if fn != "bech32_encode" else "bm_bech32_encode", "bech32:%s" % fn)
    e = it.get("pycoin.contrib.bech32m", "Encoding")
    ctx.check(it.getattr(e, "BECH32") != it.getattr(e, "BECH32M"), "encoding-enum", BECH + ":1", "Encoding.BECH32 and BECH32M are not distinct (%r, %r)" % (it.getattr(e, "BECH32"), it.getattr(e, "BECH32M")))


_REF = None


def _ref():
    global _REF
    if _REF is None:
        import os
        _REF = ast.parse(open(os.path.join(os.path.dirname(os.path.dirname(os.path.abspath(__file__))), "spec", "ref_text_codecs.py")).read())
    return _REF


INTS = lambda t: t in ("chk", "top", "value", "i", "const", "polymod", "pos", "max_length", "acc", "bits", "maxv", "max_acc", "frombits", "tobits", "v", "prefix", "base", "mod", "witver", "d") or t.startswith(("len(", "ord(", "generator[", "bech32_polymod(", "data[0]"))


def _refcheck(ctx, rel, dotted, refname, key, ints=None):
    fi = ctx.p.functions.get(ctx.p.module(rel).name + "." + dotted) or ctx.func(rel, dotted)
    return sym.against_reference(ctx, fi, _ref(), refname, key, ints or INTS, inline=False)


# ------------------------------------------------------------------ C11.2
def c11_2(ctx):
    f = ctx.func(BECH, "decode")
    hrpp, addrp = f.params()[:2]
    DATA = "bech32_decode(%s)[1]" % addrp
    DEC = "convertbits(%s[1:], 5, 8, False)" % DATA
    for subj, want, key in (("len(%s)" % DEC, iv(2, 40).complement(), "program-length"), ("%s[0]" % DATA, iv(17, None), "witness-version")):
        w = sym.int_walk(ctx, f, {subj})
        fr = sym.exits_formula(w, _none_ret)
        if fr is False or not gi.involves_subject(fr):
            raise Undecided("bech32m.decode has no rejecting exit deciding on `%s`" % subj)
        s = sym.must_set(fr, U, E)      # rejected whatever the other guards say
        ctx.check(s == want, key, ctx.where(f), "decode rejects %s values %s on their own; BIP173/350: exactly %s" % (subj[:40], s.fmt(), want.fmt()), sample={"subject": subj[:60], "rejected": s.fmt()})
    _refcheck(ctx, BECH, "decode", "bm_decode", "decode")
    _refcheck(ctx, BECH, "bech32_decode", "bm_bech32_decode", "bech32-decode")
    g = ctx.func(BECH, "bech32_decode")
    # mixed case is the only case rule: str.islower() / str.isupper() are False for a string without cased characters (an HRP of
    # digits or punctuation with a data part drawn from the digits of the charset), so a test built on them refuses such strings
    wg = sym.walk(ctx, g)
    case_ops = sorted({o for e in wg.exits for o in (gi.f_opaques(e.cond) if e.cond not in (True, False) else []) if isinstance(o, str) and (".islower()" in o or ".isupper()" in o)})
    ctx.check(not case_ops, "case-rule-by-comparison", ctx.where(g), "bech32_decode decides on `%s`: islower()/isupper() are False for strings without cased characters, which are then refused as if they were mixed case"
              % (case_ops[:1] or [""])[0][:80], sample={"atoms": case_ops[:2], "exits": len(wg.exits)})
    a = g.node.args
    ctx.check(len(a.defaults) == 1 and df.const_int(a.defaults[0]) == 90, "max-length-default", ctx.where(g), "max_length default is not 90")
    _refcheck(ctx, BECH, "convertbits", "bm_convertbits", "padding-rules")
    _refcheck(ctx, BECH, "encode", "bm_encode", "encode-spec")


# ------------------------------------------------------------------ C11.3
def c11_3(ctx):
    for rel, name, hashname, refname in ((B58, "a2b_hashed_base58", "double_sha256", "b58_a2b_hashed"), (PSTR, "b58_double_sha256", "double_sha256", "ps_b58_double_sha256"), (GRSP, "b58_groestl", "groestlHash", "grs_b58_groestl")):
        f = ctx.func(rel, name)
        w = sym.walk(ctx, f)
        good = [e for e in w.exits if e.kind == "return" and e.value is not None and not _none_ret(e)]
        if not good:
            raise Undecided("%s has no accepting return" % name)
        for e in good:
            ops = gi.f_opaques(e.cond) if e.cond not in (True, False) else []
            eq = [o for o in ops if " == " in o and "%s(" % hashname in o and "[:4]" in o and "[-4:]" in o]
            ok = bool(eq) and sym.entails(e.cond, ("op", eq[0])) and norm(e.value).endswith("[:-4]")
            ctx.check(ok, "checksum-dominates:%s" % name, ctx.where(f, e.node),
                      "%s returns `%s` under %s; the payload (all but the last 4 bytes) must be returned only when the first 4 bytes of %s(payload) EQUAL the 4 trailing bytes (a prefix test accepts strings shorter than a checksum)"
                      % (name, norm(e.value)[:50], ops, hashname), sample={"function": f.qualname, "guards": ops})
        _refcheck(ctx, rel, name, refname, "checksum:%s" % name)
    _refcheck(ctx, B58, "b2a_hashed_base58", "b58_b2a_hashed", "checksum-writer")
    _refcheck(ctx, B58, "is_hashed_base58_valid", "b58_is_valid", "validity-predicate")


# ------------------------------------------------------------------ C11.4
def c11_4(ctx):
    _refcheck(ctx, BC, "to_long", "bc_to_long", "leading-zero-count")
    _refcheck(ctx, BC, "from_long", "bc_from_long", "digits-only-for-positive")
    _refcheck(ctx, B58, "b2a_base58", "b58_b2a", "b2a-bases")
    _refcheck(ctx, B58, "a2b_base58", "b58_a2b", "a2b-bases")


# ------------------------------------------------------------------ C11.5
def c11_5(ctx):
    """necessary conditions of exactness that are visible in the shape of the codecs, each phrased over the functions' inputs"""
    # (a) from_long emits a digit only for a value that is still positive (the zero value has no digits of its own: its text is
    #     the leading-zero prefix alone); a do-while form emits one digit too many for 0
    f = ctx.func(BC, "from_long")
    w = sym.walk(ctx, f)
    charset = f.params()[3] if len(f.params()) > 3 else "charset"
    digits = [e for e in w.effects if e.kind == "call" and e.loops and ".append(" in e.text() and ("%s(" % charset) in e.text()]
    if not digits:
        ctx.undecided("digits-only-while-positive", ctx.where(f), "from_long: no `append(charset(..))` inside a loop; this rule reads the digit loop only")
    import re as _re
    for e in digits:
        m = _re.search(r"\((\w+) % ", e.text())
        x = m.group(1) if m else None
        if e.reach is True:
            ctx.bad("digits-only-while-positive", ctx.where(f, e.node), "from_long emits a digit before it has tested the value (`%s` is reached unconditionally in the loop): zero, i.e. an empty or all-zero byte string, gets one digit too many" % e.text()[:60])
        elif x is not None and (sym.entails(e.reach, ("op", "0 < %s" % x)) or sym.entails(e.reach, ("not", ("op", "0 == %s" % x)))):
            ctx.ok("digits-only-while-positive", sample={"digit": e.text()[:60], "emitted_when": str(e.reach)[:60]})
        else:
            ctx.undecided("digits-only-while-positive", ctx.where(f, e.node), "from_long emits digits under `%s`; this rule reads `value > 0` loops" % str(e.reach)[:80])
    # (b) the character lookup of the base58 decoder must FAIL on a character outside the alphabet (to_long turns the failure
    #     into EncodingError); a lookup that answers -1 / None decodes garbage
    a2b = ctx.func(B58, "a2b_base58")
    wa = sym.walk(ctx, a2b)
    calls = sym.calls_matching(wa, lambda t: t == "to_long" or t.endswith(".to_long"))
    if not calls:
        ctx.undecided("lookup-raises", ctx.where(a2b), "a2b_base58 does not call to_long")
    for e in calls:
        lk = e.call.args[1] if len(e.call.args) > 1 else None
        t = norm(lk) if lk is not None else ""
        body = lk.body if isinstance(lk, ast.Lambda) else None
        if (body is not None and isinstance(body, ast.Subscript)) or t.endswith((".__getitem__", ".index")):
            ctx.ok("lookup-raises", sample={"lookup": t[:80]})
        elif t.endswith((".find", ".rfind", ".get")) or (body is not None and isinstance(body, ast.Call) and isinstance(body.func, ast.Attribute) and body.func.attr in ("find", "rfind", "get")):
            ctx.bad("lookup-raises", ctx.where(a2b, e.node), "a2b_base58 looks characters up with `%s`, which answers -1 / None for a character outside the alphabet instead of failing: such strings decode to bytes" % t[:60])
        else:
            ctx.undecided("lookup-raises", ctx.where(a2b, e.node), "a2b_base58 looks characters up with `%s`; this rule reads subscript / index / find / get lookups" % t[:60])
    # (c) 5-bit groups become bytes through convertbits(.., 5, 8, False) only: it is the one place that enforces the padding rule
    for rel, fn in ((PSTR, "parse_bech32_or_32m"), (BECH, "decode")):
        g = ctx.func(rel, fn)
        wg = sym.walk(ctx, g)
        cb = sym.calls_matching(wg, lambda t: t == "convertbits" or t.endswith(".convertbits"))
        strict = [e for e in cb if len(e.call.args) >= 4 and [df.const_int(a) for a in e.call.args[1:3]] == [5, 8] and isinstance(e.call.args[3], ast.Constant) and e.call.args[3].value is False]
        if strict:
            ctx.ok("regroup-through-convertbits:%s" % fn, sample={"function": fn, "call": strict[0].text()[:80]})
        elif cb:
            ctx.bad("regroup-through-convertbits:%s" % fn, ctx.where(g, cb[0].node), "%s regroups the data part with `%s`, not with convertbits(.., 5, 8, False): non-zero or over-long padding is no longer refused" % (fn, cb[0].text()[:80]))
        else:
            shifts = any(isinstance(n, ast.BinOp) and isinstance(n.op, (ast.LShift, ast.RShift)) for n in ast.walk(sym.expanded(ctx, g)))
            if shifts:
                ctx.bad("regroup-through-convertbits:%s" % fn, ctx.where(g), "%s regroups the 5-bit symbols with its own shifts and never calls convertbits(.., 5, 8, False), the one place that enforces the BIP173 padding rule" % fn)
            else:
                ctx.undecided("regroup-through-convertbits:%s" % fn, ctx.where(g), "%s does not call convertbits; this rule does not see how the data part becomes bytes" % fn)
    # (d) no case folding in front of the decoder, and inside it nothing is accepted before the mixed-case test
    for rel, fn in ((PSTR, "parse_bech32_or_32m"), (PSTR, "parse_bech32"), (BECH, "decode")):
        g = ctx.func(rel, fn)
        fold = [n for n in ast.walk(sym.expanded(ctx, g)) if isinstance(n, ast.Call) and isinstance(n.func, ast.Attribute) and n.func.attr in ("lower", "upper", "casefold", "swapcase") and not n.args]
        ctx.check(not fold, "no-case-folding-before-decode:%s" % fn, ctx.where(g, fold[0]) if fold else ctx.where(g),
                  "%s folds the case of the text (`%s`) before bech32_decode has seen it: a mixed-case string becomes a valid one" % (fn, norm(fold[0])[:60] if fold else ""), sample={"function": fn, "case_folding_calls": 0})
    bd = ctx.func(BECH, "bech32_decode")
    wb = sym.walk(ctx, bd)
    bp = bd.params()[0]
    mixed = sorted(a for a in sym.all_atoms(wb) if ("%s.lower()" % bp) in a and ("%s.upper()" % bp) not in a and " == " in a) + \
        sorted(a for a in sym.all_atoms(wb) if ("%s.upper()" % bp) in a and ("%s.lower()" % bp) not in a and " == " in a)
    acc = [e for e in wb.exits if e.kind == "return" and e.value is not None and not _none_ret(e)]
    if len(mixed) < 2 or not acc:
        ctx.undecided("accepted-only-after-case-test", ctx.where(bd), "bech32_decode: mixed-case test not found as `bech.lower() == bech` / `bech.upper() == bech` comparisons (atoms %s)" % mixed[:2])
    else:
        one_case = gi.f_or(("op", mixed[0]), ("op", mixed[1]))
        for e in acc:
            if sym.entails(e.cond, one_case):
                ctx.ok("accepted-only-after-case-test", sample={"accepting_exit": norm(e.value)[:60], "entails": "all lower or all upper"})
            elif any(isinstance(n, ast.Call) and isinstance(n.func, ast.Attribute) and n.func.attr in ("get", "__getitem__") for n in ast.walk(wb.sub(e.value))) or "lower()" in norm(wb.sub(e.value)) or \
                    any(".lower()" in a and a not in mixed for a in (gi.f_opaques(e.cond) if e.cond not in (True, False) else []) if isinstance(a, str)):
                ctx.bad("accepted-only-after-case-test", ctx.where(bd, e.node), "bech32_decode returns a decoded value (`%s`) on a path that has not tested the string for mixed case, found through its case-folded form: a mixed-case spelling of a string decoded before is accepted"
                        % norm(e.value)[:60])
            else:
                ctx.undecided("accepted-only-after-case-test", ctx.where(bd, e.node), "bech32_decode accepts under `%s`, which does not show the case test" % str(e.cond)[:100])
    # (d') the printable-range test looks at the text AS GIVEN, all of it: str.lower() / str.upper() fold some non-ASCII letters
    #      onto ASCII ones (U+212A KELVIN SIGN -> 'k', U+0130 -> 'i' + U+0307, U+017F -> 'S'), so a range test made after the
    #      folding, or of one half only, lets an out-of-alphabet string through as the valid one it folds to
    rng = sorted(a for a in sym.all_atoms(wb) if isinstance(a, str) and a.startswith(("any{", "all{")) and "ord(" in a and " in " in a)
    if not rng or not acc:
        ctx.undecided("range-test-of-the-text-as-given", ctx.where(bd), "bech32_decode: no any/all test of ord(character) found among its conditions")
    else:
        raw = [a for a in rng if a.rsplit(" in ", 1)[1] == bp + "}"]
        for e in acc:
            if raw and any(sym.entails(e.cond, gi.f_not(("op", a))) or sym.entails(e.cond, ("op", a)) for a in raw):
                ctx.ok("range-test-of-the-text-as-given", sample={"test": raw[0][:70]})
            else:
                others = [a.rsplit(" in ", 1)[1][:-1] for a in rng if a not in raw]
                ctx.bad("range-test-of-the-text-as-given", ctx.where(bd, e.node), "bech32_decode accepts without having range-tested every character of `%s` as given; the range test it makes is of `%s`: "
                        "case mapping folds non-ASCII letters (U+212A KELVIN SIGN -> k) onto data characters, so a string outside the alphabet decodes as the valid string it folds to" % (bp, (others or ["?"])[0][:60]),
                        sample={"tested": (others or ["?"])[0][:60]})
    # (g) a base-256 form built with int.to_bytes has NO byte for the value zero (the leading-zero prefix carries all of an
    #     all-zero payload): a size forced to at least one byte gives `1` * n one byte too many
    for nm in ("a2b_base58", "b2a_base58"):
        g = ctx.func(B58, nm)
        node = sym.expanded(ctx, g)
        defs_ = df.single_defs(node)
        for c in ast.walk(node):
            if isinstance(c, ast.Call) and isinstance(c.func, ast.Attribute) and c.func.attr == "to_bytes" and c.args:
                size = df.expand(c.args[0], defs_)
                forced = (isinstance(size, ast.Call) and norm(size.func) == "max" and any(df.const_int(a) == 1 for a in size.args)) or \
                         (isinstance(size, ast.BoolOp) and isinstance(size.op, ast.Or) and df.const_int(size.values[-1]) == 1)
                ctx.check(not forced, "no-byte-for-zero:%s" % nm, ctx.where(g, c), "%s sizes the base-256 form as `%s`: at least one byte even for the value 0, so an empty or all-zero payload (`1` * n) decodes with one zero byte too many" % (nm, norm(size)[:60]),
                          sample={"function": nm, "size": norm(size)[:60]})
        ctx.ok("no-byte-for-zero-scanned:%s" % nm, nontrivial=False)
    # (f) strict regrouping (pad=False) refuses a left-over of a whole input group or more: exactly `bits >= frombits`, as an interval
    cb = ctx.func(BECH, "convertbits")
    cps = cb.params()
    if len(cps) >= 4:
        frm, padp = cps[1], cps[3]
        acc_names = [n.target.id for n in ast.walk(sym.expanded(ctx, cb)) if isinstance(n, ast.AugAssign) and isinstance(n.op, ast.Add) and isinstance(n.target, ast.Name) and isinstance(n.value, ast.Name) and n.value.id == frm]
        if not acc_names:
            ctx.undecided("strict-leftover-bits", ctx.where(cb), "convertbits: no counter of pending bits (`bits += frombits`) found")
        else:
            bname = acc_names[0]
            wc = sym.int_walk(ctx, cb, {bname}, {frm}, keep={bname})
            nones = [e for e in wc.exits if _none_ret(e) and e.cond not in (True, False) and gi.involves_subject(e.cond)]
            if not nones:
                ctx.undecided("strict-leftover-bits", ctx.where(cb), "convertbits: no refusing exit decides on the pending bit count")
            else:
                fr_ = gi.f_or(*[e.cond for e in nones])
                strict_ = {"truthy(%s)" % padp: False}
                s_ = sym.must_set(fr_, U, E, assume=strict_)
                want_ = iv(("s", 0), None)
                ctx.check(s_ == want_, "strict-leftover-bits", ctx.where(cb), "convertbits(pad=False) refuses pending bit counts %s on their own; BIP173: a left-over of `frombits` bits or more (a whole superfluous group), i.e. exactly %s" % (s_.fmt("frombits"), want_.fmt("frombits")),
                          sample={"subject": "pending bits after the last group", "refused": s_.fmt("frombits")})
    # (e) the encoder refuses no triple the decoder accepts: what it refuses on the program length / version alone lies outside
    #     2..40 / 0..16
    en = ctx.func(BECH, "encode")
    pr = en.params()
    if len(pr) >= 3:
        for subj, legal, key in (("len(%s)" % pr[2], iv(2, 40), "encoder-accepts-legal-lengths"), (pr[1], iv(0, 16), "encoder-accepts-legal-versions")):
            we = sym.int_walk(ctx, en, {subj})
            fr = sym.exits_formula(we, lambda e: _none_ret(e) or e.kind == "raise")
            s_ = sym.must_set(fr, U, E) if fr is not False and gi.involves_subject(fr) else E
            ctx.check((s_ & legal).is_empty(), key, ctx.where(en), "bech32m.encode refuses %s in %s on its own, which includes legal values (%s): encode returns None for an address decode accepts" % (subj, s_.fmt(), (s_ & legal).fmt()),
                      sample={"subject": subj, "refused_on_its_own": s_.fmt()})


OBLIGATIONS = [
    Ob("C11.1", "alphabets, BCH generator and checksum constants equal the standards", c11_1, floor=10, engines="TB,CE"),
    Ob("C11.2", "segwit-address decode decision guards (version, length, spec, characters, case, separator, length limit)", c11_2, floor=6, engines="SYM,GI", breaks_if="HRPs/strings without letters; version/constant mismatches"),
    Ob("C11.3", "payload returned only after the 4-byte checksum comparison (equality, not prefix)", c11_3, floor=8, engines="SYM", breaks_if="strings decoding to fewer than 4 bytes"),
    Ob("C11.4", "leading-zero bookkeeping of the radix conversion", c11_4, floor=4, engines="SYM", breaks_if="empty / all-zero byte strings"),
    Ob("C11.5", "exactness clauses over the codecs' inputs: digits only while the value is positive, failing character lookup, regrouping through convertbits, case rule before acceptance, encoder refuses nothing legal", c11_5, floor=9, engines="SYM,GI",
       breaks_if="zero / all-zero payloads; characters outside the alphabet; non-zero padding bits; mixed-case strings; 40-byte programs"),
]
