"""Transcription of every function of pycoin/key/HierarchicalKey.py as of the reviewed tree (see DESIGN.md section 12).
NEVER IMPORTED OR EXECUTED: parsed and compared in canonical form (sa/sym.py) with the functions in /repo."""


_CONSTS = {

}


# pycoin/key/HierarchicalKey.py :: HierarchicalKey.subkeys
def q__HierarchicalKey__subkeys(self, path):
    for _ in subpaths_for_path_range(path, hardening_chars="'pH"):
        yield self.subkey_for_path(_)


# pycoin/key/HierarchicalKey.py :: HierarchicalKey.ku_output_for_hk
def q__HierarchicalKey__ku_output_for_hk(self):
    yield ('wallet_key', self.hwif(as_private=self.is_private()), None)
    if self.is_private():
        yield ('public_version', self.hwif(as_private=False), None)
    child_number = self.child_index()
    if child_number >= 2147483648:
        wc = child_number - 2147483648
        child_index = '%dH (%d)' % (wc, child_number)
    else:
        child_index = '%d' % child_number
    yield ('tree_depth', '%d' % self.tree_depth(), None)
    yield ('fingerprint', b2h(self.fingerprint()), None)
    yield ('parent_fingerprint', b2h(self.parent_fingerprint()), "parent f'print")
    yield ('child_index', child_index, None)
    yield ('chain_code', b2h(self.chain_code()), None)
    yield ('private_key', 'yes' if self.is_private() else 'no', None)


# pycoin/key/HierarchicalKey.py :: HierarchicalKey.ku_output
def q__HierarchicalKey__ku_output(self):
    for _ in self.ku_output_for_hk():
        yield _
    for _ in super(HierarchicalKey, self).ku_output():
        yield _
