"""Transcription of every function of pycoin/contrib/bech32m.py as of the reviewed tree (see DESIGN.md section 12).
NEVER IMPORTED OR EXECUTED: parsed and compared in canonical form (sa/sym.py) with the functions in /repo."""


_CONSTS = {
    'BECH32M_CONST': 734539939,
    'CHARSET': 'qpzry9x8gf2tvdw0s3jn54khce6mua7l',
}


# pycoin/contrib/bech32m.py :: bech32_polymod
def q__bech32_polymod(values):
    generator = [996825010, 642813549, 513874426, 1027748829, 705979059]
    chk = 1
    for value in values:
        top = chk >> 25
        chk = (chk & 33554431) << 5 ^ value
        for i in range(5):
            chk ^= generator[i] if top >> i & 1 else 0
    return chk


# pycoin/contrib/bech32m.py :: bech32_hrp_expand
def q__bech32_hrp_expand(hrp):
    return [ord(x) >> 5 for x in hrp] + [0] + [ord(x) & 31 for x in hrp]


# pycoin/contrib/bech32m.py :: bech32_verify_checksum
def q__bech32_verify_checksum(hrp, data):
    const = bech32_polymod(bech32_hrp_expand(hrp) + data)
    if const == 1:
        return Encoding.BECH32
    if const == BECH32M_CONST:
        return Encoding.BECH32M
    return None


# pycoin/contrib/bech32m.py :: bech32_create_checksum
def q__bech32_create_checksum(hrp, data, spec):
    values = bech32_hrp_expand(hrp) + data
    const = BECH32M_CONST if spec == Encoding.BECH32M else 1
    polymod = bech32_polymod(values + [0, 0, 0, 0, 0, 0]) ^ const
    return [polymod >> 5 * (5 - i) & 31 for i in range(6)]


# pycoin/contrib/bech32m.py :: bech32_encode
def q__bech32_encode(hrp, data, spec):
    combined = data + bech32_create_checksum(hrp, data, spec)
    return hrp + '1' + ''.join([CHARSET[d] for d in combined])


# pycoin/contrib/bech32m.py :: bech32_decode
def q__bech32_decode(bech, max_length=90):
    if any((ord(x) < 33 or ord(x) > 126 for x in bech)) or (bech.lower() != bech and bech.upper() != bech):
        return (None, None, None)
    bech = bech.lower()
    pos = bech.rfind('1')
    if pos < 1 or pos + 7 > len(bech) or len(bech) > max_length:
        return (None, None, None)
    if not all((x in CHARSET for x in bech[pos + 1:])):
        return (None, None, None)
    hrp = bech[:pos]
    data = [CHARSET.find(x) for x in bech[pos + 1:]]
    spec = bech32_verify_checksum(hrp, data)
    if spec is None:
        return (None, None, None)
    return (hrp, data[:-6], spec)


# pycoin/contrib/bech32m.py :: convertbits
def q__convertbits(data, frombits, tobits, pad=True):
    acc = 0
    bits = 0
    ret = []
    maxv = (1 << tobits) - 1
    max_acc = (1 << frombits + tobits - 1) - 1
    for value in data:
        if value < 0 or value >> frombits:
            return None
        acc = (acc << frombits | value) & max_acc
        bits += frombits
        while bits >= tobits:
            bits -= tobits
            ret.append(acc >> bits & maxv)
    if pad:
        if bits:
            ret.append(acc << tobits - bits & maxv)
    elif bits >= frombits or acc << tobits - bits & maxv:
        return None
    return ret


# pycoin/contrib/bech32m.py :: decode
def q__decode(hrp, addr):
    hrpgot, data, spec = bech32_decode(addr)
    if hrpgot != hrp or data is None:
        return (None, None)
    decoded = convertbits(data[1:], 5, 8, False)
    if decoded is None or len(decoded) < 2 or len(decoded) > 40:
        return (None, None)
    if data[0] > 16:
        return (None, None)
    if data[0] == 0 and len(decoded) != 20 and (len(decoded) != 32):
        return (None, None)
    if data[0] == 0 and spec != Encoding.BECH32 or (data[0] != 0 and spec != Encoding.BECH32M):
        return (None, None)
    return (data[0], decoded)


# pycoin/contrib/bech32m.py :: encode
def q__encode(hrp, witver, witprog):
    spec = Encoding.BECH32 if witver == 0 else Encoding.BECH32M
    converted = convertbits(witprog, 8, 5)
    if converted is None:
        return None
    ret = bech32_encode(hrp, [witver] + converted, spec)
    if decode(hrp, ret) == (None, None):
        return None
    return ret
