"""Transcription of every function of pycoin/vm/ScriptTools.py as of the reviewed tree (see DESIGN.md section 12).
NEVER IMPORTED OR EXECUTED: parsed and compared in canonical form (sa/sym.py) with the functions in /repo."""


_CONSTS = {

}


# pycoin/vm/ScriptTools.py :: ScriptTools.__init__
def q__ScriptTools____init__(self, opcode_list, IntStreamer, scriptStreamer):
    self.intStreamer = IntStreamer
    self.scriptStreamer = scriptStreamer
    self.opcode_to_int = dict((o for o in opcode_list))
    self.int_to_opcode = {v: k for k, v in opcode_list}


# pycoin/vm/ScriptTools.py :: ScriptTools.int_for_opcode
def q__ScriptTools__int_for_opcode(self, opcode):
    return self.opcode_to_int.get(opcode)


# pycoin/vm/ScriptTools.py :: ScriptTools.compile_expression
def q__ScriptTools__compile_expression(self, t):
    if (t[0], t[-1]) == ('[', ']'):
        return binascii.unhexlify(t[1:-1])
    if t.startswith("'") and t.endswith("'"):
        return t[1:-1].encode('utf8')
    try:
        t0 = int(t)
        if abs(t0) <= 18446744073709551615 and t[0] != '0':
            return self.intStreamer.int_to_script_bytes(t0)
    except (SyntaxError, ValueError):
        pass
    try:
        return binascii.unhexlify(t)
    except Exception:
        pass
    raise SyntaxError()


# pycoin/vm/ScriptTools.py :: ScriptTools.compile
def q__ScriptTools__compile(self, s):
    f = io.BytesIO()
    for t in s.split():
        t_up = t.upper()
        if t_up in self.opcode_to_int:
            f.write(bytes([self.opcode_to_int[t]]))
        elif 'OP_%s' % t_up in self.opcode_to_int:
            f.write(bytes([self.opcode_to_int['OP_%s' % t]]))
        elif t_up.startswith('0X'):
            d = binascii.unhexlify(t[2:])
            f.write(d)
        else:
            v = self.compile_expression(t)
            self.write_push_data([v], f)
    return f.getvalue()


# pycoin/vm/ScriptTools.py :: ScriptTools.disassemble_for_opcode_data
def q__ScriptTools__disassemble_for_opcode_data(self, opcode, data):
    opcode_str = self.int_to_opcode.get(opcode, '???')
    if data is not None and len(data) > 0 and opcode_str.startswith('OP_PUSH'):
        return '[%s]' % binascii.hexlify(data).decode('utf8')
    return opcode_str


# pycoin/vm/ScriptTools.py :: ScriptTools.get_opcodes
def q__ScriptTools__get_opcodes(self, script, verify_minimal_data=False, pc=0):
    while pc < len(script):
        opcode, data, new_pc, is_ok = self.scriptStreamer.get_opcode(script, pc, verify_minimal_data=verify_minimal_data)
        yield (opcode, data, pc, new_pc)
        pc = new_pc


# pycoin/vm/ScriptTools.py :: ScriptTools.opcode_list
def q__ScriptTools__opcode_list(self, script):
    opcodes = []
    new_pc = 0
    try:
        for opcode, data, pc, new_pc in self.get_opcodes(script):
            opcodes.append(self.disassemble_for_opcode_data(opcode, data))
    except ScriptError:
        opcodes.append(binascii.hexlify(script[new_pc:]).decode('utf8'))
    return opcodes


# pycoin/vm/ScriptTools.py :: ScriptTools.disassemble
def q__ScriptTools__disassemble(self, script):
    return ' '.join(self.opcode_list(script))


# pycoin/vm/ScriptTools.py :: ScriptTools.write_push_data
def q__ScriptTools__write_push_data(self, data_list, f):
    for t in data_list:
        f.write(self.scriptStreamer.compile_push_data(t))


# pycoin/vm/ScriptTools.py :: ScriptTools.compile_push_data_list
def q__ScriptTools__compile_push_data_list(self, data_list):
    return b''.join((self.scriptStreamer.compile_push_data(d) for d in data_list if d is not None))
