"""C12 - script integers, pushes, script text: structural obligations (DESIGN.md section 4, C12)."""
from __future__ import annotations

import ast

from sa.core import Ob
from sa.pm import AnalysisError, norm, body_nodes
from sa import gi, df, ru, sym
from sa.pm import Undecided
from sa.gi import IntSet, iv, GuardWalker, SymbolicAtomizer, FiniteAtomizer, FinSet, reach_sets
from sa.interp import FuncVal, InstanceVal, Frame, Unknown

VSS = "pycoin/vm/ScriptStreamer.py"
BSS = "pycoin/coins/bitcoin/ScriptStreamer.py"
VST = "pycoin/vm/ScriptTools.py"
INT = "pycoin/satoshi/IntStreamer.py"
U, E = IntSet.all(), IntSet.empty()


def _streamer(ctx):
    it = ctx.interp
    ss = it.get("pycoin.coins.bitcoin.ScriptStreamer", "BitcoinScriptStreamer")
    if not isinstance(ss, InstanceVal):
        raise AnalysisError("BitcoinScriptStreamer could not be resolved (%r)" % (ss,))
    return ss


# ------------------------------------------------------------------ C12.1
def pushes_through_the_encoder(ctx):
    """every data push the script tools write is the encoder's: ScriptStreamer.compile_push_data is the one place that picks the
    shortest push (OP_0, OP_1..OP_16, OP_1NEGATE, direct, PUSHDATA1/2/4); a writer that encodes a push itself beside it (a length
    byte and the data) is a second, different definition of `the push of this value`"""
    for nm in ("ScriptTools.write_push_data",):
        g = ctx.func("pycoin/vm/ScriptTools.py", nm)
        w = sym.walk(ctx, g)
        n_ = 0
        for e in w.effects:
            if e.kind == "call" and norm(e.call.func).endswith(".write") and e.call.args:
                n_ += 1
                a = e.call.args[0]
                ctx.check("compile_push_data(" in norm(a), "push-through-encoder:%s" % nm.split(".")[-1], ctx.where(g, e.node),
                          "%s writes `%s`, bytes it made itself, next to the push encoder: a literal such as 0x05 or 0x81 is then pushed by length byte + data instead of OP_5 / OP_1NEGATE -- not the shortest push, and not what compile_push_data gives for the same value" % (nm, norm(a)[:60]),
                          sample={"writer": nm, "writes": norm(a)[:60]})
        if n_ == 0:
            ctx.undecided("push-through-encoder:%s" % nm.split(".")[-1], ctx.where(g), "%s: no write / return this rule can read" % nm)


def c12_1(ctx):
    pushes_through_the_encoder(ctx)
    ss = _streamer(ctx)
    const_enc = ss.attrs["const_encoder"]
    sized_enc = ss.attrs["sized_encoder"]
    var_enc = ss.attrs["variable_encoder"]
    dec = ss.attrs["decoder"]
    # constants
    want_const = {b"": 0, b"\x81": 79}
    for n in range(1, 17):
        want_const[bytes([n])] = 80 + n
    got_const = {bytes(k): v[0] if isinstance(v, (bytes, bytearray)) else v for k, v in const_enc.items()}
    ctx.check(got_const == want_const, "const-pushes", BSS + ":1", "constant pushes are %s; consensus: OP_0 for empty, OP_1..OP_16 for 1..16, OP_1NEGATE for 0x81"
              % {k.hex(): v for k, v in got_const.items() if want_const.get(k) != v}, sample={"const_encoder": {k.hex(): v for k, v in sorted(got_const.items())[:6]}})
    # sized
    ok = sorted(sized_enc) == list(range(1, 76))
    bad = []
    for size, f in sized_enc.items():
        ob = f.closure_vars().get("opcode_bin") if isinstance(f, FuncVal) else None
        if ob != bytes([size]):
            bad.append((size, ob))
    ctx.check(ok and not bad, "sized-pushes", VSS + ":1", "direct pushes: sizes %s, wrong opcodes %s; consensus: opcode n pushes the next n bytes for n in 1..75" % (sorted(sized_enc)[:3], bad[:3]))
    for size in range(1, 76):
        d = dec.get(size)
        cv = d.closure_vars() if isinstance(d, FuncVal) else {}
        ctx.check(cv.get("size") == size and d.name == "constant_size_opcode_handler", "sized-decoder-%d" % size, VSS + ":1", "decoder of opcode %d reads %r bytes" % (size, cv.get("size")),
                  what="sized:%d" % size, sample=None)
    # variable: encoder ranges vs decoder non-minimal sets
    want_var = [(255, 76, "<B", 1), (65535, 77, "<H", 2), (4294967295, 78, "<L", 4)]
    prev_max = 0
    ve = sorted(var_enc, key=lambda t: t[0])
    ctx.check([(m, o) for m, o, f in ve] == [(m, o) for m, o, s, z in want_var], "variable-encoder-table", BSS + ":1", "PUSHDATA encoder table is %s; consensus: (255, 76), (65535, 77), (2^32-1, 78)" % [(m, o) for m, o, f in ve])
    for (mx, op, encf), (wm, wo, wfmt, wsz) in zip(ve, want_var):
        d = dec.get(op)
        cv = d.closure_vars() if isinstance(d, FuncVal) else {}
        decf = cv.get("dec_f")
        dcv = decf.closure_vars() if isinstance(decf, FuncVal) else {}
        ctx.check(dcv.get("struct_data") == wfmt and dcv.get("struct_size") == wsz, "length-field:%d" % op, BSS + ":1",
                  "opcode %d decodes its length field with %r (%r bytes); consensus: %s" % (op, dcv.get("struct_data"), dcv.get("struct_size"), wfmt))
        from rules.C16 import _codec          # reads a lambda or a factory-made closure (closure values folded), parameters p0, p1 ..
        exits_, _names = _codec(encf)
        if exits_ is None:
            raise Undecided("the length-field encoder of opcode %d is not a function the table reader can follow" % op)
        ctx.check(exits_ == {("True", "return struct.pack('%s', p0)" % wfmt)}, "length-field-encoder:%d" % op, BSS + ":1", "opcode %d encodes its length field with `%s`" % (op, sorted(exits_)))
        ms = cv.get("min_size")
        ctx.check(ms == prev_max, "minimal-threshold:%d" % op, VSS + ":1",
                  "decoder of opcode %d judges sizes <= %r non-minimal, but the encoder chooses it for sizes in (%d, %d]: size %s would be %s"
                  % (op, ms, prev_max, mx, prev_max + 1 if isinstance(ms, int) and ms > prev_max else prev_max,
                     "rejected as non-minimal" if isinstance(ms, int) and ms > prev_max else "accepted although a shorter push exists"),
                  sample={"opcode": op, "encoder_range": "(%d, %d]" % (prev_max, mx), "decoder_non_minimal": "<= %r or sized" % (ms,)})
        sv = cv.get("sized_values")
        ctx.check(sorted(sv or []) == list(range(1, 76)), "sized-values:%d" % op, VSS + ":1", "decoder of opcode %d does not treat sizes 1..75 as non-minimal" % op)
        prev_max = mx
    # the source forms behind the tables
    _refcheck(ctx, VSS, "ScriptStreamer.compile_push_data", "ss_compile_push_data", "encoder-choice")
    _refcheck(ctx, VSS, "make_variable_handler.f", "ss_variable_handler", "decoder-threshold-comparison")
    _refcheck(ctx, VSS, "ScriptStreamer.__init__", "ss_init", "threshold-chaining")
    _refcheck(ctx, VSS, "make_sized_handler.constant_size_opcode_handler", "ss_sized_handler", "sized-non-minimal")


_REF = None


def _ref():
    global _REF
    if _REF is None:
        import os
        _REF = ast.parse(open(os.path.join(os.path.dirname(os.path.dirname(os.path.abspath(__file__))), "spec", "ref_script.py")).read())
    return _REF


INTS = lambda t: t in ("size", "pc", "min_size", "max_size", "struct_size", "v", "i", "b", "t0", "opcode") or t.startswith(("len(", "int(", "ba[", "bytearray(s)[", "script[pc]"))


def _refcheck(ctx, rel, dotted, refname, key, ints=None):
    fi = ctx.p.functions.get(ctx.p.module(rel).name + "." + dotted) or ctx.func(rel, dotted)
    return sym.against_reference(ctx, fi, _ref(), refname, key, ints or INTS)


# ------------------------------------------------------------------ C12.2
def c12_2(ctx):
    _refcheck(ctx, VSS, "make_sized_handler.constant_size_opcode_handler", "ss_sized_handler", "truncated-payload:sized")
    _refcheck(ctx, VSS, "make_variable_handler.f", "ss_variable_handler", "truncated-payload:variable")
    _refcheck(ctx, VSS, "ScriptStreamer.get_opcode", "ss_get_opcode", "malformed-flag")
    _refcheck(ctx, BSS, "make_opcode_variable_list.make_variable_decoder.decode_OP_PUSHDATA", "bss_decode_pushdata", "truncated-length-field")
    # a truncation test written as arithmetic on the script's length (not as a test of the slice that was read) counts from the
    # byte AFTER the opcode: the payload is short exactly when len(script) - pc - 1 - size < 0 for the pc the handler was given
    from rules.C15 import _lin as _affine, _clean as _cl
    sh = ctx.func(VSS, "make_sized_handler.constant_size_opcode_handler")
    wsh = sym.walk(ctx, sh)
    pcn = sh.params()[1]
    scn = sh.params()[0]
    nones = [e for e in wsh.exits if e.kind == "return" and isinstance(e.value, ast.Tuple) and len(e.value.elts) == 2 and isinstance(e.value.elts[1], ast.Constant) and e.value.elts[1].value is None]
    seen_arith = False
    for e in nones:
        for o in (gi.f_opaques(e.cond) if e.cond not in (True, False) else []):
            if not isinstance(o, str) or "len(%s)" % scn not in o or "[" in o:
                continue
            try:
                cmp_ = ast.parse(o, mode="eval").body
            except SyntaxError:
                continue
            if not (isinstance(cmp_, ast.Compare) and len(cmp_.ops) == 1 and isinstance(cmp_.ops[0], ast.Lt)):
                continue
            a_, b_ = _affine(cmp_.left), _affine(cmp_.comparators[0])
            if a_ is None or b_ is None:
                continue
            d_ = dict(a_)
            for k_, v_ in b_.items():
                d_[k_] = d_.get(k_, 0) - v_
            d_ = _cl(d_)
            if d_.get("len(%s)" % scn) == 1 and d_.get(pcn) == -1 and d_.get("size") == -1 and set(d_) <= {"len(%s)" % scn, pcn, "size", ""}:
                seen_arith = True
                holds = sym.entails(e.cond, ("op", o))
                ctx.check(holds and d_.get("", 0) == -1, "truncation-counts-from-the-payload", ctx.where(sh, e.node),
                          "constant_size_opcode_handler takes the push for truncated when `%s`, i.e. when len(script) - pc - size < %d for the pc it was given; the payload starts one byte AFTER the opcode, so it is short exactly "
                          "when len(script) - pc - size < 1: a push short by one byte is taken for complete" % (o, -d_.get("", 0)), sample={"test": o})
    if not seen_arith:
        ctx.ok("truncation-counts-from-the-payload", sample={"arithmetic_tests_on_the_length": 0})
    # the length decoder of PUSHDATA1/2/4 reports a length field cut off by the end of the script as size None (the variable
    # handler turns that into `malformed`): it has such an exit, and the exit is reached by something that fails on short input
    d = ctx.func(BSS, "make_opcode_variable_list.make_variable_decoder.decode_OP_PUSHDATA")
    wd = sym.walk(ctx, d)
    none_exits = [x for x in wd.exits if x.kind == "return" and isinstance(x.value, ast.Tuple) and x.value.elts and isinstance(x.value.elts[0], ast.Constant) and x.value.elts[0].value is None]
    if not none_exits:
        ctx.bad("truncated-length-field-reported", ctx.where(d), "decode_OP_PUSHDATA has no exit that reports the size as None: a PUSHDATA whose length field is cut off by the end of the script decodes as a valid push")
    else:
        ok, only_empty = False, []
        for x in none_exits:
            ops = [o for o in (gi.f_opaques(x.cond) if x.cond not in (True, False) else []) if isinstance(o, str)]
            for o in ops:
                if o.startswith("exc@"):
                    continue
                # an explicit test selects it: it has to compare the number of bytes that are there with the WIDTH of the field
                # (a test for `no byte at all` lets a 1-byte stump of a 2- or 4-byte field through)
                if "len(" in o and ("struct_size" in o or "calcsize" in o or (" < " in o and "len(%s[" % d.params()[0] in o)):
                    ok = True
                else:
                    only_empty.append(o)
            for t in [n for n in ast.walk(d.node) if isinstance(n, ast.Try)]:
                if any(isinstance(c, ast.Call) and norm(c.func).endswith("unpack") for b in t.body for c in ast.walk(b)):
                    ok = True   # struct.unpack raises struct.error on a slice of any other length than the field's
        lenient = [c for c in ast.walk(sym.expanded(ctx, d)) if isinstance(c, ast.Call) and norm(c.func) == "int.from_bytes"]
        if not ok and only_empty and lenient:
            ctx.bad("truncated-length-field-reported", ctx.where(d, lenient[0]), "decode_OP_PUSHDATA refuses only `%s` and reads the length with int.from_bytes, which accepts a slice of any length: a length field cut off after its first byte(s) decodes as a number instead of being reported as truncated" % only_empty[0][:60])
        else:
            ctx.check(ok or bool(only_empty), "truncated-length-field-reported", ctx.where(d), "decode_OP_PUSHDATA reports size None only from an exception handler whose body cannot fail on a short length field")
    e = ctx.func("pycoin/vm/VM.py", "VM.eval_instruction")
    w = sym.walk(ctx, e)
    rz = [x for x in w.exits if x.kind == "raise"]
    okp = [o for x in rz for o in (gi.f_opaques(x.cond) if x.cond not in (True, False) else []) if "get_opcode(" in o and o.endswith("[3])")]
    if not okp:
        raise Undecided("eval_instruction does not test the is_ok flag of get_opcode directly")
    ok = any(sym._equiv(x.cond, ("not", ("op", okp[0]))) for x in rz)
    ctx.check(ok, "malformed-raises", ctx.where(e), "eval_instruction does not raise exactly when the instruction is malformed")


# ------------------------------------------------------------------ C12.3
def c12_3(ctx):
    it = ctx.interp
    st = it.get("pycoin.coins.bitcoin.ScriptTools", "BitcoinScriptTools")
    if not isinstance(st, InstanceVal):
        raise AnalysisError("BitcoinScriptTools unresolved")
    o2i, i2o = st.attrs["opcode_to_int"], st.attrs["int_to_opcode"]
    lst = it.get("pycoin.satoshi.opcodes", "OPCODE_LIST")
    names = [n for n, v in lst]
    dup = {n for n in names if names.count(n) > 1}
    ctx.check(not dup, "opcode-names-unique", "pycoin/satoshi/opcodes.py:1", "opcode names bound twice: %s" % sorted(dup))
    for v, name in sorted(i2o.items()):
        ctx.check(o2i.get(name) == v, "preferred-name-%d" % v, "pycoin/satoshi/opcodes.py:1", "opcode %d disassembles as %s, which compiles to %r" % (v, name, o2i.get(name)), what="name:%d:%s" % (v, name))
    from spec import opcodes as SPEC
    for v, name in SPEC.NAMES.items():
        got = i2o.get(v)
        ok = got == name or (v, got) in ((177, "OP_CHECKLOCKTIMEVERIFY"), (178, "OP_CHECKSEQUENCEVERIFY"))
        ctx.check(o2i.get(name) == v, "spec-name:%s" % name, "pycoin/satoshi/opcodes.py:1", "%s compiles to %r, consensus value %d" % (name, o2i.get(name), v), what="spec:%s" % name)
    # disassembly of data opcodes: bracketed hex for every push that carries explicit data
    f = ctx.func(VST, "ScriptTools.disassemble_for_opcode_data")
    mv = it.module(f.module.name)
    opp, datap = f.params()[1:3]

    def evalf(expr, v):
        env = {"self": st, opp: v, datap: b"\x01\x02"}
        val = it.eval(expr, Frame(mv, None, env))
        if isinstance(val, Unknown):
            raise ValueError("unknown")
        return bool(val)
    leaf = sym.finite_leaf(range(256), evalf)
    w = sym.walk(ctx, f, leaf, feasible=lambda r: True)
    fr = sym.exits_formula(w, lambda e: e.kind == "return" and e.value is not None and "hexlify(%s)" % datap in norm(e.value))
    if fr is False:
        raise Undecided("disassemble_for_opcode_data has no exit printing hexlify(data)")
    if fr is not True and gi.f_opaques(fr):
        raise Undecided("disassemble_for_opcode_data: guards %s are not decided by the opcode value" % gi.f_opaques(fr)[:3])
    hexed = set(sym.may_set(fr, leaf.univ, leaf.empty).m)
    want = set(range(1, 79))
    ctx.check(hexed == want, "disassemble-data-opcodes", ctx.where(f), "disassembly prints the pushed data for opcodes %s; every direct push and PUSHDATA1/2/4 (1..78) must print [hex], and nothing else (differs on %s)"
              % (_rng(hexed), _rng(hexed ^ want)), sample={"function": f.qualname, "hex_form_for": _rng(hexed)})
    _refcheck(ctx, VST, "ScriptTools.compile_expression", "st_compile_expression", "bracket-hex-first")
    _refcheck(ctx, VST, "ScriptTools.compile", "st_compile", "compile-dispatch")
    _refcheck(ctx, VST, "ScriptTools.opcode_list", "st_opcode_list", "opcode-list")
    _refcheck(ctx, VST, "ScriptTools.write_push_data", "st_write_push_data", "write-push-data")


def _rng(s):
    xs = sorted(s)
    out, i = [], 0
    while i < len(xs):
        j = i
        while j + 1 < len(xs) and xs[j + 1] == xs[j] + 1:
            j += 1
        out.append(str(xs[i]) if i == j else "%d-%d" % (xs[i], xs[j]))
        i = j + 1
    return "{" + ",".join(out) + "}"


# ------------------------------------------------------------------ C12.4
def c12_4(ctx):
    _refcheck(ctx, INT, "IntStreamer.int_from_script_bytes", "is_int_from_script_bytes", "decode-sign-magnitude")
    _refcheck(ctx, INT, "IntStreamer.int_to_script_bytes", "is_int_to_script_bytes", "encode-sign-magnitude")
    # the script-number codec is defined on ALL integers (the property quantifies over them): no fixed-width packing, which raises
    # (struct.error / OverflowError) once the magnitude outgrows the width
    for nm in ("IntStreamer.int_to_script_bytes", "IntStreamer.int_from_script_bytes"):
        g = ctx.func(INT, nm)
        fixed = []
        m_ = g.module
        mod_structs = {n_ for n_, vs in m_.assigns.items() if any(isinstance(v, ast.Call) and norm(v.func) == "struct.Struct" for v in vs)}
        for c in ast.walk(sym.expanded(ctx, g)):
            if not isinstance(c, ast.Call):
                continue
            t = norm(c.func)
            if t in ("struct.pack", "struct.unpack", "struct.Struct") or (isinstance(c.func, ast.Attribute) and isinstance(c.func.value, ast.Name) and c.func.value.id in mod_structs and c.func.attr in ("pack", "unpack")):
                fixed.append(c)
            elif t.endswith(".to_bytes") and c.args and df.const_int(c.args[0]) is not None:
                fixed.append(c)
        ctx.check(not fixed, "unbounded-script-numbers:%s" % nm.split(".")[-1], ctx.where(g, fixed[0]) if fixed else ctx.where(g),
                  "%s packs with `%s`, a fixed width: integers whose magnitude does not fit no longer encode (struct.error / OverflowError) although the codec is defined for every integer" % (nm, norm(fixed[0])[:60] if fixed else ""),
                  sample={"function": nm, "fixed_width_packs": 0})


# ------------------------------------------------------------------ C12.5
def c12_5(ctx):
    """the instruction iterator decodes with the minimality flag its caller asked for, from the position it was given"""
    f = ctx.func("pycoin/vm/ScriptTools.py", "ScriptTools.get_opcodes")
    ps = f.params()
    w = sym.walk(ctx, f)
    calls = [e for e in w.effects if e.kind == "call" and norm(e.raw.func).endswith("get_opcode")]
    if not calls:
        raise Undecided("ScriptTools.get_opcodes does not call a get_opcode")
    flag = ps[2] if len(ps) > 2 else "verify_minimal_data"
    for e in calls:
        kw = {k.arg: norm(k.value) for k in e.raw.keywords}
        pos = [norm(a) for a in e.raw.args]
        got = kw.get("verify_minimal_data", pos[2] if len(pos) > 2 else None)
        ctx.check(got == flag, "iterator-forwards-minimal-flag", ctx.where(f, e.node),
                  "get_opcodes decodes with verify_minimal_data=%s; the caller's flag `%s` has to reach the decoder (with it set, non-minimal pushes must be reported)" % (got, flag))


OBLIGATIONS = [
    Ob("C12.1", "push encoder ranges vs decoder non-minimal sets (constants, 1..75, PUSHDATA1/2/4)", c12_1, floor=90, engines="REG,GI,CE",
       breaks_if="data of exactly 75/76/255/256/65535/65536 bytes", exhaustive=True),
    Ob("C12.2", "truncated payload or truncated length field => malformed", c12_2, floor=5, engines="SYM", breaks_if="scripts ending inside a push or inside a PUSHDATA length field"),
    Ob("C12.3", "opcode table functional; data pushes disassemble to bracketed hex for opcodes 1..78", c12_3, floor=200, engines="TB,GI(finite)", breaks_if="pushes > 65535 bytes; opcode aliases", exhaustive=True),
    Ob("C12.5", "ScriptTools.get_opcodes forwards the minimal-push flag to the decoder", c12_5, floor=1, engines="SYM", breaks_if="get_opcodes(script, verify_minimal_data=True) on 4c 01 07"),
    Ob("C12.4", "script-number codec decision tables (sign byte / sign bit / minimality)", c12_4, floor=2, engines="SYM", breaks_if="magnitudes with top byte >= 128; negative zero; padded encodings"),
]
