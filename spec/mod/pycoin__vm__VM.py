"""Transcription of every function of pycoin/vm/VM.py as of the reviewed tree (see DESIGN.md section 12).
NEVER IMPORTED OR EXECUTED: parsed and compared in canonical form (sa/sym.py) with the functions in /repo."""


_CONSTS = {
    'VERIFY_MINIMALDATA': 64,
    'errno.BAD_OPCODE': 15,
    'errno.INVALID_STACK_OPERATION': 17,
    'errno.OP_COUNT': 6,
    'errno.PUSH_SIZE': 5,
    'errno.SCRIPT_SIZE': 4,
    'errno.STACK_SIZE': 7,
    'errno.UNBALANCED_CONDITIONAL': 19,
    'self.MAX_BLOB_LENGTH': 520,
    'self.MAX_OP_COUNT': 201,
    'self.MAX_SCRIPT_LENGTH': 10000,
    'self.MAX_STACK_SIZE': 1000,
}


# pycoin/vm/VM.py :: conditional_error_f
def q__conditional_error_f(msg):
    raise ScriptError()


# pycoin/vm/VM.py :: VM.__init__
def q__VM____init__(self, script, tx_context, signature_for_hash_type_f, flags, initial_stack=None, traceback_f=None):
    self.pc = 0
    self.script = script
    self.tx_context = tx_context
    self.stack = initial_stack or list()
    self.altstack = list()
    self.conditional_stack = self.ConditionalStack(conditional_error_f)
    self.op_count = 0
    self.begin_code_hash = 0
    self.flags = flags
    self.traceback_f = traceback_f
    self.signature_for_hash_type_f = signature_for_hash_type_f


# pycoin/vm/VM.py :: VM.append
def q__VM__append(self, a):
    self.stack.append(a)


# pycoin/vm/VM.py :: VM.pop
def q__VM__pop(self, *args, **kwargs):
    try:
        return self.stack.pop(*args, **kwargs)
    except IndexError:
        raise ScriptError()


# pycoin/vm/VM.py :: VM.__getitem__
def q__VM____getitem__(self, *args, **kwargs):
    try:
        return self.stack.__getitem__(*args, **kwargs)
    except IndexError:
        raise ScriptError()


# pycoin/vm/VM.py :: VM.pop_int
def q__VM__pop_int(self):
    raise NotImplementedError


# pycoin/vm/VM.py :: VM.pop_nonnegative
def q__VM__pop_nonnegative(self):
    v = self.pop_int()
    if v < 0:
        raise ScriptError()
    return v


# pycoin/vm/VM.py :: VM.push_int
def q__VM__push_int(self, v):
    raise NotImplementedError


# pycoin/vm/VM.py :: VM.bool_from_script_bytes
def q__VM__bool_from_script_bytes(class_, v, require_minimal=False):
    raise NotImplementedError


# pycoin/vm/VM.py :: VM.bool_to_script_bytes
def q__VM__bool_to_script_bytes(class_, v):
    raise NotImplementedError


# pycoin/vm/VM.py :: VM.generator_for_signature_type
def q__VM__generator_for_signature_type(class_, signature_type):
    raise NotImplementedError


# pycoin/vm/VM.py :: VM.eval_script
def q__VM__eval_script(self):
    if len(self.script) > self.MAX_SCRIPT_LENGTH:
        raise ScriptError()
    f = getattr(self.traceback_f, 'prelaunch', None)
    if f:
        f(self)
    while self.pc < len(self.script):
        self.eval_instruction()
    f = getattr(self.traceback_f, 'postscript', None)
    if f:
        f(self)
    self.post_script_check()
    return self.stack


# pycoin/vm/VM.py :: VM.eval_instruction
def q__VM__eval_instruction(self):
    all_if_true = self.conditional_stack.all_if_true()
    verify_minimal_data = self.flags & VERIFY_MINIMALDATA and all_if_true
    opcode, data, pc, is_ok = self.ScriptStreamer.get_opcode(self.script, self.pc, verify_minimal_data=verify_minimal_data)
    if not is_ok:
        raise ScriptError()
    if data and len(data) > self.MAX_BLOB_LENGTH:
        raise ScriptError()
    if data is None:
        self.op_count += 1
    self.check_stack_size()
    f = self.INSTRUCTION_LOOKUP[opcode]
    if self.traceback_f:
        f = self.traceback_f(opcode, data, pc, self) or f
    if data is not None and all_if_true:
        self.stack.append(data)
    self.pc = pc
    if all_if_true or getattr(f, 'outside_conditional', False):
        f(self)
    if self.op_count > self.MAX_OP_COUNT:
        raise ScriptError()


# pycoin/vm/VM.py :: VM.check_stack_size
def q__VM__check_stack_size(self):
    if len(self.stack) + len(self.altstack) > self.MAX_STACK_SIZE:
        raise ScriptError()


# pycoin/vm/VM.py :: VM.post_script_check
def q__VM__post_script_check(self):
    self.conditional_stack.check_final_state()
    self.check_stack_size()
