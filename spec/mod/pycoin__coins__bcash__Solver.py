"""Transcription of every function of pycoin/coins/bcash/Solver.py as of the reviewed tree (see DESIGN.md section 12).
NEVER IMPORTED OR EXECUTED: parsed and compared in canonical form (sa/sym.py) with the functions in /repo."""


_CONSTS = {
    'SIGHASH_ALL': 1,
    'SIGHASH_FORKID': 64,
}


# pycoin/coins/bcash/Solver.py :: BcashSolver.solve
def q__BcashSolver__solve(self, *args, **kwargs):
    if kwargs.get('hash_type') is None:
        kwargs['hash_type'] = SIGHASH_ALL
    kwargs['hash_type'] |= SIGHASH_FORKID
    return super(BcashSolver, self).solve(*args, **kwargs)
