"""Reference transcriptions for C03 (script evaluation vs consensus).  NEVER IMPORTED OR EXECUTED: parsed and compared
in canonical form (sa/sym.py) with the functions in /repo.  Every function of the opcode-handler modules, the VM, the
conditional stack and the P2SH / segwit / solution checkers, transcribed from the tree after the fixes 962384f, ad5a7a0,
d007199, 37f0b8e, d8c0762 and reviewed against Bitcoin Core's script/interpreter.cpp (EvalScript, CheckSignatureEncoding,
CheckLockTime / CheckSequence, VerifyScript, VerifyWitnessProgram).  _CONSTS holds the module-level constants the
transcriptions refer to by name (error numbers, verification flags, sighash types), with the values they had then."""


_CONSTS = {
    'OP_EQUAL': 135,
    'OP_HASH160': 169,
    'SEQUENCE_LOCKTIME_DISABLE_FLAG': 2147483648,
    'SEQUENCE_LOCKTIME_TYPE_FLAG': 4194304,
    'SIGHASH_ALL': 1,
    'SIGHASH_ANYONECANPAY': 128,
    'SIGHASH_NONE': 2,
    'SIGHASH_SINGLE': 3,
    'VERIFY_CHECKLOCKTIMEVERIFY': 512,
    'VERIFY_CHECKSEQUENCEVERIFY': 1024,
    'VERIFY_CLEANSTACK': 256,
    'VERIFY_DERSIG': 4,
    'VERIFY_DISCOURAGE_UPGRADABLE_NOPS': 128,
    'VERIFY_DISCOURAGE_UPGRADABLE_WITNESS_PROGRAM': 4096,
    'VERIFY_LOW_S': 8,
    'VERIFY_MINIMALDATA': 64,
    'VERIFY_MINIMALIF': 8192,
    'VERIFY_NULLDUMMY': 16,
    'VERIFY_NULLFAIL': 16384,
    'VERIFY_P2SH': 1,
    'VERIFY_SIGPUSHONLY': 32,
    'VERIFY_STRICTENC': 2,
    'VERIFY_WITNESS': 2048,
    'VERIFY_WITNESS_PUBKEYTYPE': 32768,
    'ZERO32': b'\x00\x00\x00\x00\x00\x00\x00\x00\x00\x00\x00\x00\x00\x00\x00\x00\x00\x00\x00\x00\x00\x00\x00\x00\x00\x00\x00\x00\x00\x00\x00\x00',
    'errno.BAD_OPCODE': 15,
    'errno.CLEANSTACK': 29,
    'errno.DISABLED_OPCODE': 16,
    'errno.DISCOURAGE_UPGRADABLE_NOPS': 32,
    'errno.DISCOURAGE_UPGRADABLE_WITNESS_PROGRAM': 33,
    'errno.EQUALVERIFY': 11,
    'errno.EVAL_FALSE': 2,
    'errno.INVALID_ALTSTACK_OPERATION': 18,
    'errno.INVALID_STACK_OPERATION': 17,
    'errno.MINIMALIF': 30,
    'errno.NEGATIVE_LOCKTIME': 20,
    'errno.NULLFAIL': 31,
    'errno.OP_COUNT': 6,
    'errno.OP_RETURN': 3,
    'errno.PUBKEYTYPE': 28,
    'errno.PUBKEY_COUNT': 9,
    'errno.PUSH_SIZE': 5,
    'errno.SCRIPT_SIZE': 4,
    'errno.SIG_COUNT': 8,
    'errno.SIG_DER': 23,
    'errno.SIG_HASHTYPE': 22,
    'errno.SIG_HIGH_S': 26,
    'errno.SIG_NULLDUMMY': 27,
    'errno.SIG_PUSHONLY': 25,
    'errno.STACK_SIZE': 7,
    'errno.UNBALANCED_CONDITIONAL': 19,
    'errno.UNKNOWN_ERROR': 1,
    'errno.UNSATISFIED_LOCKTIME': 21,
    'errno.VERIFY': 10,
    'errno.WITNESS_MALLEATED': 37,
    'errno.WITNESS_MALLEATED_P2SH': 38,
    'errno.WITNESS_PROGRAM_MISMATCH': 36,
    'errno.WITNESS_PROGRAM_WITNESS_EMPTY': 35,
    'errno.WITNESS_PROGRAM_WRONG_LENGTH': 34,
    'errno.WITNESS_PUBKEYTYPE': 40,
    'errno.WITNESS_UNEXPECTED': 39,
    'self.MAX_BLOB_LENGTH': 520,
    'self.MAX_OP_COUNT': 201,
    'self.MAX_SCRIPT_LENGTH': 10000,
    'self.MAX_STACK_SIZE': 1000,
}


# pycoin/satoshi/intops.py :: do_OP_VERIFY
def q__do_OP_VERIFY(vm):
    v = vm.bool_from_script_bytes(vm.pop())
    if not v:
        raise ScriptError()


# pycoin/satoshi/intops.py :: do_OP_DEPTH
def q__do_OP_DEPTH(vm):
    vm.push_int(len(vm.stack))


# pycoin/satoshi/intops.py :: do_OP_PICK
def q__do_OP_PICK(vm):
    v = pop_check_bounds(vm)
    if v < 0:
        raise ScriptError()
    vm.append(vm[-v - 1])


# pycoin/satoshi/intops.py :: do_OP_ROLL
def q__do_OP_ROLL(vm):
    v = pop_check_bounds(vm)
    if v < 0:
        raise ScriptError()
    vm.append(vm.pop(-v - 1))


# pycoin/satoshi/intops.py :: do_OP_SUBSTR
def q__do_OP_SUBSTR(vm):
    pos = vm.pop_nonnegative()
    length = vm.pop_nonnegative()
    vm.append(vm.pop()[length:length + pos])


# pycoin/satoshi/intops.py :: do_OP_LEFT
def q__do_OP_LEFT(vm):
    pos = vm.pop_nonnegative()
    vm.append(vm.pop()[:pos])


# pycoin/satoshi/intops.py :: do_OP_RIGHT
def q__do_OP_RIGHT(vm):
    pos = vm.pop_nonnegative()
    if pos > 0:
        vm.append(vm.pop()[-pos:])
    else:
        vm.pop()
        vm.append(b'')


# pycoin/satoshi/intops.py :: do_OP_SIZE
def q__do_OP_SIZE(vm):
    vm.push_int(len(vm[-1]))


# pycoin/satoshi/intops.py :: do_OP_EQUAL
def q__do_OP_EQUAL(vm):
    v1, v2 = [vm.pop() for i in range(2)]
    vm.append(vm.bool_to_script_bytes(v1 == v2))


# pycoin/satoshi/intops.py :: do_OP_EQUALVERIFY
def q__do_OP_EQUALVERIFY(vm):
    do_OP_EQUAL(vm)
    v = vm.bool_from_script_bytes(vm.pop())
    if not v:
        raise ScriptError()


# pycoin/satoshi/intops.py :: pop_check_bounds
def q__pop_check_bounds(vm):
    if len(vm[-1]) > 4:
        raise ScriptError()
    return vm.pop_int()


# pycoin/satoshi/intops.py :: make_bin_op
def q__make_bin_op(binop):

    def f(vm):
        v1, v2 = [pop_check_bounds(vm) for i in range(2)]
        vm.push_int(binop(v2, v1))
    return f


# pycoin/satoshi/intops.py :: make_bin_op.f
def q__make_bin_op__f(vm):
    v1, v2 = [pop_check_bounds(vm) for i in range(2)]
    vm.push_int(binop(v2, v1))


# pycoin/satoshi/intops.py :: make_bool_bin_op
def q__make_bool_bin_op(binop):

    def f(vm):
        v1, v2 = [pop_check_bounds(vm) for i in range(2)]
        vm.append(vm.bool_to_script_bytes(binop(v2, v1)))
    return f


# pycoin/satoshi/intops.py :: make_bool_bin_op.f
def q__make_bool_bin_op__f(vm):
    v1, v2 = [pop_check_bounds(vm) for i in range(2)]
    vm.append(vm.bool_to_script_bytes(binop(v2, v1)))


# pycoin/satoshi/intops.py :: do_OP_NUMEQUALVERIFY
def q__do_OP_NUMEQUALVERIFY(vm):
    do_OP_NUMEQUAL(vm)
    do_OP_VERIFY(vm)


# pycoin/satoshi/intops.py :: do_OP_WITHIN
def q__do_OP_WITHIN(vm):
    v3, v2, v1 = [pop_check_bounds(vm) for i in range(3)]
    ok = v2 <= v1 < v3
    vm.append(vm.bool_to_script_bytes(ok))


# pycoin/satoshi/intops.py :: make_unary_num_op
def q__make_unary_num_op(unary_f):

    def f(vm):
        vm.push_int(unary_f(pop_check_bounds(vm)))
    return f


# pycoin/satoshi/intops.py :: make_unary_num_op.f
def q__make_unary_num_op__f(vm):
    vm.push_int(unary_f(pop_check_bounds(vm)))


# pycoin/satoshi/intops.py :: do_OP_NOT
def q__do_OP_NOT(vm):
    vm.append(vm.bool_to_script_bytes(not pop_check_bounds(vm)))


# pycoin/satoshi/intops.py :: do_OP_0NOTEQUAL
def q__do_OP_0NOTEQUAL(vm):
    vm.append(vm.bool_to_script_bytes(pop_check_bounds(vm) != 0))


# pycoin/satoshi/stackops.py :: do_OP_NOP
def q__do_OP_NOP(s):
    pass


# pycoin/satoshi/stackops.py :: do_OP_VER
def q__do_OP_VER(stack):
    raise ScriptError()


# pycoin/satoshi/stackops.py :: do_OP_RESERVED1
def q__do_OP_RESERVED1(stack):
    raise ScriptError()


# pycoin/satoshi/stackops.py :: do_OP_RESERVED2
def q__do_OP_RESERVED2(stack):
    raise ScriptError()


# pycoin/satoshi/stackops.py :: do_OP_RETURN
def q__do_OP_RETURN(stack):
    raise ScriptError()


# pycoin/satoshi/stackops.py :: do_OP_2DROP
def q__do_OP_2DROP(stack):
    stack.pop()
    stack.pop()


# pycoin/satoshi/stackops.py :: do_OP_2DUP
def q__do_OP_2DUP(stack):
    stack.append(stack[-2])
    stack.append(stack[-2])


# pycoin/satoshi/stackops.py :: do_OP_3DUP
def q__do_OP_3DUP(stack):
    stack.append(stack[-3])
    stack.append(stack[-3])
    stack.append(stack[-3])


# pycoin/satoshi/stackops.py :: do_OP_2OVER
def q__do_OP_2OVER(stack):
    stack.append(stack[-4])
    stack.append(stack[-4])


# pycoin/satoshi/stackops.py :: do_OP_2ROT
def q__do_OP_2ROT(stack):
    stack.append(stack.pop(-6))
    stack.append(stack.pop(-6))


# pycoin/satoshi/stackops.py :: do_OP_2SWAP
def q__do_OP_2SWAP(stack):
    stack.append(stack.pop(-4))
    stack.append(stack.pop(-4))


# pycoin/satoshi/stackops.py :: _cast_to_bool
def q___cast_to_bool(v):
    if not isinstance(v, (bytes, bytearray)):
        return bool(v)
    for i, b in enumerate(v):
        if b != 0:
            return not (i == len(v) - 1 and b == 128)
    return False


# pycoin/satoshi/stackops.py :: do_OP_IFDUP
def q__do_OP_IFDUP(stack):
    if _cast_to_bool(stack[-1]):
        stack.append(stack[-1])


# pycoin/satoshi/stackops.py :: do_OP_DROP
def q__do_OP_DROP(stack):
    stack.pop()


# pycoin/satoshi/stackops.py :: do_OP_DUP
def q__do_OP_DUP(stack):
    stack.append(stack[-1])


# pycoin/satoshi/stackops.py :: do_OP_NIP
def q__do_OP_NIP(stack):
    v = stack.pop()
    stack.pop()
    stack.append(v)


# pycoin/satoshi/stackops.py :: do_OP_OVER
def q__do_OP_OVER(stack):
    stack.append(stack[-2])


# pycoin/satoshi/stackops.py :: do_OP_ROT
def q__do_OP_ROT(stack):
    stack.append(stack.pop(-3))


# pycoin/satoshi/stackops.py :: do_OP_SWAP
def q__do_OP_SWAP(stack):
    stack.append(stack.pop(-2))


# pycoin/satoshi/stackops.py :: do_OP_TUCK
def q__do_OP_TUCK(stack):
    v1 = stack.pop()
    v2 = stack.pop()
    stack.append(v1)
    stack.append(v2)
    stack.append(v1)


# pycoin/satoshi/stackops.py :: do_OP_CAT
def q__do_OP_CAT(stack):
    v1 = stack.pop()
    v2 = stack.pop()
    stack.append(v2 + v1)


# pycoin/satoshi/stackops.py :: do_OP_RIPEMD160
def q__do_OP_RIPEMD160(stack):
    stack.append(ripemd160(stack.pop()).digest())


# pycoin/satoshi/stackops.py :: do_OP_SHA1
def q__do_OP_SHA1(stack):
    stack.append(hashlib.sha1(stack.pop()).digest())


# pycoin/satoshi/stackops.py :: do_OP_SHA256
def q__do_OP_SHA256(stack):
    stack.append(hashlib.sha256(stack.pop()).digest())


# pycoin/satoshi/stackops.py :: do_OP_HASH160
def q__do_OP_HASH160(stack):
    stack.append(hash160(stack.pop()))


# pycoin/satoshi/stackops.py :: do_OP_HASH256
def q__do_OP_HASH256(stack):
    stack.append(double_sha256(stack.pop()))


# pycoin/satoshi/miscops.py :: make_bad_opcode
def q__make_bad_opcode(opcode, even_outside_conditional=False, err=errno.BAD_OPCODE):

    def bad_opcode(vm):
        raise ScriptError()
    setattr(bad_opcode, 'outside_conditional', even_outside_conditional)
    return bad_opcode


# pycoin/satoshi/miscops.py :: make_bad_opcode.bad_opcode
def q__make_bad_opcode__bad_opcode(vm):
    raise ScriptError()


# pycoin/satoshi/miscops.py :: do_OP_CODESEPARATOR
def q__do_OP_CODESEPARATOR(vm):
    vm.begin_code_hash = vm.pc


# pycoin/satoshi/miscops.py :: do_OP_TOALTSTACK
def q__do_OP_TOALTSTACK(vm):
    vm.altstack.append(vm.pop())


# pycoin/satoshi/miscops.py :: do_OP_RESERVED
def q__do_OP_RESERVED(vm):
    if vm.conditional_stack.all_if_true():
        raise ScriptError()
    vm.op_count -= 1


# pycoin/satoshi/miscops.py :: do_OP_FROMALTSTACK
def q__do_OP_FROMALTSTACK(vm):
    if len(vm.altstack) < 1:
        raise ScriptError()
    vm.append(vm.altstack.pop())


# pycoin/satoshi/miscops.py :: discourage_nops
def q__discourage_nops(vm):
    if vm.flags & VERIFY_DISCOURAGE_UPGRADABLE_NOPS:
        raise ScriptError()


# pycoin/satoshi/miscops.py :: make_if
def q__make_if(reverse_bool=False):

    def f(vm):
        stack = vm.stack
        conditional_stack = vm.conditional_stack
        the_bool = False
        if conditional_stack.all_if_true():
            if len(stack) < 1:
                raise ScriptError()
            item = vm.pop()
            if vm.flags & VERIFY_MINIMALIF:
                if item not in (vm.VM_FALSE, vm.VM_TRUE):
                    raise ScriptError()
            the_bool = vm.bool_from_script_bytes(item)
        vm.conditional_stack.OP_IF(the_bool, reverse_bool=reverse_bool)
    setattr(f, 'outside_conditional', True)
    return f


# pycoin/satoshi/miscops.py :: make_if.f
def q__make_if__f(vm):
    stack = vm.stack
    conditional_stack = vm.conditional_stack
    the_bool = False
    if conditional_stack.all_if_true():
        if len(stack) < 1:
            raise ScriptError()
        item = vm.pop()
        if vm.flags & VERIFY_MINIMALIF:
            if item not in (vm.VM_FALSE, vm.VM_TRUE):
                raise ScriptError()
        the_bool = vm.bool_from_script_bytes(item)
    vm.conditional_stack.OP_IF(the_bool, reverse_bool=reverse_bool)


# pycoin/satoshi/miscops.py :: do_OP_ELSE
def q__do_OP_ELSE(vm):
    vm.conditional_stack.OP_ELSE()


# pycoin/satoshi/miscops.py :: do_OP_ENDIF
def q__do_OP_ENDIF(vm):
    vm.conditional_stack.OP_ENDIF()


# pycoin/satoshi/miscops.py :: do_OP_CHECKLOCKTIMEVERIFY
# pycoin/satoshi/miscops.py :: do_OP_CHECKLOCKTIMEVERIFY
def q__do_OP_CHECKLOCKTIMEVERIFY(vm):
    if not vm.flags & VERIFY_CHECKLOCKTIMEVERIFY:
        if vm.flags & VERIFY_DISCOURAGE_UPGRADABLE_NOPS:
            raise ScriptError()
        return
    if vm.tx_context.sequence == 4294967295:
        raise ScriptError()
    if len(vm.stack) < 1:
        raise ScriptError()
    if len(vm.stack[-1]) > 5:
        raise ScriptError()
    top = vm.stack[-1]
    max_lock_time = vm.pop_int()
    vm.append(top)
    if max_lock_time < 0:
        raise ScriptError()
    era_max = max_lock_time >= 500000000
    era_lock_time = vm.tx_context.lock_time >= 500000000
    if era_max != era_lock_time:
        raise ScriptError()
    if max_lock_time > vm.tx_context.lock_time:
        raise ScriptError()


# pycoin/satoshi/miscops.py :: _check_sequence_verify
def q___check_sequence_verify(sequence, tx_context_sequence):
    SEQUENCE_LOCKTIME_MASK = 65535
    mask = SEQUENCE_LOCKTIME_TYPE_FLAG | SEQUENCE_LOCKTIME_MASK
    sequence_masked = sequence & mask
    tx_sequence_masked = tx_context_sequence & mask
    if not (tx_sequence_masked < SEQUENCE_LOCKTIME_TYPE_FLAG and sequence_masked < SEQUENCE_LOCKTIME_TYPE_FLAG or (tx_sequence_masked >= SEQUENCE_LOCKTIME_TYPE_FLAG and sequence_masked >= SEQUENCE_LOCKTIME_TYPE_FLAG)):
        raise ScriptError()
    if sequence_masked > tx_sequence_masked:
        raise ScriptError()


# pycoin/satoshi/miscops.py :: do_OP_CHECKSEQUENCEVERIFY
# pycoin/satoshi/miscops.py :: do_OP_CHECKSEQUENCEVERIFY
def q__do_OP_CHECKSEQUENCEVERIFY(vm):
    if not vm.flags & VERIFY_CHECKSEQUENCEVERIFY:
        if vm.flags & VERIFY_DISCOURAGE_UPGRADABLE_NOPS:
            raise ScriptError()
        return
    if len(vm.stack) < 1:
        raise ScriptError()
    if len(vm.stack[-1]) > 5:
        raise ScriptError()
    top = vm.stack[-1]
    sequence = vm.pop_int()
    vm.append(top)
    if sequence < 0:
        raise ScriptError()
    if sequence & SEQUENCE_LOCKTIME_DISABLE_FLAG:
        return
    if vm.tx_context.version < 2:
        raise ScriptError()
    if vm.tx_context.sequence & SEQUENCE_LOCKTIME_DISABLE_FLAG:
        raise ScriptError()
    _check_sequence_verify(sequence, vm.tx_context.sequence)


# pycoin/satoshi/miscops.py :: extra_opcodes
def q__extra_opcodes():
    d = {}
    BAD_OPCODES = 'OP_VERIF OP_VERNOTIF '.split()
    for opcode in BAD_OPCODES:
        d[opcode] = make_bad_opcode(opcode, even_outside_conditional=True)
    DISABLED_OPCODES = 'OP_CAT OP_SUBSTR OP_LEFT OP_RIGHT OP_INVERT OP_AND OP_OR OP_XOR OP_2MUL OP_2DIV OP_MUL OP_DIV OP_MOD OP_LSHIFT OP_RSHIFT'.split()
    for opcode in DISABLED_OPCODES:
        d[opcode] = make_bad_opcode(opcode, even_outside_conditional=True, err=errno.DISABLED_OPCODE)
    BAD_OPCODES_OUTSIDE_IF = 'OP_NULLDATA OP_PUBKEYHASH OP_PUBKEY OP_INVALIDOPCODE'.split()
    for opcode in BAD_OPCODES_OUTSIDE_IF:
        d[opcode] = make_bad_opcode(opcode, even_outside_conditional=False)
    NOP_SET = 'OP_NOP1 OP_NOP3 OP_NOP4 OP_NOP5 OP_NOP6 OP_NOP7 OP_NOP8 OP_NOP9 OP_NOP10'.split()
    for opcode in NOP_SET:
        d[opcode] = discourage_nops
    d['OP_IF'] = make_if()
    d['OP_NOTIF'] = make_if(reverse_bool=True)
    for i in (1, 2, 4):
        d['OP_PUSHDATA%d' % i] = lambda s: 0
    for v in range(0, 128):
        d['OP_%d' % v] = lambda s: 0
    return d


# pycoin/satoshi/checksigops.py :: _check_valid_signature_1
def q___check_valid_signature_1(sig):
    ls = len(sig)
    if ls < 9 or ls > 73:
        raise ScriptError()
    if sig[0] != 48:
        raise ScriptError()
    if sig[1] != ls - 3:
        raise ScriptError()
    r_len = sig[3]
    if 5 + r_len >= ls:
        raise ScriptError()


# pycoin/satoshi/checksigops.py :: _check_valid_signature_2
def q___check_valid_signature_2(sig):
    ls = len(sig)
    r_len = sig[3]
    s_len = sig[5 + r_len]
    if r_len + s_len + 7 != ls:
        raise ScriptError()
    if sig[2] != 2:
        raise ScriptError()
    if r_len == 0:
        raise ScriptError()
    if sig[4] & 128:
        raise ScriptError()
    if r_len > 1 and sig[4] == 0 and (not sig[5] & 128):
        raise ScriptError()
    if sig[r_len + 4] != 2:
        raise ScriptError()
    if s_len == 0:
        raise ScriptError()
    if sig[r_len + 6] & 128:
        raise ScriptError()
    if s_len > 1 and sig[r_len + 6] == 0 and (not sig[r_len + 7] & 128):
        raise ScriptError()


# pycoin/satoshi/checksigops.py :: check_valid_signature
def q__check_valid_signature(sig):
    sig_list = [s for s in sig]
    _check_valid_signature_1(sig_list)
    _check_valid_signature_2(sig_list)


# pycoin/satoshi/checksigops.py :: check_low_der_signature
def q__check_low_der_signature(sig_pair, generator):
    r, s = sig_pair
    hi_s = generator.order() - s
    if hi_s < s:
        raise ScriptError()


# pycoin/satoshi/checksigops.py :: check_defined_hashtype_signature
def q__check_defined_hashtype_signature(sig):
    if len(sig) == 0:
        raise ScriptError()
    hash_type = sig[-1] & ~SIGHASH_ANYONECANPAY
    if hash_type < SIGHASH_ALL or hash_type > SIGHASH_SINGLE:
        raise ScriptError()


# pycoin/satoshi/checksigops.py :: parse_signature_blob
def q__parse_signature_blob(sig_blob):
    if len(sig_blob) == 0:
        raise ValueError()
    sig_pair = der.sigdecode_der(sig_blob[:-1], use_broken_open_ssl_mechanism=True)
    signature_type = ord(sig_blob[-1:])
    return (sig_pair, signature_type)


# pycoin/satoshi/checksigops.py :: parse_and_check_signature_blob
def q__parse_and_check_signature_blob(sig_blob, flags, vm):
    if len(sig_blob) == 0:
        raise ValueError()
    if flags & (VERIFY_DERSIG | VERIFY_LOW_S | VERIFY_STRICTENC):
        check_valid_signature(sig_blob)
    if flags & VERIFY_STRICTENC:
        check_defined_hashtype_signature(sig_blob)
    sig_pair, signature_type = parse_signature_blob(sig_blob)
    if flags & VERIFY_LOW_S:
        generator = vm.generator_for_signature_type(signature_type)
        check_low_der_signature(sig_pair, generator)
    return (sig_pair, signature_type)


# pycoin/satoshi/checksigops.py :: check_public_key_encoding
def q__check_public_key_encoding(blob):
    lb = len(blob)
    if lb >= 33:
        fb = blob[0]
        if fb == 4:
            if lb == 65:
                return
        elif fb in (2, 3):
            if lb == 33:
                return
    raise ScriptError()


# pycoin/satoshi/checksigops.py :: checksig
# pycoin/satoshi/checksigops.py :: checksig
def q__checksig(vm, sig_pair, signature_type, pair_blob, blobs_to_delete, sighash_cache, verify_witness_pubkeytype, verify_strict):
    generator = vm.generator_for_signature_type(signature_type)
    check_public_key_flags(pair_blob, verify_witness_pubkeytype, verify_strict)
    try:
        public_pair = sec_to_public_pair(pair_blob, generator, strict=verify_strict)
    except (ValueError, EncodingError):
        return False
    if signature_type not in sighash_cache:
        sighash_cache[signature_type] = vm.signature_for_hash_type_f(signature_type, blobs_to_delete, vm)
    try:
        if generator.verify(public_pair, sighash_cache[signature_type], sig_pair):
            return True
    except ValueError:
        pass
    return False


# pycoin/satoshi/checksigops.py :: checksigs
# pycoin/satoshi/checksigops.py :: checksigs
def q__checksigs(vm, sig_blobs, public_pair_blobs):
    sig_blobs_remaining = list(sig_blobs)
    flags = vm.flags
    sighash_cache = {}
    verify_witness_pubkeytype = flags & VERIFY_WITNESS_PUBKEYTYPE
    verify_strict = not not flags & VERIFY_STRICTENC
    any_nonblank = flags & VERIFY_NULLFAIL and any((len(s) > 0 for s in sig_blobs))
    while len(sig_blobs_remaining) > 0:
        sig_blob = sig_blobs_remaining.pop()
        try:
            sig_pair, signature_type = parse_and_check_signature_blob(sig_blob, flags, vm)
        except (der.UnexpectedDER, ValueError):
            sig_pair = None
        while len(sig_blobs_remaining) < len(public_pair_blobs):
            pair_blob = public_pair_blobs.pop()
            if sig_pair is None:
                check_public_key_flags(pair_blob, verify_witness_pubkeytype, verify_strict)
                continue
            if checksig(vm, sig_pair, signature_type, pair_blob, sig_blobs, sighash_cache, verify_witness_pubkeytype, verify_strict):
                break
        else:
            if any_nonblank:
                raise ScriptError()
            vm.append(vm.VM_FALSE)
            return
    vm.append(vm.VM_TRUE)


# pycoin/satoshi/checksigops.py :: do_OP_CHECKSIG
def q__do_OP_CHECKSIG(vm):
    pair_blob = vm.pop()
    sig_blob = vm.pop()
    checksigs(vm, [sig_blob], [pair_blob])


# pycoin/satoshi/checksigops.py :: do_OP_CHECKMULTISIG
def q__do_OP_CHECKMULTISIG(vm):
    key_count = pop_check_bounds(vm)
    if key_count < 0 or key_count > 20:
        raise ScriptError()
    public_pair_blobs = [vm.pop() for _ in range(key_count)]
    public_pair_blobs.reverse()
    signature_count = pop_check_bounds(vm)
    if signature_count < 0 or signature_count > key_count:
        raise ScriptError()
    sig_blobs = [vm.pop() for _ in range(signature_count)]
    sig_blobs.reverse()
    hack_byte = vm.pop()
    if vm.flags & VERIFY_NULLDUMMY and hack_byte != b'':
        raise ScriptError()
    checksigs(vm, sig_blobs, public_pair_blobs)
    vm.op_count += key_count


# pycoin/satoshi/checksigops.py :: do_OP_CHECKMULTISIGVERIFY
def q__do_OP_CHECKMULTISIGVERIFY(vm):
    do_OP_CHECKMULTISIG(vm)
    v = vm.bool_from_script_bytes(vm.pop())
    if not v:
        raise ScriptError()


# pycoin/satoshi/checksigops.py :: do_OP_CHECKSIGVERIFY
def q__do_OP_CHECKSIGVERIFY(vm):
    do_OP_CHECKSIG(vm)
    v = vm.bool_from_script_bytes(vm.pop())
    if not v:
        raise ScriptError()


# pycoin/vm/ConditionalStack.py :: ConditionalStack.__init__
def q__ConditionalStack____init__(self, error_f):
    self.true_count = 0
    self.false_count = 0
    self.error_f = error_f


# pycoin/vm/ConditionalStack.py :: ConditionalStack.all_if_true
def q__ConditionalStack__all_if_true(self):
    return self.false_count == 0


# pycoin/vm/ConditionalStack.py :: ConditionalStack.OP_IF
def q__ConditionalStack__OP_IF(self, the_bool, reverse_bool=False):
    if self.false_count > 0:
        self.false_count += 1
        return
    if reverse_bool:
        the_bool = not the_bool
    if the_bool:
        self.true_count += 1
    else:
        self.false_count = 1


# pycoin/vm/ConditionalStack.py :: ConditionalStack.OP_ELSE
def q__ConditionalStack__OP_ELSE(self):
    if self.false_count > 1:
        return
    if self.false_count == 1:
        self.false_count = 0
        self.true_count += 1
    else:
        if self.true_count == 0:
            self.error_f('OP_ELSE without OP_IF')
            return
        self.true_count -= 1
        self.false_count += 1


# pycoin/vm/ConditionalStack.py :: ConditionalStack.OP_ENDIF
def q__ConditionalStack__OP_ENDIF(self):
    if self.false_count > 0:
        self.false_count -= 1
    else:
        if self.true_count == 0:
            self.error_f('OP_ENDIF without OP_IF')
            return
        self.true_count -= 1


# pycoin/vm/ConditionalStack.py :: ConditionalStack.check_final_state
def q__ConditionalStack__check_final_state(self):
    if self.false_count > 0 or self.true_count > 0:
        self.error_f('missing ENDIF')


# pycoin/vm/ConditionalStack.py :: ConditionalStack.__repr__
def q__ConditionalStack____repr__(self):
    if self.true_count or self.false_count:
        return '[IfStack true:%d/false:%d]' % (self.true_count, self.false_count)
    return '[]'


# pycoin/vm/VM.py :: conditional_error_f
def q__conditional_error_f(msg):
    raise ScriptError()


# pycoin/vm/VM.py :: VM.__init__
def q__VM____init__(self, script, tx_context, signature_for_hash_type_f, flags, initial_stack=None, traceback_f=None):
    self.pc = 0
    self.script = script
    self.tx_context = tx_context
    self.stack = initial_stack or list()
    self.altstack = list()
    self.conditional_stack = self.ConditionalStack(conditional_error_f)
    self.op_count = 0
    self.begin_code_hash = 0
    self.flags = flags
    self.traceback_f = traceback_f
    self.signature_for_hash_type_f = signature_for_hash_type_f


# pycoin/vm/VM.py :: VM.append
def q__VM__append(self, a):
    self.stack.append(a)


# pycoin/vm/VM.py :: VM.pop
def q__VM__pop(self, *args, **kwargs):
    try:
        return self.stack.pop(*args, **kwargs)
    except IndexError:
        raise ScriptError()


# pycoin/vm/VM.py :: VM.__getitem__
def q__VM____getitem__(self, *args, **kwargs):
    try:
        return self.stack.__getitem__(*args, **kwargs)
    except IndexError:
        raise ScriptError()


# pycoin/vm/VM.py :: VM.pop_int
def q__VM__pop_int(self):
    raise NotImplementedError


# pycoin/vm/VM.py :: VM.pop_nonnegative
def q__VM__pop_nonnegative(self):
    v = self.pop_int()
    if v < 0:
        raise ScriptError()
    return v


# pycoin/vm/VM.py :: VM.push_int
def q__VM__push_int(self, v):
    raise NotImplementedError


# pycoin/vm/VM.py :: VM.bool_from_script_bytes
def q__VM__bool_from_script_bytes(class_, v, require_minimal=False):
    raise NotImplementedError


# pycoin/vm/VM.py :: VM.bool_to_script_bytes
def q__VM__bool_to_script_bytes(class_, v):
    raise NotImplementedError


# pycoin/vm/VM.py :: VM.generator_for_signature_type
def q__VM__generator_for_signature_type(class_, signature_type):
    raise NotImplementedError


# pycoin/vm/VM.py :: VM.eval_script
def q__VM__eval_script(self):
    if len(self.script) > self.MAX_SCRIPT_LENGTH:
        raise ScriptError()
    f = getattr(self.traceback_f, 'prelaunch', None)
    if f:
        f(self)
    while self.pc < len(self.script):
        self.eval_instruction()
    f = getattr(self.traceback_f, 'postscript', None)
    if f:
        f(self)
    self.post_script_check()
    return self.stack


# pycoin/vm/VM.py :: VM.eval_instruction
def q__VM__eval_instruction(self):
    all_if_true = self.conditional_stack.all_if_true()
    verify_minimal_data = self.flags & VERIFY_MINIMALDATA and all_if_true
    opcode, data, pc, is_ok = self.ScriptStreamer.get_opcode(self.script, self.pc, verify_minimal_data=verify_minimal_data)
    if not is_ok:
        raise ScriptError()
    if data and len(data) > self.MAX_BLOB_LENGTH:
        raise ScriptError()
    if data is None:
        self.op_count += 1
    self.check_stack_size()
    f = self.INSTRUCTION_LOOKUP[opcode]
    if self.traceback_f:
        f = self.traceback_f(opcode, data, pc, self) or f
    if data is not None and all_if_true:
        self.stack.append(data)
    self.pc = pc
    if all_if_true or getattr(f, 'outside_conditional', False):
        f(self)
    if self.op_count > self.MAX_OP_COUNT:
        raise ScriptError()


# pycoin/vm/VM.py :: VM.check_stack_size
def q__VM__check_stack_size(self):
    if len(self.stack) + len(self.altstack) > self.MAX_STACK_SIZE:
        raise ScriptError()


# pycoin/vm/VM.py :: VM.post_script_check
def q__VM__post_script_check(self):
    self.conditional_stack.check_final_state()
    self.check_stack_size()


# pycoin/coins/bitcoin/VM.py :: BitcoinVM.pop_int
def q__BitcoinVM__pop_int(self):
    return self.IntStreamer.int_from_script_bytes(self.pop(), require_minimal=bool(self.flags & VERIFY_MINIMALDATA))


# pycoin/coins/bitcoin/VM.py :: BitcoinVM.pop_nonnegative
def q__BitcoinVM__pop_nonnegative(self):
    v = self.pop_int()
    if v < 0:
        raise ScriptError()
    return v


# pycoin/coins/bitcoin/VM.py :: BitcoinVM.push_int
def q__BitcoinVM__push_int(self, v):
    self.append(self.IntStreamer.int_to_script_bytes(v))


# pycoin/coins/bitcoin/VM.py :: BitcoinVM.bool_from_script_bytes
def q__BitcoinVM__bool_from_script_bytes(class_, v, require_minimal=False):
    int_v = class_.IntStreamer.int_from_script_bytes(v, require_minimal=require_minimal)
    if require_minimal:
        if int_v not in (class_.VM_FALSE, class_.VM_TRUE):
            raise ScriptError()
    return bool(int_v)


# pycoin/coins/bitcoin/VM.py :: BitcoinVM.bool_to_script_bytes
def q__BitcoinVM__bool_to_script_bytes(class_, v):
    return class_.VM_TRUE if v else class_.VM_FALSE


# pycoin/coins/bitcoin/VM.py :: BitcoinVM.generator_for_signature_type
def q__BitcoinVM__generator_for_signature_type(class_, signature_type):
    return secp256k1_generator


# pycoin/coins/bitcoin/SegwitChecker.py :: SegwitChecker._make_witness_sighash_f
def q__SegwitChecker___make_witness_sighash_f(self, tx_in_idx):

    def witness_signature_for_hash_type(hash_type, sig_blobs, vm):
        return self._signature_for_hash_type_segwit(vm.script[vm.begin_code_hash:], tx_in_idx, hash_type)
    return witness_signature_for_hash_type


# pycoin/coins/bitcoin/SegwitChecker.py :: SegwitChecker._make_witness_sighash_f.witness_signature_for_hash_type
def q__SegwitChecker___make_witness_sighash_f__witness_signature_for_hash_type(hash_type, sig_blobs, vm):
    return self._signature_for_hash_type_segwit(vm.script[vm.begin_code_hash:], tx_in_idx, hash_type)


# pycoin/coins/bitcoin/SegwitChecker.py :: SegwitChecker._puzzle_script_for_len20_segwit
def q__SegwitChecker___puzzle_script_for_len20_segwit(self, witness_program):
    return self.V0_len20_prefix + self.ScriptTools.compile_push_data_list([witness_program]) + self.V0_len20_postfix


# pycoin/coins/bitcoin/SegwitChecker.py :: SegwitChecker._check_witness_program_v0
def q__SegwitChecker___check_witness_program_v0(self, witness_solution_stack, witness_program):
    size = len(witness_program)
    if size == 32:
        if len(witness_solution_stack) == 0:
            raise ScriptError()
        puzzle_script = witness_solution_stack[-1]
        if sha256(puzzle_script).digest() != witness_program:
            raise ScriptError()
        stack = list(witness_solution_stack[:-1])
    elif size == 20:
        if len(witness_solution_stack) != 2:
            raise ScriptError()
        puzzle_script = self._puzzle_script_for_len20_segwit(witness_program)
        stack = list(witness_solution_stack)
    else:
        raise ScriptError()
    return (stack, puzzle_script)


# pycoin/coins/bitcoin/SegwitChecker.py :: SegwitChecker._witness_program_version
def q__SegwitChecker___witness_program_version(self, script):
    size = len(script)
    if size < 4 or size > 42:
        return None
    first_opcode = script[0]
    if script[1] + 2 != size:
        return None
    if first_opcode == self.OP_0:
        return 0
    if self.OP_1 is not None and self.OP_16 is not None and (self.OP_1 <= first_opcode <= self.OP_16):
        return first_opcode - self.OP_1 + 1
    return None


# pycoin/coins/bitcoin/SegwitChecker.py :: SegwitChecker._hash_prevouts
def q__SegwitChecker___hash_prevouts(self, hash_type):
    if hash_type & SIGHASH_ANYONECANPAY:
        return ZERO32
    f = io.BytesIO()
    for tx_in in self.tx.txs_in:
        f.write(tx_in.previous_hash)
        stream_struct('L', f, tx_in.previous_index)
    return double_sha256(f.getvalue())


# pycoin/coins/bitcoin/SegwitChecker.py :: SegwitChecker._hash_sequence
def q__SegwitChecker___hash_sequence(self, hash_type):
    if hash_type & SIGHASH_ANYONECANPAY or hash_type & 31 == SIGHASH_SINGLE or hash_type & 31 == SIGHASH_NONE:
        return ZERO32
    f = io.BytesIO()
    for tx_in in self.tx.txs_in:
        stream_struct('L', f, tx_in.sequence)
    return double_sha256(f.getvalue())


# pycoin/coins/bitcoin/SegwitChecker.py :: SegwitChecker._hash_outputs
def q__SegwitChecker___hash_outputs(self, hash_type, tx_in_idx):
    txs_out = self.tx.txs_out
    if hash_type & 31 == SIGHASH_SINGLE:
        if tx_in_idx >= len(txs_out):
            return ZERO32
        txs_out = txs_out[tx_in_idx:tx_in_idx + 1]
    elif hash_type & 31 == SIGHASH_NONE:
        return ZERO32
    f = io.BytesIO()
    for tx_out in txs_out:
        stream_struct('QS', f, tx_out.coin_value, tx_out.script)
    return double_sha256(f.getvalue())


# pycoin/coins/bitcoin/SegwitChecker.py :: SegwitChecker._segwit_signature_preimage
def q__SegwitChecker___segwit_signature_preimage(self, script, tx_in_idx, hash_type):
    f = io.BytesIO()
    stream_struct('L', f, self.tx.version)
    f.write(self._hash_prevouts(hash_type))
    f.write(self._hash_sequence(hash_type))
    tx_in = self.tx.txs_in[tx_in_idx]
    f.write(tx_in.previous_hash)
    stream_struct('L', f, tx_in.previous_index)
    tx_out = self.tx.unspents[tx_in_idx]
    stream_satoshi_string(f, script)
    stream_struct('Q', f, tx_out.coin_value)
    stream_struct('L', f, tx_in.sequence)
    f.write(self._hash_outputs(hash_type, tx_in_idx))
    stream_struct('L', f, self.tx.lock_time)
    stream_struct('L', f, hash_type)
    return f.getvalue()


# pycoin/coins/bitcoin/SegwitChecker.py :: SegwitChecker._signature_for_hash_type_segwit
def q__SegwitChecker___signature_for_hash_type_segwit(self, script, tx_in_idx, hash_type):
    return from_bytes_32(double_sha256(self._segwit_signature_preimage(script, tx_in_idx, hash_type)))


# pycoin/coins/bitcoin/SegwitChecker.py :: SegwitChecker.witness_program_tuple
# pycoin/coins/bitcoin/SegwitChecker.py :: SegwitChecker.witness_program_tuple
# pycoin/coins/bitcoin/SegwitChecker.py :: SegwitChecker.witness_program_tuple
def q__SegwitChecker__witness_program_tuple(self, tx_context, puzzle_script, solution_stack, flags, is_p2sh):
    if not flags & VERIFY_WITNESS:
        return None
    witness_version = self._witness_program_version(puzzle_script)
    if witness_version is None:
        if len(tx_context.witness_solution_stack) > 0:
            raise ScriptError()
    else:
        witness_program = puzzle_script[2:]
        if not is_p2sh and len(tx_context.solution_script) > 0:
            raise ScriptError()
        if len(solution_stack) > 0:
            err = errno.WITNESS_MALLEATED_P2SH if is_p2sh else errno.WITNESS_MALLEATED
            raise ScriptError()
        if is_p2sh and tx_context.solution_script != self.ScriptTools.compile_push_data_list([puzzle_script]):
            raise ScriptError()
        if witness_version == 0:
            stack, puzzle_script = self._check_witness_program_v0(tx_context.witness_solution_stack, witness_program)
            for s in stack:
                if len(s) > self.VM.MAX_BLOB_LENGTH:
                    raise ScriptError()
            sighash_f = self._make_witness_sighash_f(tx_context.tx_in_idx)
            return (puzzle_script, stack, flags | VERIFY_CLEANSTACK, sighash_f)
        elif flags & VERIFY_DISCOURAGE_UPGRADABLE_WITNESS_PROGRAM:
            raise ScriptError()
    return None


# pycoin/coins/bitcoin/P2SChecker.py :: P2SChecker.is_pay_to_script_hash
def q__P2SChecker__is_pay_to_script_hash(class_, script_public_key):
    return len(script_public_key) == 23 and script_public_key[0] == OP_HASH160 and (script_public_key[1] == 20) and (script_public_key[-1] == OP_EQUAL)


# pycoin/coins/bitcoin/P2SChecker.py :: P2SChecker.script_hash_from_script
def q__P2SChecker__script_hash_from_script(class_, puzzle_script):
    if class_.is_pay_to_script_hash(puzzle_script):
        return puzzle_script[2:-1]
    return False


# pycoin/coins/bitcoin/P2SChecker.py :: P2SChecker.p2s_program_tuple
def q__P2SChecker__p2s_program_tuple(self, tx_context, puzzle_script, solution_stack, flags, sighash_f):
    if flags & VERIFY_P2SH and self.is_pay_to_script_hash(puzzle_script):
        self._check_script_push_only(tx_context.solution_script)
        puzzle_script, solution_stack = (solution_stack[-1], solution_stack[:-1])
        return (puzzle_script, solution_stack, flags & ~VERIFY_P2SH, sighash_f)
    return None


# pycoin/coins/bitcoin/SolutionChecker.py :: BitcoinSolutionChecker.__init__
def q__BitcoinSolutionChecker____init__(self, tx):
    self.tx = tx


# pycoin/coins/bitcoin/SolutionChecker.py :: BitcoinSolutionChecker._delete_signature
def q__BitcoinSolutionChecker___delete_signature(self, script, sig_blob):
    subscript = self.ScriptTools.compile_push_data_list([sig_blob])
    new_script = bytearray()
    pc = 0
    for opcode, data, pc, new_pc in self.ScriptTools.get_opcodes(script):
        section = script[pc:new_pc]
        if section != subscript:
            new_script.extend(section)
    return bytes(new_script)


# pycoin/coins/bitcoin/SolutionChecker.py :: BitcoinSolutionChecker._make_sighash_f
def q__BitcoinSolutionChecker___make_sighash_f(self, tx_in_idx):

    def sig_for_hash_type_f(hash_type, sig_blobs, vm):
        script = vm.script[vm.begin_code_hash:]
        for sig_blob in sig_blobs:
            script = self._delete_signature(script, sig_blob)
        return self._signature_hash(script, tx_in_idx, hash_type)
    return sig_for_hash_type_f


# pycoin/coins/bitcoin/SolutionChecker.py :: BitcoinSolutionChecker._make_sighash_f.sig_for_hash_type_f
def q__BitcoinSolutionChecker___make_sighash_f__sig_for_hash_type_f(hash_type, sig_blobs, vm):
    script = vm.script[vm.begin_code_hash:]
    for sig_blob in sig_blobs:
        script = self._delete_signature(script, sig_blob)
    return self._signature_hash(script, tx_in_idx, hash_type)


# pycoin/coins/bitcoin/SolutionChecker.py :: BitcoinSolutionChecker._solution_script_to_stack
def q__BitcoinSolutionChecker___solution_script_to_stack(self, tx_context, flags, traceback_f):
    if flags & VERIFY_SIGPUSHONLY:
        self._check_script_push_only(tx_context.solution_script)
    f1 = flags & ~(VERIFY_MINIMALIF | VERIFY_WITNESS_PUBKEYTYPE)
    vm = self.VM(tx_context.solution_script, tx_context, self._make_sighash_f(tx_context.tx_in_idx), f1)
    vm.is_solution_script = True
    vm.traceback_f = traceback_f
    solution_stack = vm.eval_script()
    return solution_stack


# pycoin/coins/bitcoin/SolutionChecker.py :: BitcoinSolutionChecker._check_script_push_only
def q__BitcoinSolutionChecker___check_script_push_only(self, script):
    scriptStreamer = self.VM.ScriptStreamer
    pc = 0
    while pc < len(script):
        opcode, data, pc, is_ok = scriptStreamer.get_opcode(script, pc)
        if opcode not in scriptStreamer.data_opcodes:
            raise self.ScriptError()


# pycoin/coins/bitcoin/SolutionChecker.py :: BitcoinSolutionChecker._tx_in_for_idx
def q__BitcoinSolutionChecker___tx_in_for_idx(self, idx, tx_in, tx_out_script, unsigned_txs_out_idx):
    if idx == unsigned_txs_out_idx:
        return self.tx.TxIn(tx_in.previous_hash, tx_in.previous_index, tx_out_script, tx_in.sequence)
    return self.tx.TxIn(tx_in.previous_hash, tx_in.previous_index, b'', tx_in.sequence)


# pycoin/coins/bitcoin/SolutionChecker.py :: BitcoinSolutionChecker.delete_subscript
def q__BitcoinSolutionChecker__delete_subscript(class_, script, subscript):
    new_script = bytearray()
    pc = 0
    for opcode, data, pc, new_pc in class_.ScriptTools.get_opcodes(script):
        section = script[pc:new_pc]
        if section != subscript:
            new_script.extend(section)
    return bytes(new_script)


# pycoin/coins/bitcoin/SolutionChecker.py :: BitcoinSolutionChecker._signature_hash
def q__BitcoinSolutionChecker___signature_hash(self, tx_out_script, unsigned_txs_out_idx, hash_type):
    tx_out_script = self.delete_subscript(tx_out_script, self.ScriptTools.compile('OP_CODESEPARATOR'))
    txs_in = [self._tx_in_for_idx(i, tx_in, tx_out_script, unsigned_txs_out_idx) for i, tx_in in enumerate(self.tx.txs_in)]
    txs_out = self.tx.txs_out
    if hash_type & 31 == SIGHASH_NONE:
        txs_out = []
        for i in range(len(txs_in)):
            if i != unsigned_txs_out_idx:
                txs_in[i].sequence = 0
    elif hash_type & 31 == SIGHASH_SINGLE:
        if unsigned_txs_out_idx >= len(txs_out):
            return 1 << 248
        txs_out = [self.tx.TxOut(18446744073709551615, b'')] * unsigned_txs_out_idx
        txs_out.append(self.tx.txs_out[unsigned_txs_out_idx])
        for i in range(len(txs_in)):
            if i != unsigned_txs_out_idx:
                txs_in[i].sequence = 0
    if hash_type & SIGHASH_ANYONECANPAY:
        txs_in = [txs_in[unsigned_txs_out_idx]]
    tmp_tx = self.tx.__class__(self.tx.version, txs_in, txs_out, self.tx.lock_time)
    return from_bytes_32(tmp_tx.hash(hash_type=hash_type))


# pycoin/coins/bitcoin/SolutionChecker.py :: BitcoinSolutionChecker.tx_context_for_idx
def q__BitcoinSolutionChecker__tx_context_for_idx(self, tx_in_idx):
    tx_in = self.tx.txs_in[tx_in_idx]
    tx_context = TxContext()
    tx_context.lock_time = self.tx.lock_time
    tx_context.version = self.tx.version
    tx_context.puzzle_script = b'' if self.tx.missing_unspent(tx_in_idx) else self.tx.unspents[tx_in_idx].script
    tx_context.solution_script = tx_in.script
    tx_context.witness_solution_stack = tx_in.witness
    tx_context.sequence = tx_in.sequence
    tx_context.tx_in_idx = tx_in_idx
    return tx_context


# pycoin/coins/bitcoin/SolutionChecker.py :: BitcoinSolutionChecker.check_solution
def q__BitcoinSolutionChecker__check_solution(self, tx_context, flags=None, traceback_f=None):
    stack = []
    for t in self.puzzle_and_solution_iterator(tx_context, flags=flags, traceback_f=traceback_f):
        puzzle_script, solution_stack, flags, sighash_f = t
        vm = self.VM(puzzle_script, tx_context, sighash_f, flags=flags, initial_stack=solution_stack[:])
        vm.is_solution_script = False
        vm.traceback_f = traceback_f
        stack = vm.eval_script()
        if len(stack) == 0 or not vm.bool_from_script_bytes(stack[-1]):
            raise self.ScriptError()
    if flags and flags & VERIFY_CLEANSTACK and (len(stack) != 1):
        raise self.ScriptError()


# pycoin/coins/bitcoin/SolutionChecker.py :: BitcoinSolutionChecker.puzzle_and_solution_iterator
def q__BitcoinSolutionChecker__puzzle_and_solution_iterator(self, tx_context, flags=None, traceback_f=None):
    if flags is None:
        flags = self.DEFAULT_FLAGS
    solution_stack = self._solution_script_to_stack(tx_context, flags=flags, traceback_f=traceback_f)
    puzzle_script = tx_context.puzzle_script
    flags_1 = flags & ~(VERIFY_MINIMALIF | VERIFY_WITNESS_PUBKEYTYPE)
    sighash_f = self._make_sighash_f(tx_context.tx_in_idx)
    yield (puzzle_script, solution_stack, flags_1, sighash_f)
    p2sh_tuple = self.p2s_program_tuple(tx_context, puzzle_script, solution_stack, flags_1, sighash_f)
    if p2sh_tuple:
        yield p2sh_tuple
        puzzle_script, solution_stack = p2sh_tuple[:2]
    is_p2sh = p2sh_tuple is not None
    witness_tuple = self.witness_program_tuple(tx_context, puzzle_script, solution_stack, flags, is_p2sh)
    if witness_tuple:
        yield witness_tuple


# pycoin/coins/bitcoin/make_instruction_lookup.py :: _make_bad_instruction
def q___make_bad_instruction(v):

    def f(vm_state):
        raise ScriptError()
    return f


# pycoin/coins/bitcoin/make_instruction_lookup.py :: _make_bad_instruction.f
def q___make_bad_instruction__f(vm_state):
    raise ScriptError()


# pycoin/coins/bitcoin/make_instruction_lookup.py :: _collect_opcodes
def q___collect_opcodes(module):
    d = {}
    for k in dir(module):
        if k.startswith('do_OP'):
            d[k[3:]] = getattr(module, k)
    return d


# pycoin/coins/bitcoin/make_instruction_lookup.py :: _no_op
def q___no_op(vm):
    pass


# pycoin/coins/bitcoin/make_instruction_lookup.py :: make_instruction_lookup
def q__make_instruction_lookup(opcode_pairs):
    OPCODE_DATA_LIST = list(BitcoinScriptStreamer.data_opcodes)
    instruction_lookup = [_make_bad_instruction(i) for i in range(256)]
    for i in OPCODE_DATA_LIST:
        if i is not None:
            instruction_lookup[i] = _no_op
    opcode_lookups = {}
    opcode_lookups.update(_collect_opcodes(checksigops))
    opcode_lookups.update(_collect_opcodes(intops))
    opcode_lookups.update(_collect_opcodes(stackops))
    opcode_lookups.update(_collect_opcodes(miscops))
    opcode_lookups.update(miscops.extra_opcodes())
    for opcode_name, opcode_value in opcode_pairs:
        if opcode_name in opcode_lookups:
            instruction_lookup[opcode_value] = opcode_lookups[opcode_name]
    return instruction_lookup




# pycoin/satoshi/checksigops.py :: check_public_key_flags
def q__check_public_key_flags(pair_blob, verify_witness_pubkeytype, verify_strict):
    if verify_strict:
        check_public_key_encoding(pair_blob)
    if verify_witness_pubkeytype:
        if pair_blob[:1] not in (b'\x02', b'\x03') or len(pair_blob) != 33:
            raise ScriptError()
