"""Transcription of every function of pycoin/ecdsa/native/secp256k1.py as of the reviewed tree (see DESIGN.md section 12).
NEVER IMPORTED OR EXECUTED: parsed and compared in canonical form (sa/sym.py) with the functions in /repo."""


_CONSTS = {
    'SECP256K1_CONTEXT_SIGN': 513,
    'SECP256K1_CONTEXT_VERIFY': 257,
    'SECP256K1_EC_UNCOMPRESSED': 2,
}


# pycoin/ecdsa/native/secp256k1.py :: load_library
def q__load_library():
    try:
        PYCOIN_LIBSECP256K1_PATH = os.getenv('PYCOIN_LIBSECP256K1_PATH')
        library_path = PYCOIN_LIBSECP256K1_PATH or ctypes.util.find_library('libsecp256k1')
        secp256k1 = ctypes.cdll.LoadLibrary(library_path)
        secp256k1.secp256k1_context_create.argtypes = [c_uint]
        secp256k1.secp256k1_context_create.restype = c_void_p
        secp256k1.secp256k1_context_randomize.argtypes = [c_void_p, c_char_p]
        secp256k1.secp256k1_context_randomize.restype = c_int
        secp256k1.secp256k1_ec_pubkey_create.argtypes = [c_void_p, c_void_p, c_char_p]
        secp256k1.secp256k1_ec_pubkey_create.restype = c_int
        secp256k1.secp256k1_ecdsa_sign.argtypes = [c_void_p, c_char_p, c_char_p, c_char_p, c_void_p, c_void_p]
        secp256k1.secp256k1_ecdsa_sign.restype = c_int
        secp256k1.secp256k1_ecdsa_verify.argtypes = [c_void_p, c_char_p, c_char_p, c_char_p]
        secp256k1.secp256k1_ecdsa_verify.restype = c_int
        secp256k1.secp256k1_ec_pubkey_parse.argtypes = [c_void_p, c_char_p, c_char_p, c_int]
        secp256k1.secp256k1_ec_pubkey_parse.restype = c_int
        secp256k1.secp256k1_ec_pubkey_serialize.argtypes = [c_void_p, c_char_p, c_void_p, c_char_p, c_uint]
        secp256k1.secp256k1_ec_pubkey_serialize.restype = c_int
        secp256k1.secp256k1_ecdsa_signature_parse_compact.argtypes = [c_void_p, c_char_p, c_char_p]
        secp256k1.secp256k1_ecdsa_signature_parse_compact.restype = c_int
        secp256k1.secp256k1_ecdsa_signature_serialize_compact.argtypes = [c_void_p, c_char_p, c_char_p]
        secp256k1.secp256k1_ecdsa_signature_serialize_compact.restype = c_int
        secp256k1.secp256k1_ec_pubkey_tweak_mul.argtypes = [c_void_p, c_char_p, c_char_p]
        secp256k1.secp256k1_ec_pubkey_tweak_mul.restype = c_int
        secp256k1.ctx = secp256k1.secp256k1_context_create(SECP256K1_CONTEXT_SIGN | SECP256K1_CONTEXT_VERIFY)
        r = secp256k1.secp256k1_context_randomize(secp256k1.ctx, os.urandom(32))
        if r:
            return secp256k1
    except (OSError, AttributeError, TypeError):
        if PYCOIN_LIBSECP256K1_PATH:
            warnings.warn('PYCOIN_LIBSECP256K1_PATH set but libsecp256k1 optimizations not loaded')
        return None


# pycoin/ecdsa/native/secp256k1.py :: Optimizations.__mul__
def q__Optimizations____mul__(self, e):
    e %= self.order()
    if e == 0:
        return self._infinity
    pubkey = create_string_buffer(65)
    libsecp256k1.secp256k1_ec_pubkey_create(libsecp256k1.ctx, pubkey, c_char_p(to_bytes_32(e)))
    pubkey_size = c_size_t(65)
    pubkey_serialized = create_string_buffer(65)
    libsecp256k1.secp256k1_ec_pubkey_serialize(libsecp256k1.ctx, pubkey_serialized, byref(pubkey_size), pubkey, SECP256K1_EC_UNCOMPRESSED)
    x = from_bytes_32(pubkey_serialized[1:33])
    y = from_bytes_32(pubkey_serialized[33:])
    return self.Point(x, y)


# pycoin/ecdsa/native/secp256k1.py :: Optimizations.sign
def q__Optimizations__sign(self, secret_exponent, val, gen_k=None):
    nonce_function = None
    if gen_k is not None:
        k_as_bytes = to_bytes_32(gen_k(self.order(), secret_exponent, val))

        def adaptor(nonce32_p, msg32_p, key32_p, algo16_p, data, attempt):
            nonce32_p.contents[:] = list(k_as_bytes)
            return 1
        p_b32 = POINTER(c_byte * 32)
        nonce_function = CFUNCTYPE(c_int, p_b32, p_b32, p_b32, POINTER(c_byte * 16), c_void_p, c_uint)(adaptor)
    sig = create_string_buffer(64)
    sig_hash_bytes = to_bytes_32(val)
    libsecp256k1.secp256k1_ecdsa_sign(libsecp256k1.ctx, sig, sig_hash_bytes, to_bytes_32(secret_exponent), nonce_function, None)
    compact_signature = create_string_buffer(64)
    libsecp256k1.secp256k1_ecdsa_signature_serialize_compact(libsecp256k1.ctx, compact_signature, sig)
    r = from_bytes_32(compact_signature[:32])
    s = from_bytes_32(compact_signature[32:])
    return (r, s)


# pycoin/ecdsa/native/secp256k1.py :: Optimizations.sign.adaptor
def q__Optimizations__sign__adaptor(nonce32_p, msg32_p, key32_p, algo16_p, data, attempt):
    nonce32_p.contents[:] = list(k_as_bytes)
    return 1


# pycoin/ecdsa/native/secp256k1.py :: Optimizations.verify
def q__Optimizations__verify(self, public_pair, val, signature_pair):
    sig = create_string_buffer(64)
    input64 = to_bytes_32(signature_pair[0]) + to_bytes_32(signature_pair[1])
    r = libsecp256k1.secp256k1_ecdsa_signature_parse_compact(libsecp256k1.ctx, sig, input64)
    if not r:
        return False
    r = libsecp256k1.secp256k1_ecdsa_signature_normalize(libsecp256k1.ctx, sig, sig)
    public_pair_bytes = b'\x04' + to_bytes_32(public_pair[0]) + to_bytes_32(public_pair[1])
    pubkey = create_string_buffer(64)
    r = libsecp256k1.secp256k1_ec_pubkey_parse(libsecp256k1.ctx, pubkey, public_pair_bytes, len(public_pair_bytes))
    if not r:
        return False
    return bool(1 == libsecp256k1.secp256k1_ecdsa_verify(libsecp256k1.ctx, sig, to_bytes_32(val), pubkey))


# pycoin/ecdsa/native/secp256k1.py :: Optimizations.multiply
def q__Optimizations__multiply(self, p, e):
    e %= self.order()
    if p == self._infinity or e == 0:
        return self._infinity
    pubkey = create_string_buffer(64)
    public_pair_bytes = b'\x04' + to_bytes_32(p[0]) + to_bytes_32(p[1])
    r = libsecp256k1.secp256k1_ec_pubkey_parse(libsecp256k1.ctx, pubkey, public_pair_bytes, len(public_pair_bytes))
    if not r:
        return False
    r = libsecp256k1.secp256k1_ec_pubkey_tweak_mul(libsecp256k1.ctx, pubkey, to_bytes_32(e))
    if not r:
        return self._infinity
    pubkey_serialized = create_string_buffer(65)
    pubkey_size = c_size_t(65)
    libsecp256k1.secp256k1_ec_pubkey_serialize(libsecp256k1.ctx, pubkey_serialized, byref(pubkey_size), pubkey, SECP256K1_EC_UNCOMPRESSED)
    x = from_bytes_32(pubkey_serialized[1:33])
    y = from_bytes_32(pubkey_serialized[33:])
    return self.Point(x, y)


# pycoin/ecdsa/native/secp256k1.py :: create_LibSECP256K1Optimizations
def q__create_LibSECP256K1Optimizations():

    class noop:
        pass
    native = os.getenv('PYCOIN_NATIVE')
    if native and native.lower() != 'secp256k1':
        return noop
    if not libsecp256k1:
        return noop
    return Optimizations
