"""Thorough tier: checker self-test.  For one property, apply every confirmed breaking change (seeded/<pid>-*), every
revert of a 'fix:' commit recorded for the property, and every behaviour-preserving refactoring twin to a scratch
copy of /repo's CURRENT working tree, run the property's quick check on the copy (VERIF_REPO), and record the
kill matrix in the evidence.  It never prints VIOLATION lines and never changes the exit code of the check."""
from __future__ import annotations

import glob
import json
import os
import shutil
import subprocess
import sys
import tempfile
from concurrent.futures import ThreadPoolExecutor

HERE = os.path.dirname(os.path.dirname(os.path.abspath(__file__)))
REPO = os.environ.get("VERIF_REPO", "/repo")


def _variants(pid):
    out = []
    for d in sorted(glob.glob(os.path.join(HERE, "seeded", pid + "-*"))):
        p = os.path.join(d, "patch.diff")
        if not os.path.exists(p):
            continue
        try:
            meta = json.load(open(os.path.join(d, "meta.json")))
        except Exception:
            meta = {}
        kind = meta.get("kind", "breaking")
        out.append((os.path.basename(d), kind, ("apply", p), meta.get("summary", "")[:140]))
    kf = os.path.join(HERE, "known_findings.json")
    if os.path.exists(kf):
        for f in json.load(open(kf))["findings"]:
            if f.get("property") == pid and f.get("status") == "fixed" and f.get("commit"):
                out.append(("revert-" + f["commit"], "fix-revert", ("revert", f["commit"]), f.get("what", "")[:140]))
    return out


def _run_one(pid, name, kind, how, base_snapshot):
    td = tempfile.mkdtemp(prefix="verif-selftest-")
    try:
        shutil.copytree(base_snapshot, os.path.join(td, "pycoin"))
        if how[0] == "apply":
            r = subprocess.run(["patch", "-p1", "-s", "--no-backup-if-mismatch", "-i", how[1]], cwd=td, capture_output=True, text=True)
        else:
            diff = subprocess.run(["git", "-C", "/repo", "show", "--format=", how[1], "--", "pycoin"], capture_output=True, text=True)
            if diff.returncode != 0 or not diff.stdout.strip():
                return {"variant": name, "kind": kind, "result": "unavailable (commit not in /repo history)"}
            r = subprocess.run(["patch", "-p1", "-R", "-s", "--no-backup-if-mismatch"], cwd=td, input=diff.stdout, capture_output=True, text=True)
        if r.returncode != 0:
            return {"variant": name, "kind": kind, "result": "patch does not apply to the current tree"}
        env = dict(os.environ, VERIF_REPO=td, VERIF_TIER="quick", VERIF_NO_EVIDENCE="1")
        c = subprocess.run([os.path.join(HERE, "check"), pid, "--tier", "quick", "--no-evidence"], cwd=HERE, env=env, capture_output=True, text=True)
        rules = sorted({l.split()[1] for l in c.stdout.splitlines() if l.startswith("VIOLATED ")})
        return {"variant": name, "kind": kind, "exit": c.returncode, "rules_fired": rules,
                "result": ("killed" if c.returncode == 1 else "analysis-error" if c.returncode == 2 else "survived") if kind != "refactoring" else
                          ("silent" if c.returncode == 0 else "FALSE ALARM" if c.returncode == 1 else "analysis-error")}
    finally:
        shutil.rmtree(td, ignore_errors=True)


def thorough_hook(pid, evidence):
    vs = _variants(pid)
    snap_root = tempfile.mkdtemp(prefix="verif-snap-")
    try:
        base = os.path.join(snap_root, "pycoin")
        shutil.copytree(os.path.join(REPO, "pycoin"), base, ignore=shutil.ignore_patterns("__pycache__"))
        with ThreadPoolExecutor(max_workers=16) as ex:
            res = list(ex.map(lambda v: _run_one(pid, v[0], v[1], v[2], base), vs))
    finally:
        shutil.rmtree(snap_root, ignore_errors=True)
    for r, v in zip(res, vs):
        r["what"] = v[3]
    cov = evidence["coverage"]
    cov["selftest"] = {
        "variants": len(res),
        "breaking_killed": sum(1 for r in res if r["kind"] in ("breaking", "fix-revert") and r.get("result") == "killed"),
        "breaking_total": sum(1 for r in res if r["kind"] in ("breaking", "fix-revert") and "exit" in r),
        "twins_silent": sum(1 for r in res if r["kind"] == "refactoring" and r.get("result") == "silent"),
        "twins_total": sum(1 for r in res if r["kind"] == "refactoring" and "exit" in r),
        "matrix": res,
        "note": "variants are applied to scratch copies of the current working tree and removed afterwards; this block is informational and cannot raise a violation",
    }
    try:
        u = subprocess.run([sys.executable, os.path.join(HERE, "selftest", "symtest.py")], capture_output=True, text=True, timeout=120)
        cov["selftest"]["engine_unit_tests"] = (u.stdout.strip().splitlines() or ["no output"])[-1]
    except Exception as e:
        cov["selftest"]["engine_unit_tests"] = "not run: %s" % e
    try:
        # rules subordinated to the reference comparison (sa/refguard.py) must hold on their own on the reviewed tree: run unguarded
        g = subprocess.run([os.path.join(HERE, "check"), pid, "--no-evidence"], capture_output=True, text=True, timeout=600, env=dict(os.environ, VERIF_NO_GUARD="1"))
        bad = [l for l in g.stdout.splitlines() if l.startswith("VIOLATED")]
        cov["selftest"]["unguarded_rules"] = "hold" if g.returncode == 0 and not bad else "FAIL: " + "; ".join(bad[:3])[:400]
        if bad:
            print("  selftest note: a guarded rule does not hold on its own on the reviewed tree: %s" % bad[0][:200])
    except Exception as e:
        cov["selftest"]["unguarded_rules"] = "not run: %s" % e
    cov["evaluations"] = cov.get("evaluations", 0) + len(res)
    print("selftest %s: %d/%d breaking variants killed, %d/%d refactoring twins silent" % (
        pid, cov["selftest"]["breaking_killed"], cov["selftest"]["breaking_total"], cov["selftest"]["twins_silent"], cov["selftest"]["twins_total"]))
    for r in res:
        if r.get("result") in ("survived", "FALSE ALARM", "analysis-error"):
            print("  selftest note: %s %s -> %s" % (r["variant"], r["kind"], r["result"]))
