"""EF - effects and freshness: which heap writes does a function perform, and is the receiver an
object created inside the computation (FRESH) or something owned by the caller / self?"""
from __future__ import annotations

import ast

from .pm import norm, body_nodes, AnalysisError
from . import df
from .cfg import stmt_paths, struct_dominates


def _ln(n):
    """source line of a defining construct (a comprehension clause has none of its own: its target's)"""
    ln = getattr(n, "lineno", None)
    if ln is None:
        ln = getattr(getattr(n, "target", None), "lineno", None)
    return ln if ln is not None else 0

PROGRAM = None

MUTATORS = {"append", "extend", "insert", "pop", "remove", "sort", "reverse", "clear", "update", "setdefault", "popitem", "add", "discard"}
FRESH_CALLS = {"list", "dict", "set", "bytearray", "bytes", "tuple", "sorted", "frozenset", "reversed", "enumerate", "zip", "range", "str", "int",
               "io.BytesIO", "BytesIO", "collections.defaultdict", "defaultdict", "copy.copy", "copy.deepcopy", "object"}


class Write:
    def __init__(self, node, text, fresh, why, kind):
        self.node = node
        self.text = text
        self.fresh = fresh
        self.why = why
        self.kind = kind

    def __repr__(self):
        return "<Write %s fresh=%s (%s)>" % (self.text, self.fresh, self.why)


def _stmt_of(func_node, node):
    best = None
    for st in body_nodes(func_node):
        if isinstance(st, ast.stmt) and any(x is node for x in ast.walk(st)):
            if best is None or any(x is st for x in ast.walk(best)):
                best = st
    return best


class Fresh:
    def __init__(self, fi, program=None):
        self.fi = fi
        self.p = program or PROGRAM
        self.node = fi.node
        self.assigns = df.assignments(fi.node)
        self.params = set(fi.params())
        self.paths = stmt_paths(fi.node)
        self._memo = {}
        self._order = None

    def _pos(self, n):
        """position of a construct in the order the function's text is executed (depth-first, source order of the syntax tree):
        line numbers do not order code spliced in from a helper (sa/expand.py keeps the helper's own lines)"""
        if self._order is None:
            self._order = {}
            k = [0]

            def rec(x):
                self._order[id(x)] = k[0]
                k[0] += 1
                for c in ast.iter_child_nodes(x):
                    rec(c)
            rec(self.node)
        return self._order.get(id(n), _ln(n) * 1000)

    # returns (container_fresh, elements_fresh, why)
    def prov(self, e, at, depth=0, seen=frozenset()):
        if depth > 8:
            return (False, False, "depth")
        if isinstance(e, (ast.List, ast.Tuple, ast.Set)):
            el = all(self.prov(x, at, depth + 1, seen)[0] for x in e.elts) if e.elts else True
            return (True, el, "display")
        if isinstance(e, (ast.ListComp, ast.SetComp, ast.GeneratorExp)):
            el = self._comp_elt_fresh(e, at, depth, seen)
            return (True, el, "comprehension")
        if isinstance(e, (ast.Dict, ast.DictComp)):
            return (True, False, "dict display")
        if isinstance(e, ast.Constant):
            return (True, True, "constant")
        if isinstance(e, ast.BinOp):
            a = self.prov(e.left, at, depth + 1, seen)
            b = self.prov(e.right, at, depth + 1, seen)
            return (True, a[1] and b[1], "operator result")
        if isinstance(e, ast.Call):
            return self._call(e, at, depth, seen)
        if isinstance(e, ast.Subscript):
            base = self.prov(e.value, at, depth + 1, seen)
            if isinstance(e.slice, ast.Slice):
                return (True, base[1], "slice")
            return (base[1], False, "element of %s" % norm(e.value))
        if isinstance(e, ast.Name):
            return self._name(e.id, at, depth, seen)
        if isinstance(e, ast.IfExp):
            a = self.prov(e.body, at, depth + 1, seen)
            b = self.prov(e.orelse, at, depth + 1, seen)
            return (a[0] and b[0], a[1] and b[1], "conditional")
        if isinstance(e, ast.Attribute):
            return (False, False, "attribute %s" % norm(e))
        if isinstance(e, ast.JoinedStr):
            return (True, True, "string")
        return (False, False, type(e).__name__)

    def _comp_elt_fresh(self, e, at, depth, seen):
        # loop variables of the comprehension are elements of their iterables
        gens = {}
        for g in e.generators:
            it = self.prov(g.iter, at, depth + 1, seen)
            for n in ast.walk(g.target):
                if isinstance(n, ast.Name):
                    gens[n.id] = it[1]
        elt = e.elt

        def rec(x):
            if isinstance(x, ast.Name) and x.id in gens:
                return gens[x.id]
            return self.prov(x, at, depth + 1, seen)[0]
        return rec(elt)

    def _call(self, c, at, depth, seen):
        fn = df.dotted(c.func) or ""
        last = fn.split(".")[-1] if fn else ""
        if fn in FRESH_CALLS or last in ("BytesIO",):
            return (True, False if fn in ("list", "tuple", "sorted", "reversed", "set") else True, "builtin constructor %s" % fn)
        if last and last[0].isupper():
            return (True, True, "constructor %s" % fn)
        if last in ("__class__",) or fn.endswith(".__class__"):
            return (True, True, "constructor")
        if isinstance(c.func, ast.Attribute) and isinstance(c.func.value, ast.Attribute) and c.func.value.attr == "__class__":
            return (True, True, "constructor via __class__")
        if fn.endswith(".getvalue") or fn.endswith(".digest") or fn.endswith(".copy") or last in ("h2b", "b2h", "double_sha256", "sha256", "hash160", "from_bytes_32", "to_bytes_32"):
            return (True, True, "value")
        # repo function that returns fresh objects on every path
        tgt = self._resolve(c)
        if tgt is not None and self._returns_fresh(tgt):
            return (True, True, "call of %s (returns fresh objects)" % tgt.qualname.split(".")[-1])
        return (False, False, "result of %s" % (fn or norm(c.func)))

    def _resolve(self, c):
        if self.p is None:
            return None
        f = c.func
        if isinstance(f, ast.Attribute) and isinstance(f.value, ast.Name) and f.value.id in ("self", "cls", "class_") and self.fi.cls is not None:
            return self.p.lookup_method(self.fi.cls, f.attr)
        if isinstance(f, ast.Name):
            r = self.p.resolve_global(self.fi.module, f.id)
            from .pm import FuncInfo
            return r if isinstance(r, FuncInfo) else None
        return None

    def _returns_fresh(self, fi):
        key = fi.qualname
        if key in self._memo:
            return self._memo[key]
        self._memo[key] = False
        rets = df.returns_of(fi.node)
        ok = bool(rets)
        sub = Fresh(fi, self.p)
        for r in rets:
            if r.value is None:
                ok = False
                break
            pv = sub.prov(r.value, r, 0)
            if not pv[0]:
                ok = False
                break
        self._memo[key] = ok
        return ok

    def _name(self, name, at, depth, seen):
        if name in seen:
            return (True, True, "cycle")
        defs = self.assigns.get(name, [])
        if not defs:
            a = getattr(self.node, "args", None)
            if a is not None and ((a.kwarg is not None and a.kwarg.arg == name) or (a.vararg is not None and a.vararg.arg == name)):
                return (True, False, "the call's own %s" % ("**" + name if a.kwarg is not None and a.kwarg.arg == name else "*" + name))
            if name in self.params:
                return (False, False, "parameter %s" % name)
            return (False, False, "free variable %s" % name)
        at_stmt = at if isinstance(at, ast.stmt) else _stmt_of(self.node, at)
        cands = defs
        if at_stmt is not None:
            dom = [d for d in defs if struct_dominates(self.paths, d[1], at_stmt)]
            if dom:
                latest = max(dom, key=lambda d: self._pos(d[1]))
                cands = [latest] + [d for d in defs if d not in dom and self._pos(latest[1]) < self._pos(d[1]) < self._pos(at_stmt)]
            else:
                cands = [d for d in defs if self._pos(d[1]) <= self._pos(at_stmt)] or defs
                if name in self.params:
                    return (False, False, "parameter %s (may be unassigned here)" % name)
        inner = self._enclosing_loop_def(name, defs, at_stmt)
        if inner is not None:
            cands = [inner]
        cf, ef, why = True, True, []
        for v, st in cands:
            if isinstance(v, ast.AST):
                pv = self.prov(v, st, depth + 1, seen | {name})
            elif isinstance(v, tuple) and v[0] == "loop":
                it = self.prov(v[1], st, depth + 1, seen | {name})
                pv = (it[1], False, "element of %s" % norm(v[1]))
            elif isinstance(v, tuple) and v[0] in ("unpack", "unpack*"):
                base = v[1]
                through_loop = False
                while isinstance(base, tuple):
                    through_loop = through_loop or base[0] == "loop"
                    base = base[1]
                # for i, x in enumerate(X): x is an element of X
                while isinstance(base, ast.Call) and isinstance(base.func, ast.Name) and base.func.id in ("enumerate", "reversed", "list", "tuple", "sorted") and len(base.args) >= 1:
                    base = base.args[0]
                it = self.prov(base, st, depth + 1, seen | {name})
                pv = (it[1], False, "%s of %s" % ("element" if through_loop else "component", norm(base)))
            elif isinstance(v, tuple) and v[0] == "aug":
                pv = (True, True, "augmented")
                continue
            else:
                pv = (False, False, str(v[0]))
            cf, ef = cf and pv[0], ef and pv[1]
            why.append("%s := %s" % (name, pv[2]))
        if cf and not ef and at_stmt is not None:
            # every slot overwritten: `for i in range(len(L)): L[i] = <fresh>` between the definition and the use replaces all the
            # elements the container started with (it is the comprehension `[<fresh> for i in range(len(L))]` written in place)
            for lp in body_nodes(self.node):
                if not (isinstance(lp, ast.For) and isinstance(lp.target, ast.Name) and not lp.orelse and isinstance(lp.iter, ast.Call) and norm(lp.iter.func) == "range"
                        and len(lp.iter.args) == 1 and norm(lp.iter.args[0]) == "len(%s)" % name):
                    continue
                if not all(self._pos(st) < self._pos(lp) for _v, st in cands) or not self._pos(lp) < self._pos(at_stmt) or not struct_dominates(self.paths, lp, at_stmt):
                    continue
                if any(at_stmt is x for b in lp.body for x in ast.walk(b)):
                    continue
                iv_ = lp.target.id
                if any(isinstance(x, ast.Name) and x.id == iv_ and isinstance(x.ctx, ast.Store) for b in lp.body for x in ast.walk(b)) or \
                        any(isinstance(x, (ast.Break, ast.Return)) for b in lp.body for x in ast.walk(b)):
                    continue
                for st in lp.body:
                    if isinstance(st, ast.Assign) and len(st.targets) == 1 and isinstance(st.targets[0], ast.Subscript) and norm(st.targets[0].value) == name and norm(st.targets[0].slice) == iv_:
                        pv = self.prov(st.value, st, depth + 1, seen | {name})
                        if pv[0]:
                            ef = True
                            why.append("every slot of %s replaced by %s" % (name, pv[2]))
                        break
                if ef:
                    break
        if ef:
            # what is put into the container later is part of its elements
            for n in body_nodes(self.node):
                if isinstance(n, ast.Call) and isinstance(n.func, ast.Attribute) and isinstance(n.func.value, ast.Name) and n.func.value.id == name and n.args:
                    if n.func.attr in ("append", "add", "insert", "appendleft"):
                        pv = self.prov(n.args[-1], _stmt_of(self.node, n) or n, depth + 1, seen | {name})
                        if not pv[0]:
                            ef = False
                            why.append("%s.%s(%s: %s)" % (name, n.func.attr, norm(n.args[-1])[:40], pv[2]))
                    elif n.func.attr in ("extend", "update", "extendleft"):
                        pv = self.prov(n.args[0], _stmt_of(self.node, n) or n, depth + 1, seen | {name})
                        if not pv[1]:
                            ef = False
                            why.append("%s.%s(%s: %s)" % (name, n.func.attr, norm(n.args[0])[:40], pv[2]))
        return (cf, ef, "; ".join(why))

    def _enclosing_loop_def(self, name, defs, at_stmt):
        """a use inside the body of a for loop that binds the name sees that binding, unless the body rebinds the name"""
        if at_stmt is None:
            return None
        best = None
        for d in defs:
            v, st = d
            if not isinstance(st, (ast.For, ast.AsyncFor)) or not (isinstance(v, tuple) and v[0] in ("loop", "unpack", "unpack*")):
                continue
            inside = any(at_stmt is x for b in st.body for x in ast.walk(b))
            if inside and (best is None or st.lineno > best[1].lineno):
                best = d
        if best is None:
            return None
        body = {id(x) for b in best[1].body for x in ast.walk(b)}
        for v, st in defs:
            if (v, st) != best and id(st) in body:
                return None
        return best


def writes_in(fi, program=None):
    """All attribute / subscript stores and mutator calls in the function with receiver provenance."""
    fr = Fresh(fi, program)
    out = []
    for n in body_nodes(fi.node):
        targets = []
        if isinstance(n, ast.Assign):
            targets = n.targets
        elif isinstance(n, (ast.AugAssign, ast.AnnAssign)):
            targets = [n.target] if getattr(n, "value", None) is not None or isinstance(n, ast.AugAssign) else []
        elif isinstance(n, ast.Delete):
            targets = n.targets
        for t in targets:
            for tt in (t.elts if isinstance(t, (ast.Tuple, ast.List)) else [t]):
                if isinstance(tt, ast.Attribute):
                    pv = fr.prov(tt.value, n)
                    out.append(Write(n, "%s.%s = ..." % (norm(tt.value), tt.attr), pv[0], pv[2], "attr"))
                elif isinstance(tt, ast.Subscript):
                    pv = fr.prov(tt.value, n)
                    out.append(Write(n, "%s[...] = ..." % norm(tt.value), pv[0], pv[2], "item"))
        if isinstance(n, ast.Call) and isinstance(n.func, ast.Attribute) and n.func.attr in MUTATORS:
            recv = n.func.value
            if isinstance(recv, ast.Constant):
                continue
            st = _stmt_of(fi.node, n)
            pv = fr.prov(recv, st if st is not None else n)
            out.append(Write(n, "%s.%s(...)" % (norm(recv), n.func.attr), pv[0], pv[2], "mutator"))
        if isinstance(n, ast.Call) and isinstance(n.func, ast.Name) and n.func.id == "setattr" and n.args:
            pv = fr.prov(n.args[0], _stmt_of(fi.node, n) or n)
            out.append(Write(n, "setattr(%s, ...)" % norm(n.args[0]), pv[0], pv[2], "attr"))
    return out
