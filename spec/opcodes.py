"""Reference classification of the 256 script opcode values, written from Bitcoin Core's
script/script.h and script/interpreter.cpp (pre-taproot rules), not from the repository."""

NAMES = {
    0x00: "OP_0", 0x4c: "OP_PUSHDATA1", 0x4d: "OP_PUSHDATA2", 0x4e: "OP_PUSHDATA4", 0x4f: "OP_1NEGATE", 0x50: "OP_RESERVED",
    0x61: "OP_NOP", 0x62: "OP_VER", 0x63: "OP_IF", 0x64: "OP_NOTIF", 0x65: "OP_VERIF", 0x66: "OP_VERNOTIF", 0x67: "OP_ELSE",
    0x68: "OP_ENDIF", 0x69: "OP_VERIFY", 0x6a: "OP_RETURN", 0x6b: "OP_TOALTSTACK", 0x6c: "OP_FROMALTSTACK", 0x6d: "OP_2DROP",
    0x6e: "OP_2DUP", 0x6f: "OP_3DUP", 0x70: "OP_2OVER", 0x71: "OP_2ROT", 0x72: "OP_2SWAP", 0x73: "OP_IFDUP", 0x74: "OP_DEPTH",
    0x75: "OP_DROP", 0x76: "OP_DUP", 0x77: "OP_NIP", 0x78: "OP_OVER", 0x79: "OP_PICK", 0x7a: "OP_ROLL", 0x7b: "OP_ROT",
    0x7c: "OP_SWAP", 0x7d: "OP_TUCK", 0x7e: "OP_CAT", 0x7f: "OP_SUBSTR", 0x80: "OP_LEFT", 0x81: "OP_RIGHT", 0x82: "OP_SIZE",
    0x83: "OP_INVERT", 0x84: "OP_AND", 0x85: "OP_OR", 0x86: "OP_XOR", 0x87: "OP_EQUAL", 0x88: "OP_EQUALVERIFY",
    0x89: "OP_RESERVED1", 0x8a: "OP_RESERVED2", 0x8b: "OP_1ADD", 0x8c: "OP_1SUB", 0x8d: "OP_2MUL", 0x8e: "OP_2DIV",
    0x8f: "OP_NEGATE", 0x90: "OP_ABS", 0x91: "OP_NOT", 0x92: "OP_0NOTEQUAL", 0x93: "OP_ADD", 0x94: "OP_SUB", 0x95: "OP_MUL",
    0x96: "OP_DIV", 0x97: "OP_MOD", 0x98: "OP_LSHIFT", 0x99: "OP_RSHIFT", 0x9a: "OP_BOOLAND", 0x9b: "OP_BOOLOR",
    0x9c: "OP_NUMEQUAL", 0x9d: "OP_NUMEQUALVERIFY", 0x9e: "OP_NUMNOTEQUAL", 0x9f: "OP_LESSTHAN", 0xa0: "OP_GREATERTHAN",
    0xa1: "OP_LESSTHANOREQUAL", 0xa2: "OP_GREATERTHANOREQUAL", 0xa3: "OP_MIN", 0xa4: "OP_MAX", 0xa5: "OP_WITHIN",
    0xa6: "OP_RIPEMD160", 0xa7: "OP_SHA1", 0xa8: "OP_SHA256", 0xa9: "OP_HASH160", 0xaa: "OP_HASH256", 0xab: "OP_CODESEPARATOR",
    0xac: "OP_CHECKSIG", 0xad: "OP_CHECKSIGVERIFY", 0xae: "OP_CHECKMULTISIG", 0xaf: "OP_CHECKMULTISIGVERIFY",
    0xb0: "OP_NOP1", 0xb1: "OP_CHECKLOCKTIMEVERIFY", 0xb2: "OP_CHECKSEQUENCEVERIFY", 0xb3: "OP_NOP4", 0xb4: "OP_NOP5",
    0xb5: "OP_NOP6", 0xb6: "OP_NOP7", 0xb7: "OP_NOP8", 0xb8: "OP_NOP9", 0xb9: "OP_NOP10",
}
for _i in range(1, 17):
    NAMES[0x50 + _i] = "OP_%d" % _i

DISABLED = {"OP_CAT", "OP_SUBSTR", "OP_LEFT", "OP_RIGHT", "OP_INVERT", "OP_AND", "OP_OR", "OP_XOR", "OP_2MUL", "OP_2DIV",
            "OP_MUL", "OP_DIV", "OP_MOD", "OP_LSHIFT", "OP_RSHIFT"}
ALWAYS_BAD = {"OP_VERIF", "OP_VERNOTIF"}                 # fail even inside an unexecuted branch
CONDITIONAL = {"OP_IF", "OP_NOTIF", "OP_ELSE", "OP_ENDIF"}
FAIL_IF_EXECUTED = {"OP_RESERVED", "OP_VER", "OP_RESERVED1", "OP_RESERVED2"}
UPGRADABLE_NOPS = {"OP_NOP1", "OP_NOP4", "OP_NOP5", "OP_NOP6", "OP_NOP7", "OP_NOP8", "OP_NOP9", "OP_NOP10"}


def classify(value):
    """-> (class, detail)"""
    if value == 0 or 0x4f == value or 0x51 <= value <= 0x60:
        return ("push-const", NAMES[value])
    if 1 <= value <= 75:
        return ("push-sized", value)
    if value in (0x4c, 0x4d, 0x4e):
        return ("push-variable", {0x4c: 1, 0x4d: 2, 0x4e: 4}[value])
    name = NAMES.get(value)
    if name is None:
        return ("invalid", value)            # 0xba..0xff: fail when executed
    if name in DISABLED:
        return ("disabled", name)
    if name in ALWAYS_BAD:
        return ("always-bad", name)
    if name in CONDITIONAL:
        return ("conditional", name)
    if name in FAIL_IF_EXECUTED:
        return ("fail-if-executed", name)
    if name == "OP_NOP":
        return ("nop", name)
    if name in UPGRADABLE_NOPS:
        return ("upgradable-nop", name)
    return ("operation", name)


# arithmetic: opcode -> (arity, canonical expression over a (deeper operand) and b (top operand))
ARITH = {
    "OP_1ADD": (1, {"a + 1", "1 + a"}), "OP_1SUB": (1, {"a - 1"}), "OP_NEGATE": (1, {"-a"}), "OP_ABS": (1, {"abs(a)", "abs"}),
    "OP_ADD": (2, {"a + b", "b + a"}), "OP_SUB": (2, {"a - b"}),
    "OP_BOOLAND": (2, {"a and b", "b and a", "a != 0 and b != 0"}), "OP_BOOLOR": (2, {"a or b", "b or a", "a != 0 or b != 0"}),
    "OP_NUMEQUAL": (2, {"a == b", "b == a"}), "OP_NUMNOTEQUAL": (2, {"a != b", "b != a"}),
    "OP_LESSTHAN": (2, {"a < b", "b > a"}), "OP_GREATERTHAN": (2, {"a > b", "b < a"}),
    "OP_LESSTHANOREQUAL": (2, {"a <= b", "b >= a"}), "OP_GREATERTHANOREQUAL": (2, {"a >= b", "b <= a"}),
    "OP_MIN": (2, {"min", "min(a, b)", "min(b, a)"}), "OP_MAX": (2, {"max", "max(a, b)", "max(b, a)"}),
}
BOOL_RESULT = {"OP_BOOLAND", "OP_BOOLOR", "OP_NUMEQUAL", "OP_NUMNOTEQUAL", "OP_LESSTHAN", "OP_GREATERTHAN", "OP_LESSTHANOREQUAL", "OP_GREATERTHANOREQUAL"}

LIMITS = {"MAX_SCRIPT_LENGTH": 10000, "MAX_BLOB_LENGTH": 520, "MAX_OP_COUNT": 201, "MAX_STACK_SIZE": 1000}

# stack diagrams of the pure stack-manipulation opcodes (script.h comments / interpreter.cpp):
# name -> (number of inputs, outputs as indices into the input window, bottom first)
STACK_EFFECTS = {
    "OP_DROP": (1, []), "OP_DUP": (1, [0, 0]), "OP_NIP": (2, [1]), "OP_OVER": (2, [0, 1, 0]), "OP_ROT": (3, [1, 2, 0]),
    "OP_SWAP": (2, [1, 0]), "OP_TUCK": (2, [1, 0, 1]), "OP_2DROP": (2, []), "OP_2DUP": (2, [0, 1, 0, 1]),
    "OP_3DUP": (3, [0, 1, 2, 0, 1, 2]), "OP_2OVER": (4, [0, 1, 2, 3, 0, 1]), "OP_2ROT": (6, [2, 3, 4, 5, 0, 1]),
    "OP_2SWAP": (4, [2, 3, 0, 1]),
}
HASH_OPS = {"OP_RIPEMD160": "ripemd160(stack.pop()).digest()", "OP_SHA1": "hashlib.sha1(stack.pop()).digest()", "OP_SHA256": "hashlib.sha256(stack.pop()).digest()",
            "OP_HASH160": "hash160(stack.pop())", "OP_HASH256": "double_sha256(stack.pop())"}
