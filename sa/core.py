"""Driver plumbing: obligations, verdicts, known findings, evidence, replay."""
from __future__ import annotations

import ast
import json
import os
import sys
import time
import traceback

from .pm import Program, AnalysisError, Undecided, norm

VERIF = os.path.dirname(os.path.dirname(os.path.abspath(__file__)))

HOLDS, VIOLATED, KNOWN, ERROR, UNDECIDED = "HOLDS", "VIOLATED", "KNOWN", "ANALYSIS-ERROR", "UNDECIDED"


class Finding:
    def __init__(self, rule, key, where, msg):
        self.rule = rule
        self.key = key        # normalised construct: stable across line moves
        self.where = where    # file:line at the time of the run
        self.msg = msg
        self.known = None

    def to_json(self):
        return {"rule": self.rule, "key": self.key, "where": self.where, "message": self.msg}


class Ob:
    """One obligation = one rule instance family (Cnn.k)."""

    def __init__(self, oid, title, fn, floor=1, engines="", breaks_if="", exhaustive=False, tier="quick"):
        self.id = oid
        self.title = title
        self.fn = fn
        self.floor = floor
        self.engines = engines
        self.breaks_if = breaks_if
        self.exhaustive = exhaustive
        self.tier = tier
        # results
        self.instances = 0
        self.nontrivial = set()
        self.findings = []
        self.samples = []
        self.error = None
        self.analysed = []
        self.undecided = []

    def reset(self):
        self.undecided = []
        self.instances = 0
        self.nontrivial = set()
        self.findings = []
        self.samples = []
        self.error = None
        self.analysed = []


class Ctx:
    def __init__(self, program, tier):
        self.p = program
        self.tier = tier
        self._interp = None
        self.cur = None
        self.cache = {}
        from . import ef
        ef.PROGRAM = program

    @property
    def interp(self):
        if self._interp is None:
            from .interp import Interp
            self._interp = Interp(self.p)
        return self._interp

    def fresh_interp(self):
        from .interp import Interp
        return Interp(self.p)

    # -- recording
    def ok(self, what, sample=None, nontrivial=True):
        """one analysed instance that satisfies the rule"""
        self.cur.instances += 1
        if nontrivial:
            self.cur.nontrivial.add(str(what))
        if sample is not None and len(self.cur.samples) < 6:
            self.cur.samples.append(sample)

    def note(self, text):
        if len(self.cur.analysed) < 60:
            self.cur.analysed.append(text)

    def bad(self, key, where, msg, sample=None):
        """one analysed instance that violates the rule"""
        if "Unknown(" in str(msg):
            # the import-time value the rule compares was not computed by the abstract interpreter (a table built in a way it does
            # not follow): nothing was decided about it
            return self.undecided(key, where, "%s -- the value could not be computed from the source" % msg)
        self.cur.instances += 1
        self.cur.nontrivial.add("!" + str(key))
        self.cur.findings.append(Finding(self.cur.id, key, where, msg))
        if sample is not None and len(self.cur.samples) < 6:
            self.cur.samples.append(sample)

    def undecided(self, key, where, msg):
        """one instance whose code shape the rule cannot read: no verdict for it (reported, exit code unaffected)"""
        self.cur.instances += 1
        self.cur.undecided.append("%s %s: %s" % (key, where, msg))

    def check(self, cond, key, where, msg, what=None, sample=None, text=False, semantic=False):
        if cond:
            self.ok(what or key, sample)
        else:
            self.bad(key, where, msg, sample)
        return cond

    # -- helpers
    def func(self, relpath, dotted):
        try:
            f = self.p.func(relpath, dotted)
        except AnalysisError:
            # a function the reviewed tree had and this tree has not (inlined into its caller, renamed, moved): the rule that
            # reads it gives no verdict -- the call-tree comparison reports the same absence.  A function the reviewed tree never
            # had is a broken rule (exit 2).
            from . import modref
            from .pm import Undecided
            try:
                m = self.p.module(relpath)
                tree = modref._tree(m.name)
            except Exception:
                tree = None
            rn = "q__" + dotted.replace(".", "__").replace("<", "").replace(">", "")
            if tree is not None and any(getattr(n, "name", None) == rn for n in tree.body):
                raise Undecided("anchor function %s:%s of the reviewed tree is gone (inlined, renamed or moved); this rule does not read where it went" % (relpath, dotted))
            raise
        self.note("%s:%s" % (relpath, dotted))
        # helpers added since the review are spliced into their caller (sa/expand.py): rules look at one function
        from . import sym
        import copy as _copy
        node = sym.expanded(self, f)
        if node is not f.node:
            v = _copy.copy(f)
            v.node = node
            v.original = f
            self.note("expanded helpers in %s" % f.qualname)
            return v
        return f

    def where(self, fi, node=None):
        return "%s:%d" % (fi.module.relpath, getattr(node, "lineno", fi.node.lineno))


def load_known():
    path = os.path.join(VERIF, "known_findings.json")
    if not os.path.exists(path):
        return []
    return json.load(open(path))["findings"]


_DIGESTS = None


def changed_files(program):
    """source files of the package that differ from the reviewed tree (spec/mod/DIGESTS.json, tools/mkdigests.py)"""
    global _DIGESTS
    import hashlib
    if _DIGESTS is None:
        try:
            _DIGESTS = json.load(open(os.path.join(VERIF, "spec", "mod", "DIGESTS.json")))
        except Exception:
            _DIGESTS = {}
    out = []
    seen = set()
    for dp, dn, fn in os.walk(os.path.join(program.repo, "pycoin")):
        dn[:] = [d for d in dn if d != "__pycache__"]
        for f in fn:
            if f.endswith(".py"):
                p = os.path.join(dp, f)
                rel = os.path.relpath(p, program.repo)
                seen.add(rel)
                try:
                    h = hashlib.sha256(open(p, "rb").read()).hexdigest()
                except Exception:
                    h = None
                if _DIGESTS.get(rel) != h:
                    out.append(rel)
    out += [r for r in _DIGESTS if r not in seen]
    return sorted(out)


def run_property(pid, obligations, tier, only=None, quiet=False):
    """Evaluate obligations; returns (exit_code, evidence dict)."""
    t0 = time.time()
    seed = int(os.environ.get("VERIF_SEED", "0") or 0)
    lines = []
    try:
        program = Program()
    except AnalysisError as e:
        print("ANALYSIS-ERROR property=%s %s" % (pid, e))
        return 2, None
    ctx = Ctx(program, tier)
    known = [k for k in load_known() if k.get("property") == pid]
    viol = 0
    errs = 0
    changed = None
    known_hit = []
    results = []
    for ob in obligations:
        if only and ob.id != only:
            continue
        if ob.tier == "thorough" and tier != "thorough":
            continue
        ob.reset()
        ctx.cur = ob
        try:
            ob.fn(ctx)
            # the floor guards against a rule that silently matches nothing; instance counts legitimately move a little
            # when code is reorganised, so the alarm threshold is 70% of the hand-confirmed count
            eff = max(1, (ob.floor * 7) // 10)
            if ob.instances < eff and not ob.findings and not ob.undecided:
                raise AnalysisError("rule matched %d instances, hand-confirmed count is %d (threshold %d): the rule would pass vacuously" % (ob.instances, ob.floor, eff))
        except Undecided as e:
            ob.undecided.append(str(e))
        except AnalysisError as e:
            ob.error = str(e)
        except Exception as e:  # Unsupported, PyRaise, bugs: never a verdict
            tb = traceback.format_exc().strip().splitlines()
            ob.error = "%s: %s [%s]" % (type(e).__name__, e, tb[-3].strip() if len(tb) >= 3 else "")
        if ob.error and not ob.findings:
            # an analysis that cannot run is a broken check on the reviewed tree; on a tree that differs from it the change
            # moved the code out of what this rule reads: no verdict from it (the call-tree comparison still looks at the change)
            if changed is None:
                changed = changed_files(program)
            if changed:
                ob.undecided.append("the rule could not read this tree (%s); %d file(s) differ from the reviewed tree, e.g. %s" % (ob.error[:160], len(changed), ", ".join(changed[:3])))
                ob.error = None
        verdict = HOLDS
        new = []
        for f in ob.findings:
            k = next((k for k in known if k.get("status") == "known" and k.get("rule") == f.rule and k.get("key") == f.key), None)
            if k is not None:
                f.known = k
                known_hit.append((f, k))
            else:
                new.append(f)
        if new:
            verdict = VIOLATED
        elif ob.error:
            verdict = ERROR
        elif ob.findings:
            verdict = KNOWN
        elif ob.undecided:
            verdict = UNDECIDED
        if verdict == VIOLATED:
            for i, f in enumerate(new):
                viol += 1
                rp = os.path.join(VERIF, "evidence", "replay", "%s-%s-%d.json" % (pid, ob.id, i))
                os.makedirs(os.path.dirname(rp), exist_ok=True)
                json.dump({"property": pid, "rule": ob.id, "title": ob.title, "key": f.key, "where": f.where,
                           "message": f.msg, "breaks_if": ob.breaks_if, "tier": tier}, open(rp, "w"), indent=1)
                lines.append("VIOLATED %s %s: %s" % (ob.id, f.where, f.msg))
                lines.append("VIOLATION property=%s replay=%s" % (pid, rp))
        for u in ob.undecided:
            lines.append("UNDECIDED property=%s rule=%s %s" % (pid, ob.id, u))
        if ob.error:
            errs += 1
            lines.append("ANALYSIS-ERROR property=%s rule=%s %s" % (pid, ob.id, ob.error))
        results.append((ob, verdict))
    for f, k in known_hit:
        lines.append("KNOWN-FINDING: property=%s %s %s (%s)" % (pid, f.rule, k.get("what", f.msg), f.where))
    if not quiet:
        for ob, verdict in results:
            print("%-7s %-14s inst=%-4d %s" % (ob.id, verdict, ob.instances, ob.title))
        for l in lines:
            print(l)
    wall = time.time() - t0
    n_ob = len(results)
    discharged = sum(1 for ob, v in results if v in (HOLDS, KNOWN))
    evaluations = sum(ob.instances for ob, v in results)
    distinct = len(set().union(*[set("%s|%s" % (ob.id, x) for x in ob.nontrivial) for ob, v in results])) if results else 0
    samples = []
    for ob, v in results:
        samples.append({"obligation": ob.id, "title": ob.title, "engines": ob.engines, "verdict": v,
                        "instances": ob.instances, "floor": ob.floor, "breaks_if": ob.breaks_if,
                        "analysed": ob.analysed[:12], "cases": ob.samples[:4],
                        "findings": [f.to_json() for f in ob.findings][:6], "error": ob.error, "undecided": ob.undecided[:6]})
    evidence = {
        "property_id": pid,
        "tier": tier,
        "seed": seed,
        "level": "other",
        "coverage": {
            "explanation": ("static analysis of /repo's current working tree (ast / symbol tables / abstract interpretation of "
                            "import-time tables / control-flow and guard abstraction); %d structural obligations, each a necessary "
                            "condition of %s, were evaluated; the behavioural universal statement itself is not decided" % (n_ob, pid)),
            "obligations": n_ob,
            "discharged": discharged,
            "evaluations": max(evaluations, 0),
            "distinct_nontrivial": distinct,
            "rule": ("an 'evaluation' is one analysed rule instance (call site, guard, table entry, partition cell, trace "
                     "element, path); it is non-trivial and distinct when its normalised construct differs from every other "
                     "instance of the same obligation"),
            "samples": samples,
            "checker_cmd": "./check %s --tier %s" % (pid, tier),
            "trusted_base": ["CPython ast", "reference tables in /verif/spec (written from the BIPs / Bitcoin Core / hash specifications)",
                             "semantics of struct, hashlib, hmac, binascii", "the abstract interpreter in /verif/sa/interp.py"],
            "exhaustive": any(ob.exhaustive for ob, v in results),
            "modules_consulted": sorted(program.consulted),
            "source_digest": program.digest(),
        },
        "assumptions": ["calls through Any-typed receivers are resolved by method name",
                        "C libraries behind ctypes and the Python standard library behave as documented"],
        "wall_s": round(wall, 3),
        "violations": viol,
    }
    code = 1 if viol else (2 if errs else 0)
    return code, evidence


def write_evidence(pid, evidence):
    os.makedirs(os.path.join(VERIF, "evidence"), exist_ok=True)
    path = os.path.join(VERIF, "evidence", "%s.json" % pid)
    with open(path, "w") as f:
        json.dump(evidence, f, indent=1, default=str)
    return path
