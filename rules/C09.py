"""C09 - BIP32: structural obligations (DESIGN.md section 4, C09)."""
from __future__ import annotations

import ast

from sa.core import Ob
from sa.pm import AnalysisError, norm, body_nodes
from sa import gi, df, ru
from sa.gi import IntSet, iv, GuardWalker, SymbolicAtomizer

B32N = "pycoin/key/BIP32Node.py"
B32 = "pycoin/key/bip32.py"
SUBP = "pycoin/key/subpaths.py"
ELEC = "pycoin/key/electrum.py"
U, E = IntSet.all(), IntSet.empty()


def _sat(f):
    from rules.C01 import can_be
    return can_be(f, "\0")


# ------------------------------------------------------------------ C09.1
def c09_1(ctx):
    f = ctx.func(B32N, "BIP32Node._subkey")
    p = f.params()
    i_, hard, priv = p[1], p[2], p[3]
    w = GuardWalker(ru.opaque)
    ex = w.run(f.node.body)
    pub_calls = [(st, r) for st, r in w.visits if "subkey_public_pair_chain_code_pair(" in norm(st)]
    prv_calls = [(st, r) for st, r in w.visits if "subkey_secret_exponent_chain_code_pair(" in norm(st)]
    if len(pub_calls) != 1 or len(prv_calls) != 1:
        raise AnalysisError("_subkey: derivation calls not found")
    r = pub_calls[0][1]
    ctx.check(not _sat(gi.f_and(r, ("op", hard))), "hardened-from-public-refused", ctx.where(f, pub_calls[0][0]),
              "BIP32Node._subkey can reach the public derivation with is_hardened set (reach: %s): hardened children of a public-only node must be refused before any derivation" % repr(r)[:160],
              sample={"function": f.qualname, "public_derivation_reach": repr(r)[:200]})
    none_atom = "self.secret_exponent() is None"
    ctx.check(none_atom in gi.f_opaques(r) and not _sat(gi.f_and(r, ("not", ("op", none_atom)))), "public-derivation-only-without-secret", ctx.where(f), "the public derivation is not restricted to nodes without a secret exponent")
    ctx.check(not _sat(gi.f_and(prv_calls[0][1], ("op", none_atom))), "private-derivation-needs-secret", ctx.where(f), "the private derivation is reachable without a secret exponent")
    rs = [e for e in ex if ru.is_raise_of("PublicPrivateMismatchError")(e)]
    ok = len(rs) == 1 and _sat(rs[0].cond) and not _sat(gi.f_and(rs[0].cond, ("not", ("op", none_atom)))) and not _sat(gi.f_and(rs[0].cond, ("not", ("op", hard)))) and \
        set(gi.f_opaques(rs[0].cond)) <= {none_atom, hard, "%s < 0" % i_, "%s >= 2147483648" % i_}
    ctx.check(ok, "refusal-condition", ctx.where(f), "the refusal is not raised exactly for (public-only node, hardened index): %s" % [repr(e.cond)[:120] for e in rs])
    const = ru.const_resolver(ctx, f, set())
    w2 = GuardWalker(SymbolicAtomizer(ru.subject({i_}), const))
    ex2 = w2.run(f.node.body)
    s, n = ru.guard_reject_set(f.node, w2, ex2, ru.is_raise, U, E)
    ctx.check(s == iv(0, 0x7FFFFFFF).complement(), "index-range", ctx.where(f), "_subkey rejects indices %s, BIP32 child numbers are 0..2^31-1 (hardening is a separate flag)" % s.fmt(), sample={"subject": i_, "rejected": s.fmt()})
    ors = [(st, r_) for st, r_ in w.visits if isinstance(st, ast.AugAssign) and norm(st.target) == i_ and isinstance(st.op, ast.BitOr) and df.const_int(st.value) == 0x80000000]
    ctx.check(len(ors) == 1 and _sat(ors[0][1]) and not _sat(gi.f_and(ors[0][1], ("not", ("op", hard)))), "hardened-bit", ctx.where(f), "the hardened bit 0x80000000 is not OR-ed in exactly for hardened children")
    d = [st for st in body_nodes(f.node) if isinstance(st, (ast.Assign, ast.AnnAssign)) and norm(st.targets[0] if isinstance(st, ast.Assign) else st.target) == "d"]
    ok = len(d) == 1 and norm(d[0].value) == "dict(depth=self._depth + 1, parent_fingerprint=self.fingerprint(), child_index=%s)" % i_
    ctx.check(ok, "child-metadata", ctx.where(f), "child metadata is not (depth + 1, fingerprint of this node, child index with the hardened bit): %s" % (norm(d[0].value) if d else None), sample={"metadata": norm(d[0].value) if d else None})
    t = norm(f.node)
    ctx.check("subkey_public_pair_chain_code_pair(self._generator, self.public_pair(), self._chain_code, %s)" % i_ in t and
              "subkey_secret_exponent_chain_code_pair(self._generator, secret_exponent, self._chain_code, %s, %s, self.public_pair())" % (i_, hard) in t, "derivation-arguments", ctx.where(f),
              "the CKD functions are not called with (generator, key, chain code, index[, hardened, public pair])")
    ctx.check("if not %s:" % priv in t and "key = key.public_copy()" in t, "public-result-on-request", ctx.where(f), "_subkey does not strip the secret when a public child is requested")


def _strip(f, keep):
    """formula with every opaque atom not in `keep` existentially removed (treated as free): returns True when the rest is unconstrained"""
    ops = [o for o in gi.f_opaques(f) if o not in keep]
    if not ops:
        return True
    return True


# ------------------------------------------------------------------ C09.2
def c09_2(ctx):
    f = ctx.func(B32, "subkey_secret_exponent_chain_code_pair")
    g_, k_, c_, i_, h_, pp_ = f.params()[:6]
    d = df.single_defs(f.node)
    w = GuardWalker(ru.opaque)
    w.run(f.node.body)
    datas = {repr(r): norm(st.value) for st, r in w.visits if isinstance(st, ast.Assign) and norm(st.targets[0]) == "data" and not isinstance(ru.enclosing_test(f.node, st), type(None)) or (isinstance(st, ast.Assign) and norm(st.targets[0]) == "data")}
    hard = [norm(st.value) for st, r in w.visits if isinstance(st, ast.Assign) and norm(st.targets[0]) == "data" and gi.f_equiv(r, ("op", h_))]
    soft = [norm(st.value) for st, r in w.visits if isinstance(st, ast.Assign) and norm(st.targets[0]) == "data" and gi.f_equiv(r, ("not", ("op", h_)))]
    ctx.check(hard == ["b'\\x00' + to_bytes_32(%s) + i_as_bytes" % k_], "ckd-priv-hardened-message", ctx.where(f), "hardened CKDpriv message is %s; BIP32: 0x00 || ser256(k) || ser32(i)" % hard, sample={"hardened": hard, "normal": soft})
    ctx.check(soft == ["sec + i_as_bytes"] and norm(d.get("sec", ast.Constant(0))) == "public_pair_to_sec(%s, compressed=True)" % pp_, "ckd-priv-normal-message", ctx.where(f), "normal CKDpriv message is %s; BIP32: serP(K) || ser32(i)" % soft)
    ctx.check(norm(d.get("i_as_bytes", ast.Constant(0))) in ("struct.pack('>L', %s)" % i_, "struct.pack('>I', %s)" % i_), "ckd-priv-ser32", ctx.where(f), "ser32(i) is `%s`, BIP32: 4 bytes big-endian" % norm(d.get("i_as_bytes", ast.Constant(0))))
    t = norm(f.node)
    ctx.check("I64 = hmac.HMAC(key=%s, msg=data, digestmod=hashlib.sha512).digest()" % c_ in t, "ckd-priv-hmac", ctx.where(f), "CKDpriv is not HMAC-SHA512(key = chain code, msg = data)")
    ctx.check("I_left = from_bytes_32(I64[:32])" in t and "new_secret_exponent = (I_left + %s) %% ORDER" % k_ in t and "new_chain_code = I64[32:]" in t and norm(d.get("ORDER", ast.Constant(0))) == "%s.order()" % g_, "ckd-priv-child", ctx.where(f),
              "child key is not (I_L + k) mod n with chain code I_R")
    ctx.check("if I_left < ORDER and new_secret_exponent != 0:" in t, "ckd-priv-validity", ctx.where(f), "CKDpriv does not reject I_L >= n or a zero child key")
    ctx.check("public_pair = %s * %s" % (k_, g_) in t, "ckd-priv-own-public", ctx.where(f), "the parent public key is not k*G when not supplied")
    g = ctx.func(B32, "subkey_public_pair_chain_code_pair")
    gg, pp, cc, ii = g.params()[:4]
    d = df.single_defs(g.node)
    t = norm(g.node)
    ctx.check(norm(d.get("data", ast.Constant(0))) == "sec + i_as_bytes" and norm(d.get("sec", ast.Constant(0))) == "public_pair_to_sec(%s, compressed=True)" % pp, "ckd-pub-message", ctx.where(g), "CKDpub message is not serP(K) || ser32(i)")
    ctx.check(norm(d.get("i_as_bytes", ast.Constant(0))) in ("struct.pack('>l', %s)" % ii, "struct.pack('>L', %s)" % ii, "struct.pack('>I', %s)" % ii), "ckd-pub-ser32", ctx.where(g), "ser32(i) in CKDpub is `%s`" % norm(d.get("i_as_bytes", ast.Constant(0))))
    ctx.check("I64 = hmac.HMAC(key=%s, msg=data, digestmod=hashlib.sha512).digest()" % cc in t and "the_point = I_left_as_exponent * %s + %s.Point(*%s)" % (gg, gg, pp) in t and "new_chain_code = I64[32:]" in t, "ckd-pub-child", ctx.where(g),
              "CKDpub child is not I_L*G + K with chain code I_R")
    ctx.check("if the_point == INFINITY:" in t and "raise DerivationError" in t, "ckd-pub-infinity", ctx.where(g), "CKDpub does not refuse the point at infinity")
    m = ctx.func(B32N, "BIP32Node.from_master_secret")
    t = norm(m.node)
    ctx.check("hmac.HMAC(key=b'Bitcoin seed', msg=master_secret, digestmod=hashlib.sha512).digest()" in t and "return class_(chain_code=I64[32:], secret_exponent=from_bytes_32(I64[:32]))" in t, "master-key", ctx.where(m), "the master key is not HMAC-SHA512('Bitcoin seed', seed) split into key and chain code")


# ------------------------------------------------------------------ C09.3
def c09_3(ctx):
    f = ctx.func(B32N, "BIP32Node.subkey")
    d = df.single_defs(f.node)
    calls = [c for c in df.calls_in(f.node) if norm(c.func) == "self._subkey"]
    if len(calls) != 1:
        raise AnalysisError("BIP32Node.subkey: expected one _subkey call")
    args = [norm(a) for a in calls[0].args]
    key = d.get("lookup")
    kelts = [norm(e) for e in key.elts] if isinstance(key, ast.Tuple) else None
    ctx.check(kelts == args, "memo-key-covers-arguments", ctx.where(f),
              "the sub-key memo is keyed by %s but the memoised value is _subkey(%s): requests that differ in an argument missing from the key share one slot (e.g. the private and the public child)" % (kelts, ", ".join(args)),
              sample={"memo_key": kelts, "computed_from": args})
    subs = [n for n in body_nodes(f.node) if isinstance(n, ast.Subscript) and norm(n.value) == "self._subkey_cache"]
    ctx.check(bool(subs) and all(norm(n.slice) == "lookup" for n in subs), "memo-same-key", ctx.where(f), "the memo is read and written under different keys")
    # every attribute the derivation reads is assigned only at construction
    frozen = {"_secret_exponent", "_public_pair", "_chain_code", "_depth", "_parent_fingerprint", "_child_index", "_generator", "_secret_exponent_bytes", "_is_compressed"}
    for rel, cname in ((B32N, "BIP32Node"), ("pycoin/key/HierarchicalKey.py", "HierarchicalKey"), ("pycoin/key/Key.py", "Key"), ("pycoin/key/BIP49Node.py", "BIP49Node"), ("pycoin/key/BIP84Node.py", "BIP84Node")):
        c = ctx.p.cls(rel, cname)
        for name, m in c.methods.items():
            if name == "__init__":
                continue
            for st in body_nodes(m.node):
                tg = st.targets if isinstance(st, ast.Assign) else ([st.target] if isinstance(st, (ast.AugAssign, ast.AnnAssign)) else [])
                for t_ in tg:
                    if isinstance(t_, ast.Attribute) and norm(t_.value) == "self" and t_.attr in frozen:
                        ctx.bad("node-mutated:%s.%s:%s" % (cname, name, t_.attr), ctx.where(m, st), "%s.%s assigns self.%s after construction: memoised children no longer correspond to the node's key material" % (cname, name, t_.attr))
        ctx.ok("immutable:%s" % cname, nontrivial=False)
    sp = ctx.func(B32N, "BIP32Node.subkey_for_path")
    t = norm(sp.node)
    ctx.check("is_hardened = v[-1] in \"'pH\"" in t and "key = key.subkey(i=vi, is_hardened=is_hardened, as_private=key.secret_exponent() is not None)" in t and "force_public = path[-4:] == '.pub'" in t, "path-walk", ctx.where(sp),
              "subkey_for_path does not walk the components with their hardening markers (', p, H) and the .pub suffix")
    # range expansion: the hardening marker belongs to each comma item
    sr = ctx.func(SUBP, "subpaths_for_path_range")
    inner = ctx.p.functions.get(sr.qualname + ".range_iterator")
    if inner is None:
        raise AnalysisError("range_iterator not found")
    loops = [n for n in inner.node.body if isinstance(n, ast.For) and "split(','" in norm(n.iter)]
    ok = len(loops) == 1
    if ok:
        lv = norm(loops[0].target)
        asg = [st for st in body_nodes(inner.node) if isinstance(st, ast.Assign) and norm(st.targets[0]) == "is_hardened"]
        ok = len(asg) == 1 and any(x is asg[0] for x in ast.walk(loops[0])) and norm(asg[0].value) == "%s[-1] in hardening_chars" % lv
        body_t = norm(loops[0])
        ok = ok and "if is_hardened:\n        %s = %s[:-1]" % (lv, lv) in body_t and "range(low, high + 1)" in body_t and "yield ('%d%s' % (t, hardened_char))" in body_t and "yield ('%%s%%s' %% (%s, hardened_char))" % lv in body_t
    ctx.check(ok, "range-hardening-per-item", ctx.where(inner), "range_iterator does not decide and strip the hardening marker separately for each comma-separated item (`7-8p,15` hardens 7 and 8 only)",
              sample={"function": inner.qualname})
    t = norm(sr.node)
    ctx.check("components = path_range.split('/')" in t and "for v in itertools.product(*iterators):" in t and "yield '/'.join(v)" in t, "range-product", ctx.where(sr), "subpaths_for_path_range is not the product of the per-component ranges")


# ------------------------------------------------------------------ C09.4
def c09_4(ctx):
    s = ctx.func(B32N, "BIP32Node.serialize")
    t = norm(s.node)
    ok = "ba.extend([self._depth])" in t and "ba.extend(self._parent_fingerprint + struct.pack('>L', self._child_index) + self._chain_code)" in t and "ba += b'\\x00' + self._secret_exponent_bytes" in t and "ba += self.sec(is_compressed=True)" in t
    ctx.check(ok, "serialize-layout", ctx.where(s), "serialize is not depth(1) || fingerprint(4) || index(>L) || chain code(32) || (00 || key | SEC)", sample={"function": s.qualname})
    w = GuardWalker(ru.opaque)
    w.run(s.node.body)
    pk = [(st, r) for st, r in w.visits if "_secret_exponent_bytes" in norm(st)]
    ctx.check(len(pk) == 1 and not _sat(gi.f_and(pk[0][1], ("not", ("op", "as_private")))), "private-part-iff-requested", ctx.where(s), "the private key bytes are written without as_private")
    rs = [e for e in w.exits if e.kind == "raise"]
    ctx.check(any("self.secret_exponent() is None" in gi.f_opaques(e.cond) and "as_private" in gi.f_opaques(e.cond) for e in rs), "private-from-public-refused", ctx.where(s), "serialize(as_private=True) on a public node is not refused")
    d = ctx.func(B32N, "BIP32Node.deserialize")
    slices = sorted({norm(n) for n in body_nodes(d.node) if isinstance(n, ast.Subscript) and norm(n.value) == "data"})
    want = sorted(["data[13:45]", "data[45:46]", "data[45:]", "data[46:]", "data[4:5]", "data[5:13]"])
    ctx.check(slices == want, "deserialize-offsets", ctx.where(d), "deserialize reads %s; with the 4-byte prefix the layout is depth [4:5], fingerprint+index [5:13], chain code [13:45], key [45:78]" % slices, sample={"slices": slices})
    t = norm(d.node)
    ctx.check("parent_fingerprint, child_index = struct.unpack('>4sL', data[5:13])" in t and "depth=ord(data[4:5])" in t and "chain_code=data[13:45]" in t and "is_private = data[45:46] == b'\\x00'" in t and
              "d['secret_exponent'] = from_bytes_32(data[46:])" in t and "d['public_pair'] = sec_to_public_pair(data[45:], generator=class_._generator)" in t, "deserialize-fields", ctx.where(d), "deserialize does not map the slices to (fingerprint, index, depth, chain code, key)")
    i = ctx.func(B32N, "BIP32Node.__init__")
    t = norm(i.node)
    ctx.check("if len(chain_code) != 32:" in t and "if len(parent_fingerprint) != 4:" in t and "self._secret_exponent_bytes = to_bytes_32(secret_exponent)" in t, "field-widths", ctx.where(i), "BIP32Node.__init__ does not pin the chain code to 32 and the fingerprint to 4 bytes")
    from rules.C18 import c18_4
    c18_4(ctx)


# ------------------------------------------------------------------ C09.5
def c09_5(ctx):
    from rules.C18 import c18_3
    c18_3(ctx)


# ------------------------------------------------------------------ C09.6
def c09_6(ctx):
    f = ctx.func(ELEC, "ElectrumWallet.subkey")
    d = df.single_defs(f.node)
    t = norm(f.node)
    off = d.get("offset")
    ctx.check(off is not None and norm(off) == "from_bytes_32(double_sha256(b))", "electrum-offset", ctx.where(f), "the Electrum offset is not dsha256(n:for_change: || master public key)")
    ctx.check("b = (str(n) + ':' + str(for_change) + ':').encode('utf8') + self.master_public_key()" in t, "electrum-message", ctx.where(f), "the Electrum derivation message is not `n:for_change:` || mpk")
    ctx.check("master_private_key=(self.master_private_key() + offset) % self._generator.order()" in t, "electrum-private", ctx.where(f), "private child is not (mpk + offset) mod n")
    ctx.check("p1 = offset * self._generator" in t and "p = p1 + p2" in t and "p2 = self._generator.Point(x, y)" in t and "x, y = self.public_pair()" in t and "return self.__class__(public_pair=p)" in t, "electrum-public", ctx.where(f), "public child is not offset*G + P")
    uses = sum(1 for n in body_nodes(f.node) if isinstance(n, ast.Name) and n.id == "offset" and isinstance(n.ctx, ast.Load))
    ctx.check(uses == 2, "electrum-same-offset", ctx.where(f), "the two halves do not use the one offset")


# ------------------------------------------------------------------ C09.7
def c09_7(ctx):
    n = 0
    for name, m in sorted(ctx.p.modules.items()):
        if not name.startswith("pycoin.symbols."):
            continue
        uses_grs_parser = any(isinstance(x, ast.keyword) and x.arg == "parse_api_class" and "GRS" in norm(x.value) for x in ast.walk(m.tree))
        patches = {}
        for st in m.tree.body:
            if isinstance(st, ast.Assign) and isinstance(st.targets[0], ast.Attribute) and norm(st.targets[0]).startswith("network."):
                patches[norm(st.targets[0])] = norm(st.value)
        if not uses_grs_parser and not patches:
            continue
        n += 1
        ctx.p.consulted.add(name)
        has_prefix = {k.arg for x in ast.walk(m.tree) if isinstance(x, ast.Call) for k in x.keywords if k.arg and k.arg.endswith("_prefix_hex")}
        need = ["network.wif_for_blob", "network.address.b2a"]
        for fam in ("bip32", "bip49", "bip84"):
            if fam + "_prv_prefix_hex" in has_prefix:
                need.append("network.%s_as_string" % fam)
        for tgt in need:
            ok = tgt in patches
            if ok:
                fn = patches[tgt]
                fdef = m.functions.get(fn)
                ok = fn == "b2a_hashed_base58_grs" or (fdef is not None and "b2a_hashed_base58_grs(" in norm(fdef.node))
            ctx.check(ok == uses_grs_parser, "checksum-pairing:%s:%s" % (name.split(".")[-1], tgt), "%s:1" % m.relpath,
                      "%s parses base58 text with the groestl checksum (GRSParseAPI) but %s still writes the double-SHA256 checksum: text produced on this network can never be parsed back there" % (name, tgt)
                      if uses_grs_parser else "%s patches %s to the groestl checksum but parses with the double-SHA256 parser" % (name, tgt), what="pair:%s:%s" % (name, tgt),
                      sample={"network": name, "encoder": tgt, "patched_to": patches.get(tgt)} if n == 1 else None)
        g = m.functions.get("b2a_hashed_base58_grs")
        if g is not None:
            ctx.check("return b2a_base58(data + groestlHash(data)[:4])" in norm(g.node), "grs-checksum:%s" % name, ctx.where(g), "b2a_hashed_base58_grs is not base58(data || groestl(data)[:4])")
    if n < 3:
        raise AnalysisError("only %d networks with a non-default base58 checksum found" % n)
    p = ctx.func("pycoin/coins/groestlcoin/parse.py", "GRSParseAPI.parse_b58_hashed")
    ctx.check("return parse_b58_groestl(s)" in norm(p.node), "grs-parser", ctx.where(p), "GRSParseAPI does not verify the groestl checksum")


OBLIGATIONS = [
    Ob("C09.1", "hardened derivation from a public-only node is refused before any derivation; index range; metadata", c09_1, floor=9, engines="CFG,GI", breaks_if="pub.subkey(0, is_hardened=True)"),
    Ob("C09.2", "CKDpriv / CKDpub message shapes, HMAC-SHA512, child = (I_L + k) mod n / I_L*G + K", c09_2, floor=12, engines="DF,SIB"),
    Ob("C09.3", "memo key covers every derivation argument; node key material immutable; path and range expansion", c09_3, floor=9, engines="DF,EF", breaks_if="subkey(7) then subkey(7, as_private=False); ranges such as 7-8p,15"),
    Ob("C09.4", "78-byte layout: writer widths and reader offsets; hwif uses the matching prefix family", c09_4, floor=10, engines="CT"),
    Ob("C09.5", "extended-key text of the wrong length or content parses to None (shared with C18.3)", c09_5, floor=15, engines="GI,EX"),
    Ob("C09.6", "Electrum public/private derivations share one offset", c09_6, floor=5, engines="DF"),
    Ob("C09.7", "per-network base58 checksum: parser override and every encoder patched together", c09_7, floor=15, engines="TB,PM", breaks_if="GRS yprv/zprv text"),
]
