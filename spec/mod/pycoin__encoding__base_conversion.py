"""Transcription of every function of pycoin/encoding/base_conversion.py as of the reviewed tree (see DESIGN.md section 12).
NEVER IMPORTED OR EXECUTED: parsed and compared in canonical form (sa/sym.py) with the functions in /repo."""


_CONSTS = {

}


# pycoin/encoding/base_conversion.py :: to_long
def q__to_long(base, lookup_f, s):
    prefix = 0
    v = 0
    for c in s:
        v *= base
        try:
            v += lookup_f(c)
        except Exception:
            raise EncodingError()
        if v == 0:
            prefix += 1
    return (v, prefix)


# pycoin/encoding/base_conversion.py :: from_long
def q__from_long(v, prefix, base, charset):
    ba = bytearray()
    while v > 0:
        try:
            v, mod = divmod(v, base)
            ba.append(charset(mod))
        except Exception:
            raise EncodingError()
    ba.extend([charset(0)] * prefix)
    ba.reverse()
    return bytes(ba)
