"""C16 - peer-to-peer messages: structural obligations (DESIGN.md section 4, C16)."""
from __future__ import annotations

import ast
import struct

from sa.core import Ob
from sa.pm import AnalysisError, norm, body_nodes
from sa import gi, df, ru, ct
from sa.interp import FuncVal, BoundMethod, Unknown, InstanceVal, ClassVal
from spec import p2p as SPEC

MPP = "pycoin/message/make_parser_and_packer.py"
SST = "pycoin/satoshi/satoshi_streamer.py"
STR = "pycoin/serialize/streamer.py"
INV = "pycoin/message/InvItem.py"
PEER = "pycoin/message/PeerAddress.py"


def _tables(ctx):
    if "p2p" in ctx.cache:
        return ctx.cache["p2p"]
    it = ctx.interp
    msgs = it.get("pycoin.message.make_parser_and_packer", "STANDARD_P2P_MESSAGES")
    if not isinstance(msgs, dict):
        raise AnalysisError("STANDARD_P2P_MESSAGES unresolved: %r" % (msgs,))
    spf = it.get("pycoin.message.make_parser_and_packer", "standard_parsing_functions")
    items = it.call(spf, [Unknown("Block"), Unknown("Tx")], {})
    if not isinstance(items, list):
        raise AnalysisError("standard_parsing_functions unresolved")
    codecs = {}
    for k, pair in items:
        codecs[k] = pair
    ctx.cache["p2p"] = (msgs, codecs)
    return ctx.cache["p2p"]


def _letters(layout):
    out = []
    for field in layout.split():
        name, _, typ = field.partition(":")
        out.append((name, typ))
    return out


# ------------------------------------------------------------------ C16.1
def c16_1(ctx):
    msgs, codecs = _tables(ctx)
    for name in sorted(set(msgs) | set(SPEC.MESSAGES)):
        got, want = msgs.get(name), SPEC.MESSAGES.get(name)
        ctx.check(got is not None and want is not None and " ".join(got.split()) == want, "layout:%s" % name, MPP + ":1",
                  "message `%s` is laid out as %r; the wire format is %r" % (name, got, want), what="layout:%s:%s" % (name, got),
                  sample={"message": name, "layout": got} if name in ("version", "cmpctblock", "getblocktxn", "merkleblock") else None)
        if got is None:
            continue
        fields = _letters(got)
        names = [n for n, t in fields]
        ctx.check(len(names) == len(set(names)), "field-names-unique:%s" % name, MPP + ":1", "message `%s` repeats a field name" % name, what="names:%s" % name, sample=None)
        for n, t in fields:
            for ch in t.strip("[]"):
                ctx.check(ch in codecs, "codec-exists:%s:%s" % (name, ch), MPP + ":1", "message `%s` field `%s` uses type letter %r, which has no registered codec" % (name, n, ch),
                          what="letter:%s:%s:%s" % (name, n, ch), sample=None)
    f = ctx.func(MPP, "make_post_unpack_alert")
    d = df.single_defs(f.node).get("the_struct")
    try:
        val = ru.eval_in_module(ctx, f.module, d) if d is not None else None
    except Exception:
        val = None
    ctx.check(val is not None and " ".join(val.split()) == " ".join(SPEC.ALERT.split()), "alert-sublayout", ctx.where(f), "alert payload layout is %r" % (val,))
    # parser and packer split the layout the same way
    mp = ctx.func(MPP, "_make_parser")
    t = norm(mp.node)
    ctx.check("struct_items = [s.split(':') for s in the_struct.split()]" in t and "names = [s[0] for s in struct_items]" in t and "types = ''.join((s[1] for s in struct_items))" in t, "parser-split", ctx.where(mp),
              "_make_parser does not split the layout into (name, type) pairs field by field")
    pk = ctx.p.functions.get(ctx.func(MPP, "make_parser_and_packer").qualname + ".pack_from_data")
    if pk is None:
        raise AnalysisError("pack_from_data not found")
    t = norm(pk.node)
    ctx.check("pairs = [t.split(':') for t in the_fields]" in t and "for name, type in pairs:" in t, "packer-split", ctx.where(pk), "pack_from_data does not split the layout into (name, type) pairs field by field")


# ------------------------------------------------------------------ C16.2
def _lam(fv):
    if isinstance(fv, FuncVal) and isinstance(fv.node, ast.Lambda):
        return norm(fv.node.body), [a.arg for a in fv.node.args.args]
    return None, None


def c16_2(ctx):
    msgs, codecs = _tables(ctx)
    for ch, (fmt, width) in SPEC.WIRE.items():
        if ch == "6":
            continue
        pair = codecs.get(ch)
        if pair is None:
            ctx.bad("codec-missing:%s" % ch, SST + ":1", "no codec for %r" % ch)
            continue
        p, s = pair
        pb, pa = _lam(p)
        sb, sa_ = _lam(s)
        okp = pb == "struct.unpack('%s', %s.read(%d))[0]" % (fmt, pa[0] if pa else "f", width)
        oks = sa_ is not None and len(sa_) == 2 and sb == "%s.write(struct.pack('%s', %s))" % (sa_[0], fmt, sa_[1])
        ctx.check(okp and oks and struct.calcsize(fmt) == width, "wire-type:%s" % ch, SST + ":1",
                  "codec %r parses with `%s` and streams with `%s`; the wire type is struct %r (%d bytes, same format on both sides, value after format)" % (ch, pb, sb, fmt, width),
                  sample={"letter": ch, "parse": pb, "stream": sb})
    for ch, n in SPEC.RAW.items():
        p, s = codecs.get(ch, (None, None))
        pb, pa = _lam(p)
        sb, sa_ = _lam(s)
        okp = pb in ("%s.read(%d)" % (pa[0] if pa else "f", n), "bytes_as_revhex(%s.read(%d))" % (pa[0] if pa else "f", n))
        oks = sa_ is not None and sb in ("%s.write(%s[:%d])" % (sa_[0], sa_[1], n), "%s.write(%s)" % (sa_[0], sa_[1]))
        ctx.check(okp and oks, "raw-type:%s" % ch, SST + ":1", "codec %r: parse `%s` / stream `%s`; wire type is %d raw bytes" % (ch, pb, sb, n), sample={"letter": ch, "parse": pb, "stream": sb})
    # compact size and var string delegate to the satoshi codecs
    for ch, (pn, sn) in {"I": ("parse_satoshi_int", "stream_satoshi_int"), "S": ("parse_satoshi_string", "stream_satoshi_string")}.items():
        p, s = codecs.get(ch, (None, None))
        ctx.check(isinstance(p, FuncVal) and p.name == pn and isinstance(s, FuncVal) and s.name == sn, "delegated:%s" % ch, SST + ":1", "codec %r is not (%s, %s)" % (ch, pn, sn))
    # 6-byte integers
    spf = ctx.func(MPP, "standard_parsing_functions")
    p6 = ctx.p.functions.get(spf.qualname + ".parse_int_6")
    s6 = ctx.p.functions.get(spf.qualname + ".stream_int_6")
    if p6 is None or s6 is None:
        raise AnalysisError("6-byte codec functions not found")
    t = norm(p6.node)
    calls = [c for c in df.calls_in(p6.node) if norm(c.func) == "struct.unpack"]
    ok = len(calls) == 1 and isinstance(calls[0].args[0], ast.Constant) and calls[0].args[0].value == "<Q" and "f.read(6) + b'\\x00\\x00'" in t
    ctx.check(ok, "int6-parse", ctx.where(p6), "parse_int_6 is not struct.unpack('<Q', 6 bytes + 2 zero bytes): %s" % [norm(c) for c in calls], sample={"parse": [norm(c) for c in calls]})
    calls = [c for c in df.calls_in(s6.node) if norm(c.func) == "struct.pack"]
    ok = len(calls) == 1 and isinstance(calls[0].args[0], ast.Constant) and calls[0].args[0].value == "<Q" and norm(calls[0].args[1]) == s6.params()[1] and "[:6]" in norm(s6.node)
    ctx.check(ok, "int6-stream", ctx.where(s6), "stream_int_6 is not struct.pack('<Q', v)[:6]: %s" % [norm(c) for c in calls])
    # optional bool: absent <-> None, present byte <-> its truth value
    p, s = codecs.get("O", (None, None))
    sb, sa_ = _lam(s)
    ok = False
    if isinstance(s, FuncVal) and isinstance(s.node, ast.Lambda):
        body = s.node.body
        w = body.args[0] if isinstance(body, ast.Call) and df.last_attr(body) == "write" and body.args else None
        if isinstance(w, ast.IfExp):
            t = w.test
            v = sa_[1]
            if isinstance(t, ast.Compare) and len(t.ops) == 1 and isinstance(t.comparators[0], ast.Constant) and t.comparators[0].value is None and norm(t.left) == v:
                if isinstance(t.ops[0], ast.Is):
                    ok = norm(w.body) == "b''" and norm(w.orelse) == "struct.pack('B', %s)" % v
                elif isinstance(t.ops[0], ast.IsNot):
                    ok = norm(w.orelse) == "b''" and norm(w.body) == "struct.pack('B', %s)" % v
    ctx.check(ok, "optional-bool-stream", MPP + ":1", "codec 'O' streams `%s`; it must write nothing exactly for None and one byte for True/False (an explicit False is not `absent`)" % sb, sample={"stream": sb})
    ok = False
    if isinstance(p, FuncVal) and not isinstance(p.node, ast.Lambda):
        w = gi.GuardWalker(ru.opaque)
        ex = w.run(p.node.body)
        none_r = [e for e in ex if e.kind == "return" and isinstance(e.value, ast.Constant) and e.value.value is None]
        val_r = [e for e in ex if e.kind == "return" and e not in none_r]
        ok = len(none_r) == 1 and len(val_r) == 1 and any("len(" in o and "== 0" in o for o in gi.f_opaques(none_r[0].cond)) and norm(val_r[0].value) in ("bool(struct.unpack('B', b)[0])", "struct.unpack('B', b)[0] != 0", "struct.unpack('?', b)[0]")
    ctx.check(ok, "optional-bool-parse", MPP + ":1", "codec 'O' does not parse an absent byte to None and a present byte to its truth value")
    # object codecs
    for ch, cls, (pm, sm) in (("A", "PeerAddress", ("parse", "stream")), ("v", "InvItem", ("parse", "stream"))):
        p, s = codecs.get(ch, (None, None))
        sb, sa_ = _lam(s)
        okp = isinstance(p, BoundMethod) and p.func.name == pm and isinstance(p.self_obj, ClassVal) and p.self_obj.name == cls
        oks = sa_ is not None and sb == "%s.%s(%s)" % (sa_[1], sm, sa_[0])
        ctx.check(okp and oks, "object-codec:%s" % ch, MPP + ":1", "codec %r is not (%s.%s, obj.%s(f))" % (ch, cls, pm, sm))


# ------------------------------------------------------------------ C16.3
def c16_3(ctx):
    pk = ctx.p.functions.get(ctx.func(MPP, "make_parser_and_packer").qualname + ".pack_from_data")
    t = norm(pk.node)
    ok = "if type[0] == '[':" in t and "streamer.stream_struct('I', f, len(kwargs[name]))" in t and "for v in kwargs[name]:" in t and "streamer.stream_struct(type[1:-1], f, *v)" in t and \
        "if not isinstance(v, (tuple, list)):" in t and "v = [v]" in t and "streamer.stream_struct(type, f, kwargs[name])" in t
    ctx.check(ok, "array-pack", ctx.where(pk), "pack_from_data does not pack arrays as compact-size count + elements (tuples splatted over the sub-layout)")
    ps = ctx.func(STR, "Streamer.parse_struct")
    t = norm(ps.node)
    ok = "count = self.array_count_parse_f(f)" in t and "subfmt = fmt[i + 1:end]" in t and "if len(subfmt) == 1:" in t and "array.append(self.parse_struct(subfmt, f)[0])" in t and \
        "array.append(self.parse_struct(subfmt, f))" in t and "items.append(self.parse_lookup[c](f))" in t and "i = end" in t
    ctx.check(ok, "array-parse", ctx.where(ps), "Streamer.parse_struct does not parse arrays as count (array_count_parse_f) + sub-layout per element (scalar for single-letter sub-layouts)")
    ss = ctx.func(STR, "Streamer.stream_struct")
    ctx.check("for c, v in zip(fmt, args):" in norm(ss.node) and "self.stream_lookup[c](f, v)" in norm(ss.node), "stream-struct", ctx.where(ss), "Streamer.stream_struct does not pair format letters with values in order")
    st = ctx.func(MPP, "standard_streamer")
    ctx.check("streamer.register_array_count_parse(parse_satoshi_int)" in norm(st.node), "array-count-codec", ctx.where(st), "array counts are not compact-size integers")
    rf = ctx.func(STR, "Streamer.register_functions")
    t = norm(rf.node)
    ctx.check("parse_f, stream_f = v" in t and "self.parse_lookup[c] = parse_f" in t and "self.stream_lookup[c] = stream_f" in t, "codec-registration", ctx.where(rf), "register_functions swaps parser and streamer")


# ------------------------------------------------------------------ C16.4
def c16_4(ctx):
    # InvItem
    s = ctx.func(INV, "InvItem.stream")
    tr = ct.write_trace(s.node, "f")
    ctx.check([(i.kind, i.fmt, i.value) for i in tr] == [("fmt", "L", "self.item_type"), ("fmt", "#", "self.data")], "invitem-stream", ctx.where(s), "InvItem.stream writes %s, expected L item_type, # hash" % tr)
    p = ctx.func(INV, "InvItem.parse")
    ps = ct.parse_struct_calls(p.node)
    rets = df.returns_of(p.node)
    ok = len(ps) == 1 and ps[0][0] == "L#" and len(rets) == 1 and isinstance(rets[0].value, ast.Call) and rets[0].value.args and isinstance(rets[0].value.args[0], ast.Starred) and rets[0].value.args[0].value is ps[0][1]
    ctx.check(ok, "invitem-parse", ctx.where(p), "InvItem.parse does not hand the parsed (type, hash) pair unchanged to the constructor: the 32-bit type (including the witness flag bits) must round-trip",
              sample={"parse": norm(p.node.body[-1])})
    init = ctx.func(INV, "InvItem.__init__")
    asg = {norm(st.targets[0]): norm(st.value) for st in body_nodes(init.node) if isinstance(st, ast.Assign)}
    ctx.check(asg.get("self.item_type") == init.params()[1] and asg.get("self.data") == init.params()[2], "invitem-fields", ctx.where(init), "InvItem.__init__ does not store (item_type, data) unchanged: %s" % asg)
    # PeerAddress
    s = ctx.func(PEER, "PeerAddress.stream")
    tr = ct.write_trace(s.node, "f")
    got = [(i.kind, i.fmt, i.value) for i in tr]
    ctx.check(got == [("struct", "<Q", "self.services"), ("raw", None, "self.ip_bin"), ("struct", "!H", "self.port")], "peeraddress-stream", ctx.where(s), "PeerAddress.stream writes %s; wire format: services u64le, 16-byte address, port u16be" % got,
              sample={"trace": [repr(i) for i in tr]})
    p = ctx.func(PEER, "PeerAddress.parse")
    ps = ct.parse_struct_calls(p.node)
    t = norm(p.node)
    ctx.check(len(ps) == 1 and ps[0][0] == "Q@h" and "services, ip_bin, port = parse_struct('Q@h', f)" in t and "return cls(services, ip_bin, port)" in t, "peeraddress-parse", ctx.where(p), "PeerAddress.parse is not Q@h -> (services, ip_bin, port)")
    init = ctx.func(PEER, "PeerAddress.__init__")
    t = norm(init.node)
    ctx.check("if len(ip_bin) == 4:" in t and "ip_bin = IP4_HEADER + ip_bin" in t and "self.port = port" in t and "self.ip_bin = ip_bin" in t, "peeraddress-fields", ctx.where(init), "PeerAddress.__init__ does not normalise IPv4 to the mapped 16-byte form / store the fields")
    v = ru.eval_in_module(ctx, init.module, ast.parse("IP4_HEADER", mode="eval").body)
    ctx.check(v == bytes.fromhex("00000000000000000000ffff"), "ipv4-mapped-prefix", ctx.where(init), "IP4_HEADER is %r" % (v,))


OBLIGATIONS = [
    Ob("C16.1", "every message layout equals the wire layout; every type letter has a codec", c16_1, floor=100, engines="TB,REG", exhaustive=True,
       breaks_if="any of the 28 layouts (e.g. getblocktxn indices >= 253)"),
    Ob("C16.2", "codec pairs: one wire type per letter, struct argument order, 6-byte and optional-bool codecs", c16_2, floor=14, engines="CT,TY", breaks_if="cmpctblock short ids; version(relay=False)"),
    Ob("C16.3", "arrays pack as count + splatted tuples and parse as count + sub-layout", c16_3, floor=5, engines="CT"),
    Ob("C16.4", "InvItem and PeerAddress stream/parse symmetrically and store fields unchanged", c16_4, floor=7, engines="CT,DF", breaks_if="inventory types with the witness flag; IPv4 peers"),
]
