"""C02 - elliptic-curve group law: structural obligations (DESIGN.md section 4, C02)."""
from __future__ import annotations

import ast

from sa.core import Ob
from sa.pm import AnalysisError, norm, body_nodes
from sa import gi, df, ru
from sa.gi import GuardWalker
from sa.cfg import stmt_paths, struct_dominates

CURVE = "pycoin/ecdsa/Curve.py"
POINT = "pycoin/ecdsa/Point.py"
GEN = "pycoin/ecdsa/Generator.py"
OSSL = "pycoin/ecdsa/native/openssl.py"
SECP = "pycoin/ecdsa/native/secp256k1.py"


def _sat(f):
    from rules.C01 import can_be
    return can_be(f, "\0")


def _native_methods(ctx, rel):
    m = ctx.p.module(rel)
    out = {}
    for n in ast.walk(m.tree):
        if isinstance(n, ast.ClassDef) and n.name == "Optimizations":
            for b in n.body:
                if isinstance(b, ast.FunctionDef):
                    out[b.name] = b
    return m, out


# ------------------------------------------------------------------ C02.1
def c02_1(ctx):
    init = ctx.func(POINT, "Point.__init__")
    body = [norm(s) for s in init.node.body]
    ctx.check("self.check_on_curve()" in body and not any(isinstance(s, (ast.If, ast.Try)) for s in init.node.body), "constructor-checks-curve", ctx.where(init), "Point.__init__ does not call check_on_curve unconditionally")
    ck = ctx.func(POINT, "Point.check_on_curve")
    w = GuardWalker(ru.opaque)
    ex = w.run(ck.node.body)
    rs = [e for e in ex if ru.is_raise_of("NoSuchPointError")(e)]
    ctx.check(len(rs) == 1 and gi.f_equiv(rs[0].cond, ("not", ("op", "self._curve.contains_point(*self)"))), "off-curve-raises", ctx.where(ck), "check_on_curve does not raise NoSuchPointError exactly when contains_point is false")
    cp = ctx.func(CURVE, "Curve.contains_point")
    rets = [r for r in df.returns_of(cp.node) if not (isinstance(r.value, ast.Constant))]
    ok = len(rets) == 1 and norm(rets[0].value) in ("(y * y - (x * x * x + self._a * x + self._b)) % self._p == 0", "(y * y - (x ** 3 + self._a * x + self._b)) % self._p == 0")
    ctx.check(ok, "curve-equation", ctx.where(cp), "contains_point is `%s`, expected y^2 - (x^3 + a*x + b) == 0 (mod p)" % (norm(rets[0].value) if rets else None), sample={"equation": norm(rets[0].value) if rets else None})
    ctx.check("if x is None and y is None:" in norm(cp.node), "infinity-on-curve", ctx.where(cp), "contains_point does not accept the point at infinity")
    nw = ctx.func(POINT, "Point.__new__")
    # every value returned by the point-producing functions is a parameter, infinity, a constructor call or the result of another such function
    producers = [(CURVE, "Curve.add"), (CURVE, "Curve.multiply"), (GEN, "Generator.raw_mul"), (GEN, "Generator.__mul__"), (GEN, "Generator.__rmul__"), (POINT, "Point.__neg__"),
                 (POINT, "Point.__add__"), (POINT, "Point.__sub__"), (POINT, "Point.__mul__"), (POINT, "Point.__rmul__"), (GEN, "Generator.points_for_x"), (CURVE, "Curve.Point")]
    funcs = [(ctx.func(r, n), None) for r, n in producers]
    for rel in (OSSL, SECP):
        m, meths = _native_methods(ctx, rel)
        for nm in ("multiply", "raw_mul", "__mul__"):
            if nm in meths:
                funcs.append((None, (m, meths[nm])))
    ok_calls = {"self.Point", "Point", "self.__class__", "self._curve.add", "self._curve.multiply", "self.raw_mul", "self.multiply", "self.__mul__", "self.infinity", "self._curve.infinity"}
    for fi, nat in funcs:
        node = fi.node if fi is not None else nat[1]
        name = fi.qualname if fi is not None else "%s.Optimizations.%s" % (nat[0].name, nat[1].name)
        where = ctx.where(fi) if fi is not None else "%s:%d" % (nat[0].relpath, nat[1].lineno)
        params = {a.arg for a in node.args.args}
        defs = df.assignments(node)
        for r in [n for n in body_nodes(node) if isinstance(n, ast.Return)]:
            if nat is not None and nat[0].relpath == SECP and isinstance(r.value, ast.Constant) and r.value.value is False and norm(ru.enclosing_test(node, r) or ast.Constant(0)) == "not r":
                ctx.note("tabulated: secp256k1 multiply returns False after a failed pubkey_parse of an already validated Point (unreachable)")
                continue
            ctx.check(_point_valued(r.value, params, defs, ok_calls, 0), "returns-checked-point:%s:%s" % (name.split(".")[-2] + "." + name.split(".")[-1], norm(r.value)[:40]), where,
                      "%s returns `%s`, which is neither a parameter, infinity, a Point constructor call (on-curve checked) nor the result of another group operation: results may lie off the curve"
                      % (name, norm(r.value)[:80]), what="%s:%s" % (name, norm(r.value)[:50]), sample={"function": name, "returns": norm(r.value)[:80]} if "add" in name else None)
    t = norm(nw.node)
    ctx.check("return tuple.__new__(cls, (x, y))" in t, "point-new", ctx.where(nw), "Point.__new__ is not a plain 2-tuple")
    cpt = ctx.func(CURVE, "Curve.Point")
    ctx.check("return Point(x, y, self)" in norm(cpt.node), "curve-point-factory", ctx.where(cpt), "Curve.Point does not construct a checked Point on this curve")


def _point_valued(e, params, defs, ok_calls, depth, seen=frozenset()):
    if depth > 12 or e is None:
        return False
    if isinstance(e, ast.Name):
        if e.id in params or e.id in seen:
            return True      # coinductive: a name defined in terms of itself is fine if every other definition is
        seen = seen | {e.id}
        ds = defs.get(e.id, [])
        if not ds:
            return e.id in ("infinity",)
        for v, st in ds:
            if isinstance(v, ast.AST):
                if not _point_valued(v, params, defs, ok_calls, depth + 1, seen):
                    return False
            elif isinstance(v, tuple) and v[0] in ("unpack", "loop") and isinstance(v[1], ast.AST):
                if not _point_valued(v[1], params, defs, ok_calls, depth + 1, seen):
                    return False
            elif isinstance(v, tuple) and v[0] == "aug":
                if not _point_valued(v[2], params, defs, ok_calls, depth + 1, seen):
                    return False
            else:
                return False
        return True
    if isinstance(e, ast.Attribute):
        return norm(e) in ("self._infinity", "self._minus_blinding_factor_g")
    if isinstance(e, ast.Call):
        fn = df.dotted(e.func) or ""
        if fn in ok_calls:
            return True
        if fn in ("cast",) and len(e.args) == 2:
            return _point_valued(e.args[1], params, defs, ok_calls, depth + 1, seen)
        return False
    if isinstance(e, ast.BinOp) and isinstance(e.op, (ast.Add, ast.Sub, ast.Mult)):
        return _point_valued(e.left, params, defs, ok_calls, depth + 1, seen) or _point_valued(e.right, params, defs, ok_calls, depth + 1, seen)
    if isinstance(e, ast.UnaryOp) and isinstance(e.op, ast.USub):
        return _point_valued(e.operand, params, defs, ok_calls, depth + 1, seen)
    if isinstance(e, (ast.Tuple, ast.List)):
        return all(_point_valued(x, params, defs, ok_calls, depth + 1, seen) for x in e.elts)
    if isinstance(e, ast.ListComp):
        return _point_valued(e.elt, params | {n.id for g in e.generators for n in ast.walk(g.target) if isinstance(n, ast.Name)}, defs, ok_calls, depth + 1)
    if isinstance(e, ast.Subscript):
        return _point_valued(e.value, params, defs, ok_calls, depth + 1, seen)
    if isinstance(e, ast.Constant):
        return False
    return False


# ------------------------------------------------------------------ C02.2
def c02_2(ctx):
    f = ctx.func(CURVE, "Curve.add")
    coords = {"x0", "y0", "x1", "y1"}
    n = 0
    for c in [x for x in body_nodes(f.node) if isinstance(x, ast.Compare)]:
        names = df.names_in(c)
        if not (names & coords):
            continue
        if any(isinstance(k, ast.Constant) and k.value is None for k in c.comparators):
            continue
        n += 1
        ok = len(c.ops) == 1 and isinstance(c.ops[0], ast.Eq) and df.const_int(c.comparators[0]) == 0 and isinstance(c.left, ast.BinOp) and isinstance(c.left.op, ast.Mod) and norm(c.left.right) in ("p", "self._p")
        ctx.check(ok, "modular-coordinate-test:%s" % norm(c), ctx.where(f, c),
                  "Curve.add compares coordinates with `%s`; points may carry unreduced coordinates (the constructor accepts y and y + p alike), so P = -Q / P = Q must be decided modulo p: (x0 - x1) %% p == 0 and (y0 + y1) %% p == 0" % norm(c),
                  what="cmp:%s" % norm(c), sample={"comparison": norm(c)})
    ctx.check(n == 2, "two-case-tests", ctx.where(f), "Curve.add has %d coordinate comparisons, expected the x-equality and the y-opposite tests" % n)
    w = GuardWalker(ru.opaque)
    ex = w.run(f.node.body)
    inf = [e for e in ex if e.kind == "return" and norm(e.value) in ("infinity", "self._infinity")]
    ok = len(inf) == 1 and {"(x0 - x1) % p == 0", "(y0 + y1) % p == 0"} <= set(gi.f_opaques(inf[0].cond)) and not _sat(gi.f_and(inf[0].cond, ("not", ("op", "(y0 + y1) % p == 0"))))
    ctx.check(ok, "inverse-gives-infinity", ctx.where(f), "P + (-P) does not return infinity exactly when x0 = x1 and y0 = -y1 (mod p)")
    sl = {}
    for st, r in w.visits:
        if isinstance(st, ast.Assign) and norm(st.targets[0]) == "slope":
            sl[norm(st.value)] = r
    dbl = "(3 * x0 * x0 + self._a) * self.inverse_mod(2 * y0, p) % p"
    chd = "(y1 - y0) * self.inverse_mod(x1 - x0, p) % p"
    ctx.check(set(sl) == {dbl, chd}, "slopes", ctx.where(f), "the tangent / chord slopes are %s" % sorted(sl), sample={"slopes": sorted(sl)})
    if set(sl) == {dbl, chd}:
        ctx.check(not _sat(gi.f_and(sl[dbl], ("not", ("op", "(x0 - x1) % p == 0")))) and not _sat(gi.f_and(sl[chd], ("op", "(x0 - x1) % p == 0"))), "slope-cases", ctx.where(f), "the tangent slope is not used exactly for P = Q and the chord slope for x0 != x1")
    t = norm(f.node)
    ctx.check("x3 = (slope * slope - x0 - x1) % p" in t and "y3 = (slope * (x0 - x3) - y0) % p" in t and "return self.Point(x3, y3)" in t, "sum-coordinates", ctx.where(f), "the sum is not (s^2 - x0 - x1, s(x0 - x3) - y0) mod p")
    p0, p1 = f.params()[1:3]
    ids = [e for e in ex if e.kind == "return" and norm(e.value) in (p0, p1)]
    ok = len(ids) == 2 and any(norm(e.value) == p1 and gi.f_equiv(e.cond, ("op", "%s == infinity" % p0)) for e in ids) and any(norm(e.value) == p0 and "%s == infinity" % p1 in gi.f_opaques(e.cond) for e in ids)
    ctx.check(ok, "identity-cases", ctx.where(f), "infinity is not handled as the identity before the coordinates are unpacked")
    im = ctx.func(CURVE, "Curve.inverse_mod")
    t = norm(im.node)
    ctx.check("if a < 0 or m <= a:" in t and "a = a % m" in t and "q, c, d = divmod(d, c) + (c,)" in t and "uc, vc, ud, vd = (ud - q * uc, vd - q * vc, uc, vc)" in t and "assert d == 1" in t and "return ud + m" in t, "inverse-mod", ctx.where(im),
              "inverse_mod is not the extended Euclid inverse reduced into (0, m)")


# ------------------------------------------------------------------ C02.3
def c02_3(ctx):
    impls = []
    f = ctx.func(CURVE, "Curve.multiply")
    impls.append(("Curve.multiply", f.node, ctx.where(f), "self._order", f.params()[1], f.params()[2]))
    for rel in (OSSL, SECP):
        m, meths = _native_methods(ctx, rel)
        if "multiply" in meths:
            nd = meths["multiply"]
            a = [x.arg for x in nd.args.args]
            impls.append(("%s.Optimizations.multiply" % m.name.split(".")[-1], nd, "%s:%d" % (m.relpath, nd.lineno), None, a[1], a[2]))
    g = ctx.func(GEN, "Generator.raw_mul")
    for name, node, where, order_t, pname, ename in impls + [("Generator.raw_mul", g.node, ctx.where(g), "self._order", None, g.params()[1])]:
        w = GuardWalker(ru.opaque)
        w.run(node.body)
        red = [(st, r) for st, r in w.visits if isinstance(st, ast.AugAssign) and norm(st.target) == ename and isinstance(st.op, ast.Mod)]
        ok = len(red) == 1 and norm(red[0][0].value) in ("self._order", "self.order()")
        if ok:
            r = red[0][1]
            ok = r is True or set(gi.f_opaques(r)) <= {"self._order", "self._order is not None"}
        ctx.check(ok, "scalar-reduced-unconditionally:%s" % name, where,
                  "%s reduces the scalar by %s under condition %s; every scalar (negative, >= order, >= 2*order) must be reduced modulo the group order before it is used" % (name, [norm(s) for s, r in red], [repr(r)[:80] for s, r in red]),
                  sample={"function": name, "reduction": [norm(s) for s, r in red], "condition": [repr(r)[:80] for s, r in red]})
        if pname is None:
            continue
        paths = stmt_paths(node)
        early = [n for n in body_nodes(node) if isinstance(n, ast.If) and "%s == 0" % ename in norm(n.test) and any(isinstance(s, ast.Return) and norm(s.value) == "self._infinity" for s in n.body)]
        ok = len(early) == 1 and len(red) == 1
        if ok:
            anchor = red[0][0]
            holder = [n for n in node.body if any(x is anchor for x in ast.walk(n))][0]
            ok = struct_dominates(paths, holder, early[0]) and ("%s == self._infinity" % pname in norm(early[0].test))
        ctx.check(ok, "zero-test-after-reduction:%s" % name, where,
                  "%s tests `e == 0 or p == infinity` before the scalar has been reduced modulo the order: multiples of the order (n, -n, 2n) are not recognised as zero and reach the coordinate arithmetic" % name,
                  sample={"function": name})
        # coordinates of p used only after the infinity test
        uses = [n for n in body_nodes(node) if isinstance(n, ast.Subscript) and norm(n.value) == pname]
        if uses and early:
            first_use = min(u.lineno for u in uses)
            ctx.check(first_use > early[0].lineno, "coordinates-after-infinity-test:%s" % name, where, "%s reads the coordinates of p before testing for infinity" % name)
    t = norm(f.node)
    ctx.check("e3 = 3 * e" in t and "i = _leftmost_bit(e3) >> 1" in t and "result += result" in t and "v = [result, result + p]" in t and "v = [result - p, result]" in t and "result = v[0 if e & i else 1]" in t and "while i > 1:" in t, "ladder-shape", ctx.where(f),
              "Curve.multiply is not the (e, 3e) signed-digit double-and-add ladder")
    t = norm(g.node)
    ctx.check("P = self._infinity" in t and "for bit in range(256):" in t and "a = [P, P + self._powers[bit]]" in t and "P = a[e & 1]" in t and "e >>= 1" in t, "fixed-base-shape", ctx.where(g), "Generator.raw_mul is not the 256-entry fixed-base table walk")
    gi_ = ctx.func(GEN, "Generator.__init__")
    t = norm(gi_.node)
    ctx.check("for _ in range(256):" in t and "self._powers.append(Gp)" in t and "Gp += Gp" in t, "power-table", ctx.where(gi_), "the table of 2^i * G is not built by 256 doublings")


# ------------------------------------------------------------------ C02.4
def _lin(e):
    """linear form {name: coef} of an expression over + - unary-"""
    if isinstance(e, ast.BinOp) and isinstance(e.op, (ast.Add, ast.Sub)):
        a, b = _lin(e.left), _lin(e.right)
        if a is None or b is None:
            return None
        out = dict(a)
        for k, v in b.items():
            out[k] = out.get(k, 0) + (v if isinstance(e.op, ast.Add) else -v)
        return out
    if isinstance(e, ast.UnaryOp) and isinstance(e.op, ast.USub):
        a = _lin(e.operand)
        return None if a is None else {k: -v for k, v in a.items()}
    if isinstance(e, (ast.Name, ast.Attribute)):
        return {norm(e): 1}
    return None


def c02_4(ctx):
    f = ctx.func(GEN, "Generator.__mul__")
    e_ = f.params()[1]
    rets = df.returns_of(f.node)
    ok = False
    total = None
    if len(rets) == 1 and isinstance(rets[0].value, ast.BinOp) and isinstance(rets[0].value.op, ast.Add):
        terms = df.flatten_add(rets[0].value)
        init = ctx.func(GEN, "Generator.__init__")
        idefs = {norm(st.targets[0]): st.value for st in body_nodes(init.node) if isinstance(st, ast.Assign)}
        total = {}
        ok = True
        for t in terms:
            if isinstance(t, ast.Attribute) and norm(t) in idefs:
                t = idefs[norm(t)]
            if isinstance(t, ast.Call) and norm(t.func) == "self.raw_mul" and len(t.args) == 1:
                l = _lin(t.args[0])
                if l is None:
                    ok = False
                    break
                for k, v in l.items():
                    total[k] = total.get(k, 0) + v
            else:
                ok = False
        total = {k: v for k, v in (total or {}).items() if v != 0}
        ok = ok and total == {e_: 1}
    ctx.check(ok, "blinding-cancels", ctx.where(f), "Generator.__mul__ computes the sum of fixed-base multiples with scalar coefficients %s; the blinding offsets must cancel leaving exactly 1*e" % total,
              sample={"function": f.qualname, "net_scalar": total})
    init = ctx.func(GEN, "Generator.__init__")
    t = norm(init.node)
    ctx.check("self._blinding_factor = int.from_bytes(entropy_f(32), 'big') % order" in t and "self._minus_blinding_factor_g = self.raw_mul(-self._blinding_factor)" in t, "blinding-setup", ctx.where(init), "the blinding factor is not fresh entropy mod order with its negative multiple cached once")
    stores = [(m.name, norm(st)) for m in ctx.p.cls(GEN, "Generator").methods.values() if m.name != "__init__" for st in body_nodes(m.node)
              if isinstance(st, (ast.Assign, ast.AugAssign)) and "_blinding_factor" in norm(st.targets[0] if isinstance(st, ast.Assign) else st.target)]
    ctx.check(not stores, "blinding-immutable", ctx.where(init), "the blinding factor is reassigned outside __init__: %s" % stores)
    r = ctx.func(GEN, "Generator.__rmul__")
    ctx.check("return self.__mul__(e)" in norm(r.node), "rmul", ctx.where(r), "__rmul__ does not delegate to __mul__")


# ------------------------------------------------------------------ C02.5
def c02_5(ctx):
    init = ctx.func(GEN, "Generator.__init__")
    t = norm(init.node)
    ctx.check("assert p % 4 == 3" in t and "self._mod_sqrt_power = (p + 1) // 4" in t, "sqrt-exponent", ctx.where(init), "the square-root exponent is not (p+1)/4 under the assertion p % 4 == 3")
    ms = ctx.func(GEN, "Generator.modular_sqrt")
    ctx.check("return pow(a, self._mod_sqrt_power, self._p)" in norm(ms.node), "modular-sqrt", ctx.where(ms), "modular_sqrt is not a^((p+1)/4) mod p")
    f = ctx.func(GEN, "Generator.points_for_x")
    x_ = f.params()[1]
    d = df.single_defs(f.node)
    al = d.get("alpha")
    ctx.check(al is not None and norm(df.expand(al, {"p": d.get("p")} if "p" in d else {})) in ("(pow(%s, 3, self._p) + self._a * %s + self._b) %% self._p" % (x_, x_),), "curve-rhs", ctx.where(f), "alpha is `%s`, expected x^3 + a*x + b mod p" % (norm(al) if al is not None else None))
    w = GuardWalker(gi.SymbolicAtomizer(ru.subject({"y0 & 1"}), df.const_int))
    ex = w.run(f.node.body)
    rets = {norm(e.value): gi.sat_set(e.cond, gi.IntSet.all(), gi.IntSet.empty()) for e in ex if e.kind == "return"}
    ok = rets.get("(p0, p1)") == gi.iv(0, 0) and "(p1, p0)" in rets
    t = norm(f.node)
    ok = ok and "p0, p1 = [self.Point(%s, _) for _ in (y0, p - y0)]" % x_ in t
    ctx.check(ok, "even-first", ctx.where(f), "points_for_x does not return (point with y0, point with p - y0) ordered even y first: %s" % {k: v.fmt() for k, v in rets.items()}, sample={"returns": {k: v.fmt() for k, v in rets.items()}})
    rs = [e for e in ex if e.kind == "raise"]
    ctx.check(len(rs) == 1 and "y0 == 0" in gi.f_opaques(rs[0].cond) and "ValueError" in norm(rs[0].value), "no-point-signalled", ctx.where(f), "points_for_x does not signal `no point` by ValueError")


# ------------------------------------------------------------------ C02.6
def c02_6(ctx):
    n = ctx.func(POINT, "Point.__neg__")
    w = GuardWalker(ru.opaque)
    ex = w.run(n.node.body)
    calc = [e for e in ex if e.kind == "return" and "self._curve.p() - self[1]" in norm(e.value)]
    ok = len(calc) == 1 and any(o in ("self[1] is None", "self[0] is None", "self == self._curve.infinity()", "self == self._curve._infinity") for o in gi.f_opaques(calc[0].cond)) and \
        not any(_sat(gi.f_and(calc[0].cond, ("op", o))) for o in gi.f_opaques(calc[0].cond) if "None" in o or "infinity" in o)
    ctx.check(ok, "negate-infinity", ctx.where(n), "Point.__neg__ computes p - y without first testing for the point at infinity (y is None): -infinity and P - infinity raise TypeError", sample={"function": n.qualname})
    ident = [e for e in ex if e.kind == "return" and norm(e.value) == "self"]
    ctx.check(len(ident) == 1, "negate-infinity-is-infinity", ctx.where(n), "-infinity is not infinity")
    ctx.check(any("self.__class__(self[0], self._curve.p() - self[1], self._curve)" == norm(e.value) for e in calc), "negation-formula", ctx.where(n), "-P is not (x, p - y) constructed through the checked constructor")
    s = ctx.func(POINT, "Point.__sub__")
    ctx.check("return self._curve.add(self, -other)" in norm(s.node), "subtraction", ctx.where(s), "P - Q is not P + (-Q)")
    a = ctx.func(CURVE, "Curve.add")
    unp = [st for st in a.node.body if isinstance(st, ast.Assign) and isinstance(st.targets[0], ast.Tuple) and norm(st.value) in a.params()]
    tests = [st for st in a.node.body if isinstance(st, ast.If) and "infinity" in norm(st.test)]
    ok = len(unp) == 2 and len(tests) == 2 and max(t.lineno for t in tests) < min(u.lineno for u in unp)
    ctx.check(ok, "add-infinity-before-unpack", ctx.where(a), "Curve.add unpacks coordinates before the infinity tests")


OBLIGATIONS = [
    Ob("C02.1", "every returned point is built through the on-curve-checking constructor (or is a parameter / infinity)", c02_1, floor=20, engines="CFG,CG,DF"),
    Ob("C02.2", "Curve.add decides P = Q / P = -Q modulo p; slopes; identity cases", c02_2, floor=8, engines="GI,DF", breaks_if="points with unreduced coordinates (x, -y), (x, 2p - y)"),
    Ob("C02.3", "all multiply implementations reduce the scalar unconditionally before the zero / infinity test", c02_3, floor=8, engines="SIB,CFG", breaks_if="scalars n, -n, 2n; blinded scalars >= 2^256"),
    Ob("C02.4", "blinding offsets cancel (linear form of the fixed-base scalars)", c02_4, floor=4, engines="LIN"),
    Ob("C02.5", "square root exponent (p+1)/4; points_for_x returns the even root first", c02_5, floor=5, engines="GI,DF"),
    Ob("C02.6", "infinity is tested before any coordinate arithmetic (negation, subtraction, addition)", c02_6, floor=5, engines="NUL,CFG", breaks_if="-infinity, P - infinity"),
]
