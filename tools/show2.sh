#!/bin/bash
# show2.sh Cxx k : print the round-2 patch and what the check says on it
d=/tmp/seed2/$1/out/$2; [ -d $d ] || d=/verif/seeded/$1-$2
cat $d/patch.diff | grep -E "^[-+@]" | grep -vE "^(\+\+\+|---)" | cut -c1-170
td=$(mktemp -d /tmp/vs-XXXXXX); cp -r /repo/pycoin $td/pycoin; (cd $td && patch -p1 -s --no-backup-if-mismatch -i $d/patch.diff)
cd /verif; VERIF_REPO=$td ./check $1 --no-evidence 2>&1 | grep -E "^VIOLATED|ANALYSIS-ERROR" | cut -c1-${3:-330}; rm -rf $td
