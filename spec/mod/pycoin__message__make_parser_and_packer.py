"""Transcription of every function of pycoin/message/make_parser_and_packer.py as of the reviewed tree (see DESIGN.md section 12).
NEVER IMPORTED OR EXECUTED: parsed and compared in canonical form (sa/sym.py) with the functions in /repo."""


_CONSTS = {

}


# pycoin/message/make_parser_and_packer.py :: standard_messages
def q__standard_messages():
    return dict(STANDARD_P2P_MESSAGES)


# pycoin/message/make_parser_and_packer.py :: _recurse
def q___recurse(level_widths, level_index, node_index, hashes, flags, flag_index, tx_acc):
    idx, r = divmod(flag_index, 8)
    mask = 1 << r
    flag_index += 1
    if flags[idx] & mask == 0:
        h = hashes.pop()
        return (h, flag_index)
    if level_index == len(level_widths) - 1:
        h = hashes.pop()
        tx_acc.append(h)
        return (h, flag_index)
    left_hash, flag_index = _recurse(level_widths, level_index + 1, node_index * 2, hashes, flags, flag_index, tx_acc)
    if node_index * 2 + 1 < level_widths[level_index + 1]:
        right_hash, flag_index = _recurse(level_widths, level_index + 1, node_index * 2 + 1, hashes, flags, flag_index, tx_acc)
        if left_hash == right_hash:
            raise ValueError()
    else:
        right_hash = left_hash
    return (double_sha256(left_hash + right_hash), flag_index)


# pycoin/message/make_parser_and_packer.py :: post_unpack_merkleblock
def q__post_unpack_merkleblock(d, f):
    level_widths = []
    count = d['total_transactions']
    while count > 1:
        level_widths.append(count)
        count += 1
        count //= 2
    level_widths.append(1)
    level_widths.reverse()
    tx_acc = []
    flags = d['flags']
    hashes = list(reversed(d['hashes']))
    left_hash, flag_index = _recurse(level_widths, 0, 0, hashes, flags, 0, tx_acc)
    if len(hashes) > 0:
        raise ValueError()
    idx, r = divmod(flag_index - 1, 8)
    if idx != len(flags) - 1:
        raise ValueError()
    if flags[idx] > (1 << r + 1) - 1:
        raise ValueError()
    if left_hash != d['header'].merkle_root:
        raise ValueError()
    d['tx_hashes'] = tx_acc
    return d


# pycoin/message/make_parser_and_packer.py :: _make_parser
def q___make_parser(streamer, the_struct):
    struct_items = [s.split(':') for s in the_struct.split()]
    names = [s[0] for s in struct_items]
    types = ''.join((s[1] for s in struct_items))

    def f(message_stream):
        return streamer.parse_as_dict(names, types, message_stream)
    return f


# pycoin/message/make_parser_and_packer.py :: _make_parser.f
def q___make_parser__f(message_stream):
    return streamer.parse_as_dict(names, types, message_stream)


# pycoin/message/make_parser_and_packer.py :: make_post_unpack_alert
def q__make_post_unpack_alert(streamer):
    the_struct = 'version:L relayUntil:Q expiration:Q id:L cancel:L setCancel:[L] minVer:L maxVer:L setSubVer:[S] priority:L comment:S statusBar:S reserved:S'
    alert_submessage_parser = _make_parser(streamer, the_struct)

    def post_unpack_alert(d, f):
        d1 = alert_submessage_parser(io.BytesIO(d['payload']))
        d['alert_info'] = d1
        return d
    return post_unpack_alert


# pycoin/message/make_parser_and_packer.py :: make_post_unpack_alert.post_unpack_alert
def q__make_post_unpack_alert__post_unpack_alert(d, f):
    d1 = alert_submessage_parser(io.BytesIO(d['payload']))
    d['alert_info'] = d1
    return d


# pycoin/message/make_parser_and_packer.py :: standard_parsing_functions
def q__standard_parsing_functions(Block, Tx):

    def stream_block(f, block):
        assert isinstance(block, Block)
        block.stream(f)

    def stream_blockheader(f, blockheader):
        assert isinstance(blockheader, Block)
        blockheader.stream_header(f)

    def stream_tx(f, tx):
        assert isinstance(tx, Tx)
        tx.stream(f)

    def parse_int_6(f):
        b = f.read(6) + b'\x00\x00'
        return struct.unpack('<Q', b)[0]

    def stream_int_6(f, v):
        f.write(struct.pack('<Q', v)[:6])

    def parse_optional_bool(f):
        b = f.read(1)
        if len(b) == 0:
            return None
        return bool(struct.unpack('B', b)[0])
    more_parsing = [('A', (PeerAddress.parse, lambda f, peer_addr: peer_addr.stream(f))), ('v', (InvItem.parse, lambda f, inv_item: inv_item.stream(f))), ('T', (Tx.parse, stream_tx)), ('B', (Block.parse, stream_block)), ('z', (Block.parse_as_header, stream_blockheader)), ('1', (lambda f: struct.unpack('B', f.read(1))[0], lambda f, v: f.write(struct.pack('B', v)))), ('6', (parse_int_6, stream_int_6)), ('O', (parse_optional_bool, lambda f, v: f.write(b'' if v is None else struct.pack('B', v))))]
    all_items = list(STREAMER_FUNCTIONS.items())
    all_items.extend(more_parsing)
    return all_items


# pycoin/message/make_parser_and_packer.py :: standard_parsing_functions.stream_block
def q__standard_parsing_functions__stream_block(f, block):
    assert isinstance(block, Block)
    block.stream(f)


# pycoin/message/make_parser_and_packer.py :: standard_parsing_functions.stream_blockheader
def q__standard_parsing_functions__stream_blockheader(f, blockheader):
    assert isinstance(blockheader, Block)
    blockheader.stream_header(f)


# pycoin/message/make_parser_and_packer.py :: standard_parsing_functions.stream_tx
def q__standard_parsing_functions__stream_tx(f, tx):
    assert isinstance(tx, Tx)
    tx.stream(f)


# pycoin/message/make_parser_and_packer.py :: standard_parsing_functions.parse_int_6
def q__standard_parsing_functions__parse_int_6(f):
    b = f.read(6) + b'\x00\x00'
    return struct.unpack('<Q', b)[0]


# pycoin/message/make_parser_and_packer.py :: standard_parsing_functions.stream_int_6
def q__standard_parsing_functions__stream_int_6(f, v):
    f.write(struct.pack('<Q', v)[:6])


# pycoin/message/make_parser_and_packer.py :: standard_parsing_functions.parse_optional_bool
def q__standard_parsing_functions__parse_optional_bool(f):
    b = f.read(1)
    if len(b) == 0:
        return None
    return bool(struct.unpack('B', b)[0])


# pycoin/message/make_parser_and_packer.py :: standard_streamer
def q__standard_streamer(parsing_functions, parse_satoshi_int=parse_satoshi_int):
    streamer = Streamer()
    streamer.register_array_count_parse(parse_satoshi_int)
    streamer.register_functions(parsing_functions)
    return streamer


# pycoin/message/make_parser_and_packer.py :: standard_message_post_unpacks
def q__standard_message_post_unpacks(streamer):
    return dict(alert=make_post_unpack_alert(streamer), merkleblock=post_unpack_merkleblock)


# pycoin/message/make_parser_and_packer.py :: make_parser_and_packer
def q__make_parser_and_packer(streamer, message_dict, message_post_unpacks):
    message_parsers = dict(((k, _make_parser(streamer, v)) for k, v in message_dict.items()))

    def parse_from_data(message_name, data):
        message_stream = io.BytesIO(data)
        parser = message_parsers.get(message_name)
        if parser is None:
            raise KeyError()
        d = parser(message_stream)
        post_unpack = message_post_unpacks.get(message_name)
        if post_unpack:
            d = post_unpack(d, message_stream)
        return d

    def pack_from_data(message_name, **kwargs):
        the_struct = message_dict[message_name]
        if not the_struct:
            return b''
        f = io.BytesIO()
        the_fields = the_struct.split(' ')
        pairs = [t.split(':') for t in the_fields]
        for name, type in pairs:
            if type[0] == '[':
                streamer.stream_struct('I', f, len(kwargs[name]))
                for v in kwargs[name]:
                    if not isinstance(v, (tuple, list)):
                        v = [v]
                    streamer.stream_struct(type[1:-1], f, *v)
            else:
                streamer.stream_struct(type, f, kwargs[name])
        return f.getvalue()
    return (parse_from_data, pack_from_data)


# pycoin/message/make_parser_and_packer.py :: make_parser_and_packer.parse_from_data
def q__make_parser_and_packer__parse_from_data(message_name, data):
    message_stream = io.BytesIO(data)
    parser = message_parsers.get(message_name)
    if parser is None:
        raise KeyError()
    d = parser(message_stream)
    post_unpack = message_post_unpacks.get(message_name)
    if post_unpack:
        d = post_unpack(d, message_stream)
    return d


# pycoin/message/make_parser_and_packer.py :: make_parser_and_packer.pack_from_data
def q__make_parser_and_packer__pack_from_data(message_name, **kwargs):
    the_struct = message_dict[message_name]
    if not the_struct:
        return b''
    f = io.BytesIO()
    the_fields = the_struct.split(' ')
    pairs = [t.split(':') for t in the_fields]
    for name, type in pairs:
        if type[0] == '[':
            streamer.stream_struct('I', f, len(kwargs[name]))
            for v in kwargs[name]:
                if not isinstance(v, (tuple, list)):
                    v = [v]
                streamer.stream_struct(type[1:-1], f, *v)
        else:
            streamer.stream_struct(type, f, kwargs[name])
    return f.getvalue()
