"""Transcription of every function of pycoin/satoshi/intops.py as of the reviewed tree (see DESIGN.md section 12).
NEVER IMPORTED OR EXECUTED: parsed and compared in canonical form (sa/sym.py) with the functions in /repo."""


_CONSTS = {
    'errno.EQUALVERIFY': 11,
    'errno.INVALID_STACK_OPERATION': 17,
    'errno.UNKNOWN_ERROR': 1,
    'errno.VERIFY': 10,
}


# pycoin/satoshi/intops.py :: do_OP_VERIFY
def q__do_OP_VERIFY(vm):
    v = vm.bool_from_script_bytes(vm.pop())
    if not v:
        raise ScriptError()


# pycoin/satoshi/intops.py :: do_OP_DEPTH
def q__do_OP_DEPTH(vm):
    vm.push_int(len(vm.stack))


# pycoin/satoshi/intops.py :: do_OP_PICK
def q__do_OP_PICK(vm):
    v = pop_check_bounds(vm)
    if v < 0:
        raise ScriptError()
    vm.append(vm[-v - 1])


# pycoin/satoshi/intops.py :: do_OP_ROLL
def q__do_OP_ROLL(vm):
    v = pop_check_bounds(vm)
    if v < 0:
        raise ScriptError()
    vm.append(vm.pop(-v - 1))


# pycoin/satoshi/intops.py :: do_OP_SUBSTR
def q__do_OP_SUBSTR(vm):
    pos = vm.pop_nonnegative()
    length = vm.pop_nonnegative()
    vm.append(vm.pop()[length:length + pos])


# pycoin/satoshi/intops.py :: do_OP_LEFT
def q__do_OP_LEFT(vm):
    pos = vm.pop_nonnegative()
    vm.append(vm.pop()[:pos])


# pycoin/satoshi/intops.py :: do_OP_RIGHT
def q__do_OP_RIGHT(vm):
    pos = vm.pop_nonnegative()
    if pos > 0:
        vm.append(vm.pop()[-pos:])
    else:
        vm.pop()
        vm.append(b'')


# pycoin/satoshi/intops.py :: do_OP_SIZE
def q__do_OP_SIZE(vm):
    vm.push_int(len(vm[-1]))


# pycoin/satoshi/intops.py :: do_OP_EQUAL
def q__do_OP_EQUAL(vm):
    v1, v2 = [vm.pop() for i in range(2)]
    vm.append(vm.bool_to_script_bytes(v1 == v2))


# pycoin/satoshi/intops.py :: do_OP_EQUALVERIFY
def q__do_OP_EQUALVERIFY(vm):
    do_OP_EQUAL(vm)
    v = vm.bool_from_script_bytes(vm.pop())
    if not v:
        raise ScriptError()


# pycoin/satoshi/intops.py :: pop_check_bounds
def q__pop_check_bounds(vm):
    if len(vm[-1]) > 4:
        raise ScriptError()
    return vm.pop_int()


# pycoin/satoshi/intops.py :: make_bin_op
def q__make_bin_op(binop):

    def f(vm):
        v1, v2 = [pop_check_bounds(vm) for i in range(2)]
        vm.push_int(binop(v2, v1))
    return f


# pycoin/satoshi/intops.py :: make_bin_op.f
def q__make_bin_op__f(vm):
    v1, v2 = [pop_check_bounds(vm) for i in range(2)]
    vm.push_int(binop(v2, v1))


# pycoin/satoshi/intops.py :: make_bool_bin_op
def q__make_bool_bin_op(binop):

    def f(vm):
        v1, v2 = [pop_check_bounds(vm) for i in range(2)]
        vm.append(vm.bool_to_script_bytes(binop(v2, v1)))
    return f


# pycoin/satoshi/intops.py :: make_bool_bin_op.f
def q__make_bool_bin_op__f(vm):
    v1, v2 = [pop_check_bounds(vm) for i in range(2)]
    vm.append(vm.bool_to_script_bytes(binop(v2, v1)))


# pycoin/satoshi/intops.py :: do_OP_NUMEQUALVERIFY
def q__do_OP_NUMEQUALVERIFY(vm):
    do_OP_NUMEQUAL(vm)
    do_OP_VERIFY(vm)


# pycoin/satoshi/intops.py :: do_OP_WITHIN
def q__do_OP_WITHIN(vm):
    v3, v2, v1 = [pop_check_bounds(vm) for i in range(3)]
    ok = v2 <= v1 < v3
    vm.append(vm.bool_to_script_bytes(ok))


# pycoin/satoshi/intops.py :: make_unary_num_op
def q__make_unary_num_op(unary_f):

    def f(vm):
        vm.push_int(unary_f(pop_check_bounds(vm)))
    return f


# pycoin/satoshi/intops.py :: make_unary_num_op.f
def q__make_unary_num_op__f(vm):
    vm.push_int(unary_f(pop_check_bounds(vm)))


# pycoin/satoshi/intops.py :: do_OP_NOT
def q__do_OP_NOT(vm):
    vm.append(vm.bool_to_script_bytes(not pop_check_bounds(vm)))


# pycoin/satoshi/intops.py :: do_OP_0NOTEQUAL
def q__do_OP_0NOTEQUAL(vm):
    vm.append(vm.bool_to_script_bytes(pop_check_bounds(vm) != 0))
