"""Transcription of every function of pycoin/message/InvItem.py as of the reviewed tree (see DESIGN.md section 12).
NEVER IMPORTED OR EXECUTED: parsed and compared in canonical form (sa/sym.py) with the functions in /repo."""


_CONSTS = {
    'ITEM_TYPE_BLOCK': 2,
    'ITEM_TYPE_MERKLEBLOCK': 3,
    'ITEM_TYPE_TX': 1,
}


# pycoin/message/InvItem.py :: InvItem.__init__
def q__InvItem____init__(self, item_type, data, dont_check=False):
    if not dont_check:
        assert item_type in (ITEM_TYPE_TX, ITEM_TYPE_BLOCK, ITEM_TYPE_MERKLEBLOCK)
    self.item_type = item_type
    assert isinstance(data, bytes)
    assert len(data) == 32
    self.data = data


# pycoin/message/InvItem.py :: InvItem.__str__
def q__InvItem____str__(self):
    INV_TYPES = ['?', 'Tx', 'Block', 'Merkle']
    idx = self.item_type
    if not 0 < idx < 4:
        idx = 0
    return 'InvItem %s [%s]' % (INV_TYPES[idx], b2h_rev(self.data))


# pycoin/message/InvItem.py :: InvItem.__repr__
def q__InvItem____repr__(self):
    return str(self)


# pycoin/message/InvItem.py :: InvItem.__hash__
def q__InvItem____hash__(self):
    return hash((self.item_type, self.data))


# pycoin/message/InvItem.py :: InvItem.__eq__
def q__InvItem____eq__(self, other):
    if isinstance(other, self.__class__):
        return self.item_type == other.item_type and self.data == other.data
    return False


# pycoin/message/InvItem.py :: InvItem.__lt__
def q__InvItem____lt__(self, other):
    return (self.item_type, self.data) < (other.item_type, other.data)


# pycoin/message/InvItem.py :: InvItem.stream
def q__InvItem__stream(self, f):
    stream_struct('L#', f, self.item_type, self.data)


# pycoin/message/InvItem.py :: InvItem.parse
def q__InvItem__parse(cls, f):
    return cls(*parse_struct('L#', f), dont_check=True)
