#!/venv/bin/python
"""refutetest.py: the witness search of sa/refute.py on pairs of expressions that are (a) the same function of their operands
(no witness may be found: a verdict here would be a false alarm) and (b) different functions (a witness must be found)."""
import os, sys
sys.path.insert(0, os.path.dirname(os.path.dirname(os.path.abspath(__file__))))
from sa import refute

SAME = [
    ("v > 255", "v >= 256"),
    ("len(h) >= 2", "len(h) > 1"),
    ("(55 - n) % 64", "(119 - n) % 64"),
    ("min(a, b)", "min(b, a)"),
    ("1 if not c else 0", "0 if c else 1"),
    ("x & m != 0", "x & m == m"),
    ("end < 0", "end == -1"),
    ("n >> 6", "n // 64"),
    ("a + b", "b + a"),
    ("not (a and b)", "not a or not b"),
    ("x % 2 == 1", "x % 2 != 0"),
    ("idx * 256", "idx << 8"),
]
UNREAD = [
    ("256 * v | b", "256 * v + b"),
    ("f(a)[:32]", "f(a)[:-1]"),
    ("k + self.a()", "k + self.b()"),
]
DIFFERENT = [
    ("r < z", "r < 1"),
    ("s[:33]", "s[:32]"),
    ("x > 20", "x > 21"),
    ("h & 31 == 2", "h & 3 == 2"),
    ("c * i + t", "c * i + t % 4294967295"),
    ("n >= frombits", "n > frombits"),
    ("size <= m", "size < m"),
    ("x & ~128", "x & 31"),
    ("a == b", "a != b"),
    ("f(x, y)", "f(y, x)"),
]
bad = 0
for a, b in SAME:
    r = refute.refute_exprs([(refute.parse_expr(a), refute.parse_expr(b))])
    if r is True:
        bad += 1
        print("FAIL (a witness for the same function): %s | %s" % (a, b))
for a, b in UNREAD:
    r = refute.refute_exprs([(refute.parse_expr(a), refute.parse_expr(b))])
    if r is not None:
        bad += 1
        print("FAIL (should not be read): %s | %s -> %s" % (a, b, r))
for a, b in DIFFERENT:
    r = refute.refute_exprs([(refute.parse_expr(a), refute.parse_expr(b))])
    if r is not True:
        bad += 1
        print("FAIL (no witness for different functions): %s | %s -> %s" % (a, b, r))
print("refutetest: %d pairs, %d failures" % (len(SAME) + len(UNREAD) + len(DIFFERENT), bad))
sys.exit(1 if bad else 0)
