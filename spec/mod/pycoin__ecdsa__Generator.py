"""Transcription of every function of pycoin/ecdsa/Generator.py as of the reviewed tree (see DESIGN.md section 12).
NEVER IMPORTED OR EXECUTED: parsed and compared in canonical form (sa/sym.py) with the functions in /repo."""


_CONSTS = {

}


# pycoin/ecdsa/Generator.py :: Generator.__new__
def q__Generator____new__(cls, p, a, b, basis, order):
    return tuple.__new__(cls, basis)


# pycoin/ecdsa/Generator.py :: Generator.__init__
def q__Generator____init__(self, p, a, b, basis, order, entropy_f=os.urandom):
    Curve.__init__(self, p, a, b, order)
    Point.__init__(self, basis[0], basis[1], self)
    self._powers = []
    Gp = self
    for _ in range(max(256, order.bit_length())):
        self._powers.append(Gp)
        Gp += Gp
    assert p % 4 == 3, 'p % 4 must be 3 due to modular_sqrt optimization'
    self._mod_sqrt_power = (p + 1) // 4
    self._blinding_factor = int.from_bytes(entropy_f(32), 'big') % order
    self._minus_blinding_factor_g = self.raw_mul(-self._blinding_factor)


# pycoin/ecdsa/Generator.py :: Generator.modular_sqrt
def q__Generator__modular_sqrt(self, a):
    return pow(a, self._mod_sqrt_power, self._p)


# pycoin/ecdsa/Generator.py :: Generator.inverse
def q__Generator__inverse(self, a):
    assert self._order is not None
    return self.inverse_mod(a, self._order)


# pycoin/ecdsa/Generator.py :: Generator.points_for_x
def q__Generator__points_for_x(self, x):
    p = self._p
    if not 0 <= x < p:
        raise ValueError()
    alpha = (pow(x, 3, p) + self._a * x + self._b) % p
    y0 = self.modular_sqrt(alpha)
    if y0 == 0:
        raise ValueError()
    p0, p1 = [self.Point(x, _) for _ in (y0, p - y0)]
    if y0 & 1 == 0:
        return (p0, p1)
    return (p1, p0)


# pycoin/ecdsa/Generator.py :: Generator.possible_public_pairs_for_signature
def q__Generator__possible_public_pairs_for_signature(self, value, signature, y_parity=None):
    r, s = signature
    order = self._order
    if value == 0 or s < 1 or s >= order or (r % order == 0):
        return []
    try:
        points = self.points_for_x(r)
    except ValueError:
        return []
    points_list = list(points)
    if y_parity is not None:
        if y_parity & 1:
            points_list = points_list[1:]
        else:
            points_list = points_list[:1]
    inv_r = self.inverse(r)
    s_over_r = s * inv_r
    minus_E_over_r = -(inv_r * value) * self
    try:
        return [s_over_r * p + minus_E_over_r for p in points_list]
    except ValueError:
        return []


# pycoin/ecdsa/Generator.py :: Generator.raw_mul
def q__Generator__raw_mul(self, e):
    assert self._order is not None
    e %= self._order
    P = self._infinity
    for bit in range(len(self._powers)):
        a = [P, P + self._powers[bit]]
        P = a[e & 1]
        e >>= 1
    return P


# pycoin/ecdsa/Generator.py :: Generator.__mul__
def q__Generator____mul__(self, e):
    return self.raw_mul(e + self._blinding_factor) + self._minus_blinding_factor_g


# pycoin/ecdsa/Generator.py :: Generator.__rmul__
def q__Generator____rmul__(self, e):
    return self.__mul__(e)


# pycoin/ecdsa/Generator.py :: Generator.verify
def q__Generator__verify(self, public_pair, val, sig):
    order = self._order
    if val == 0:
        return False
    r, s = sig
    if r < 1 or r >= order or s < 1 or (s >= order):
        return False
    s_inverse = self.inverse(s)
    u1 = val * s_inverse
    u2 = r * s_inverse
    point = u1 * self + u2 * self.Point(*public_pair)
    if point == self._infinity:
        return False
    v = point[0] % order
    return v == r


# pycoin/ecdsa/Generator.py :: Generator.sign_with_recid
def q__Generator__sign_with_recid(self, secret_exponent, val, gen_k=None):
    if val == 0:
        raise ValueError()
    if gen_k is None:
        gen_k = deterministic_generate_k
    n = self._order
    k = gen_k(n, secret_exponent, val)
    while True:
        p1 = k * self
        r = p1[0] % n
        s = self.inverse(k) * (val + secret_exponent * r % n) % n
        if r != 0 and s != 0:
            recid = p1[1] & 1
            if p1[0] > n:
                recid += 2
            return (r, s, recid)
        k += 1
        if k >= n:
            k = 1


# pycoin/ecdsa/Generator.py :: Generator.sign
def q__Generator__sign(self, secret_exponent, val, gen_k=None):
    r, s, _ = self.sign_with_recid(secret_exponent, val, gen_k)
    return (r, s)
