"""Transcription of every function of pycoin/key/Key.py as of the reviewed tree (see DESIGN.md section 12).
NEVER IMPORTED OR EXECUTED: parsed and compared in canonical form (sa/sym.py) with the functions in /repo."""


_CONSTS = {

}


# pycoin/key/Key.py :: Key.make_subclass
def q__Key__make_subclass(class_, symbol, network, generator):
    return type('%s_%s' % (symbol, class_.__name__), (class_,), dict(_network=network, _generator=generator))


# pycoin/key/Key.py :: Key.override_network
def q__Key__override_network(self, override_network):
    secret_exponent = self.secret_exponent()
    if secret_exponent:
        return override_network.parse.secret_exponent(secret_exponent)
    raise ValueError()


# pycoin/key/Key.py :: Key.__init__
def q__Key____init__(self, secret_exponent=None, public_pair=None, is_compressed=True):
    if [secret_exponent, public_pair].count(None) != 1:
        raise ValueError()
    self._secret_exponent = secret_exponent
    self._public_pair = public_pair
    self._is_compressed = is_compressed
    self._hash160_uncompressed = None
    self._hash160_compressed = None
    self._hash256 = None
    if self._secret_exponent is not None:
        if self._secret_exponent < 1 or self._secret_exponent >= self._generator.order():
            raise InvalidSecretExponentError()
        public_pair = self._secret_exponent * self._generator
        self._public_pair = public_pair
    if None in self._public_pair or not self._generator.contains_point(*self._public_pair):
        raise InvalidPublicPairError()


# pycoin/key/Key.py :: Key.from_sec
def q__Key__from_sec(class_, sec):
    public_pair = sec_to_public_pair(sec, class_._generator)
    return class_(public_pair=public_pair, is_compressed=is_sec_compressed(sec))


# pycoin/key/Key.py :: Key.is_private
def q__Key__is_private(self):
    return self.secret_exponent() is not None


# pycoin/key/Key.py :: Key.secret_exponent
def q__Key__secret_exponent(self):
    return self._secret_exponent


# pycoin/key/Key.py :: Key.wif
def q__Key__wif(self, is_compressed=None):
    secret_exponent = self.secret_exponent()
    if secret_exponent is None:
        return None
    if is_compressed is None:
        is_compressed = self.is_compressed()
    blob = to_bytes_32(secret_exponent)
    if is_compressed:
        blob += b'\x01'
    return self._network.wif_for_blob(blob)


# pycoin/key/Key.py :: Key.public_pair
def q__Key__public_pair(self):
    return self._public_pair


# pycoin/key/Key.py :: Key.sec
def q__Key__sec(self, is_compressed=None):
    if is_compressed is None:
        is_compressed = self.is_compressed()
    public_pair = self.public_pair()
    if public_pair is None:
        return None
    return public_pair_to_sec(public_pair, compressed=is_compressed)


# pycoin/key/Key.py :: Key.sec_as_hex
def q__Key__sec_as_hex(self, is_compressed=None):
    sec = self.sec(is_compressed=is_compressed)
    return self._network.sec_text_for_blob(sec)


# pycoin/key/Key.py :: Key.hash160
def q__Key__hash160(self, is_compressed=None):
    if is_compressed is None:
        is_compressed = self.is_compressed()
    if is_compressed:
        if self._hash160_compressed is None:
            self._hash160_compressed = hash160(self.sec(is_compressed=is_compressed))
        return self._hash160_compressed
    if self._hash160_uncompressed is None:
        self._hash160_uncompressed = hash160(self.sec(is_compressed=is_compressed))
    return self._hash160_uncompressed


# pycoin/key/Key.py :: Key.fingerprint
def q__Key__fingerprint(self, is_compressed=None):
    return self.hash160(is_compressed=is_compressed)[:4]


# pycoin/key/Key.py :: Key.address
def q__Key__address(self, is_compressed=None):
    return self._network.address.for_p2pkh(self.hash160(is_compressed=is_compressed))


# pycoin/key/Key.py :: Key.as_text
def q__Key__as_text(self):
    if self.secret_exponent():
        return self.wif()
    sec_hex = self.sec_as_hex()
    if sec_hex:
        return sec_hex
    return self.address()


# pycoin/key/Key.py :: Key.public_copy
def q__Key__public_copy(self):
    if self.secret_exponent() is None:
        return self
    return self.__class__(public_pair=self.public_pair(), is_compressed=self.is_compressed())


# pycoin/key/Key.py :: Key.subkey_for_path
def q__Key__subkey_for_path(self, path):
    return self


# pycoin/key/Key.py :: Key.subkey
def q__Key__subkey(self, path_to_subkey=None):
    return self


# pycoin/key/Key.py :: Key.subkeys
def q__Key__subkeys(self, path_to_subkeys=None):
    yield self


# pycoin/key/Key.py :: Key.sign
def q__Key__sign(self, h):
    if not self.is_private():
        raise RuntimeError()
    val = from_bytes_32(h)
    r, s = self._generator.sign(self.secret_exponent(), val)
    return sigencode_der(r, s)


# pycoin/key/Key.py :: Key.verify
def q__Key__verify(self, h, sig):
    try:
        val = from_bytes_32(h)
        pubkey = self.public_pair()
        return self._generator.verify(pubkey, val, sigdecode_der(sig, use_broken_open_ssl_mechanism=False))
    except (UnexpectedDER, ValueError):
        return False


# pycoin/key/Key.py :: Key.is_compressed
def q__Key__is_compressed(self):
    return self._is_compressed


# pycoin/key/Key.py :: Key.__repr__
def q__Key____repr__(self):
    r = self.public_copy()
    if r._network:
        s = r.as_text()
    elif r.sec():
        s = b2h(r.sec())
    else:
        s = b2h(r.hash160())
    if self.is_private():
        return 'private_for <%s>' % s
    return '<%s>' % s


# pycoin/key/Key.py :: Key.ku_output
def q__Key__ku_output(self):
    for f in [self.ku_output_for_secret_exponent, self.ku_output_for_public_pair, self.ku_output_for_address]:
        yield from f()


# pycoin/key/Key.py :: Key.ku_output_for_secret_exponent
def q__Key__ku_output_for_secret_exponent(self):
    if self._secret_exponent:
        yield ('secret_exponent', '%d' % self._secret_exponent, None)
        yield ('secret_exponent_hex', '%x' % self._secret_exponent, ' hex')
        yield ('wif', self.wif(is_compressed=True), None)
        yield ('wif_uncompressed', self.wif(is_compressed=False), ' uncompressed')


# pycoin/key/Key.py :: Key.ku_output_for_public_pair
def q__Key__ku_output_for_public_pair(self):
    if self._public_pair:
        yield ('public_pair_x', '%d' % self._public_pair[0], None)
        yield ('public_pair_y', '%d' % self._public_pair[1], None)
        yield ('public_pair_x_hex', '%x' % self._public_pair[0], ' x as hex')
        yield ('public_pair_y_hex', '%x' % self._public_pair[1], ' y as hex')
        yield ('y_parity', 'odd' if self._public_pair[1] & 1 else 'even', None)
        yield ('key_pair_as_sec', b2h(self.sec(is_compressed=True)), None)
        yield ('key_pair_as_sec_uncompressed', b2h(self.sec(is_compressed=False)), ' uncompressed')


# pycoin/key/Key.py :: Key.ku_output_for_address
def q__Key__ku_output_for_address(self):
    network_name = self._network.network_name
    hash160_u = self.hash160(is_compressed=False)
    hash160_c = self.hash160(is_compressed=True)
    yield ('hash160', b2h(hash160_c), None)
    if hash160_c and hash160_u:
        yield ('hash160_uncompressed', b2h(hash160_u), ' uncompressed')
    address = self._network.address.for_p2pkh(hash160_c)
    yield ('address', address, '%s address' % network_name)
    yield ('%s_address' % self._network.symbol, address, 'legacy')
    address = self.address(is_compressed=False)
    yield ('address_uncompressed', address, '%s address uncompressed' % self._network.network_name)
    yield ('%s_address_uncompressed' % self._network.symbol, address, 'legacy')
    if hash160_c:
        address_segwit = self._network.address.for_p2pkh_wit(hash160_c)
        if address_segwit:
            yield ('address_segwit', address_segwit, '%s segwit address' % self._network.network_name)
            yield ('%s_address_segwit' % self._network.symbol, address_segwit, 'legacy')
            p2sh_script = self._network.contract.for_p2pkh_wit(hash160_c)
            p2s_address = self._network.address.for_p2s(p2sh_script)
            if p2s_address:
                yield ('p2sh_segwit', p2s_address, None)
            p2sh_script_hex = b2h(p2sh_script)
            yield ('p2sh_segwit_script', p2sh_script_hex, ' corresponding p2sh script')
