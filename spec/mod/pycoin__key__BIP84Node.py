"""Transcription of every function of pycoin/key/BIP84Node.py as of the reviewed tree (see DESIGN.md section 12).
NEVER IMPORTED OR EXECUTED: parsed and compared in canonical form (sa/sym.py) with the functions in /repo."""


_CONSTS = {

}


# pycoin/key/BIP84Node.py :: BIP84Node.address
def q__BIP84Node__address(self, is_compressed=True):
    pk_hash = self.hash160(is_compressed=is_compressed)
    return self._network.address.for_p2pkh_wit(pk_hash)


# pycoin/key/BIP84Node.py :: BIP84Node.hwif
def q__BIP84Node__hwif(self, as_private=False):
    return self._network.bip84_as_string(self.serialize(as_private=as_private), as_private=as_private)


# pycoin/key/BIP84Node.py :: BIP84Node.ku_output_for_address
def q__BIP84Node__ku_output_for_address(self):
    yield ('address', self.address(), None)
