"""Reference transcriptions for C05 (signing).  NEVER IMPORTED OR EXECUTED: parsed and compared in canonical form
(sa/sym.py) with the functions in /repo.  Written from the tree after the fix 38c2c4e and reviewed against the contract
the property states: signing touches only script and witness of requested inputs that do not validate yet; signatures
are low-S (s <= n/2, BIP146) DER followed by the hash-type byte; fork-id coins default to ALL and OR in SIGHASH_FORKID."""


SIGHASH_ALL = 1
SIGHASH_FORKID = 0x40
DEFAULT_SIGNATURE_TYPE = 1
DEFAULT_PLACEHOLDER_SIGNATURE = b""


# pycoin/coins/bitcoin/Solver.py :: Solver.sign
def sv_sign(self, hash160_lookup, tx_in_idx_set=None, hash_type=None, **kwargs):
    checker = self.SolutionChecker(self.tx)
    if tx_in_idx_set is None:
        tx_in_idx_set = range(len(self.tx.txs_in))
    self.tx.check_unspents()
    for tx_in_idx in sorted(tx_in_idx_set):
        tx_context = checker.tx_context_for_idx(tx_in_idx)
        try:
            checker.check_solution(tx_context, flags=None)
            continue
        except ScriptError:
            pass
        try:
            r = self.solve(hash160_lookup, tx_in_idx, hash_type=hash_type, **kwargs)
            if isinstance(r, bytes):
                self.tx.txs_in[tx_in_idx].script = r
            else:
                self.tx.txs_in[tx_in_idx].script = r[0]
                self.tx.set_witness(tx_in_idx, r[1])
        except (SolvingError, ValueError):
            pass
    return self


# pycoin/coins/bitcoin/Solver.py :: Solver.solve
def sv_solve(self, hash160_lookup, tx_in_idx, hash_type=None, **kwargs):
    if hash_type is None:
        hash_type = SIGHASH_ALL
    kwargs['hash160_lookup'] = hash160_lookup
    if 'signature_placeholder' not in kwargs:
        kwargs['signature_placeholder'] = generate_default_placeholder_signature(kwargs.get('generator'))
    if self.tx.txs_in[tx_in_idx].witness:
        kwargs['existing_script'] = self.tx.txs_in[tx_in_idx].witness
    else:
        kwargs['existing_script'] = [data for opcode, data, pc, new_pc in self.ScriptTools.get_opcodes(self.tx.txs_in[tx_in_idx].script) if data is not None]
    kwargs['signature_type'] = hash_type
    kwargs['generator_for_signature_type_f'] = self.solution_checker.VM.generator_for_signature_type
    constraints = self.determine_constraints(tx_in_idx, p2sh_lookup=kwargs.get('p2sh_lookup') or {})
    solution_list, witness_list = self.solve_for_constraints(constraints, **kwargs)
    solution_script = self.ScriptTools.compile_push_data_list(solution_list)
    if witness_list:
        return (solution_script, witness_list)
    return solution_script


# pycoin/coins/bitcoin/Solver.py :: Solver.determine_constraints
def sv_determine_constraints(self, tx_in_idx, p2sh_lookup={}):
    tx_context = self.solution_checker.tx_context_for_idx(tx_in_idx)
    tx_context.witness_solution_stack = DynamicStack([Atom('w_%d' % (1 - _)) for _ in range(2)], fill_template='w_%d')
    script_hash = self.solution_checker.script_hash_from_script(tx_context.puzzle_script)
    witness_version = self.solution_checker._witness_program_version(tx_context.puzzle_script)
    tx_context.solution_script = b''
    solution_reserve_count = 0
    fill_template = 'x_%d'
    underlying_script = None
    underlying_script_wit = None
    witness_program = b''
    if script_hash:
        underlying_script = p2sh_lookup.get(script_hash, None)
        if underlying_script is None:
            raise ValueError()
        tx_context.solution_script = self.ScriptTools.compile_push_data_list([underlying_script])
        solution_reserve_count = 1
        witness_version = self.solution_checker._witness_program_version(underlying_script)
    if witness_version == 0:
        base_script = underlying_script if script_hash else tx_context.puzzle_script
        witness_program = base_script[2:]
        if len(witness_program) == 32:
            underlying_script_wit = p2sh_lookup.get(witness_program, None)
            if underlying_script_wit is None:
                raise ValueError()
            fill_template = 'w_%d'
            solution_reserve_count = 1
            tx_context.witness_solution_stack = [underlying_script_wit]
    constraints = []

    def reset_stack_f(stack):
        return DynamicStack(stack, solution_reserve_count, fill_template)
    try:
        traceback_f = make_traceback_f(constraints, self.ScriptTools.int_for_opcode, reset_stack_f)
        self.solution_checker.check_solution(tx_context, traceback_f=traceback_f)
    except ScriptError:
        pass
    if script_hash:
        constraints.append(Operator('EQUAL', Atom('x_0'), underlying_script))
    if witness_version == 0:
        if len(witness_program) == 32:
            constraints.append(Operator('EQUAL', Atom('w_0'), underlying_script_wit))
    return constraints


# pycoin/coins/bitcoin/Solver.py :: Solver.solve_for_constraints
def sv_solve_for_constraints(self, constraints, **kwargs):
    solutions = []
    for c in constraints:
        s = self.solutions_for_constraint(c)
        if s:
            solutions.append(s)
    deps = set()
    for c in constraints:
        deps.update(c.dependencies())
    solved_values = {d: None for d in deps}
    progress = True
    while progress and None in solved_values.values():
        progress = False
        for solution, target, dependencies in solutions:
            if any((solved_values.get(t) is not None for t in target)):
                continue
            if any((solved_values[d] is None for d in dependencies)):
                continue
            s = solution(solved_values, **kwargs)
            solved_values.update(s)
            progress = progress or len(s) > 0

    def placeholder_index(k):
        return int(k.name.split('_')[-1])
    x_keys = sorted((k for k in solved_values.keys() if k.name.startswith('x')), key=placeholder_index, reverse=True)
    w_keys = sorted((k for k in solved_values.keys() if k.name.startswith('w')), key=placeholder_index, reverse=True)
    solution_list = [solved_values.get(k) for k in x_keys]
    witness_list = [solved_values.get(k) for k in w_keys]
    return (solution_list, witness_list)


# pycoin/coins/bitcoin/Solver.py :: DynamicStack._fill
def ds_fill(self):
    self.insert(0, Atom(self.fill_template % self.total_item_count))
    self.total_item_count += 1


# pycoin/solve/some_solvers.py :: signing_solver.f
def ss_signing_solver(solved_values, **kwargs):
    signature_type = kwargs.get('signature_type', DEFAULT_SIGNATURE_TYPE)
    generator_for_signature_type_f = kwargs['generator_for_signature_type_f']
    signature_for_hash_type_f = m['signature_for_hash_type_f']
    existing_script = kwargs.get('existing_script', b'')
    existing_signatures, secs_solved = _find_signatures(existing_script, generator_for_signature_type_f, signature_for_hash_type_f, len(m['sig_list']), m['sec_list'])
    sec_keys = m['sec_list']
    signature_variables = m['sig_list']
    signature_placeholder = kwargs.get('signature_placeholder', DEFAULT_PLACEHOLDER_SIGNATURE)
    db = kwargs.get('hash160_lookup', {})
    for signature_order, sec_key in reversed(list(enumerate(sec_keys))):
        sec_key = solved_values.get(sec_key, sec_key)
        if sec_key in secs_solved:
            continue
        if len(existing_signatures) >= len(signature_variables):
            break
        result = db.get(hash160(sec_key))
        if result:
            secret_exponent = result[0]
            sig_hash = signature_for_hash_type_f(signature_type)
            generator = result[3]
            r, s = generator.sign(secret_exponent, sig_hash)
        else:
            generator = generator_for_signature_type_f(signature_type)
            public_pair = sec_to_public_pair(sec_key, generator=generator)
            for sig in all_signature_hints(public_pair, signature_for_hash_type_f, **kwargs):
                sig_hash = signature_for_hash_type_f(sig[-1])
                sig_pair = der.sigdecode_der(sig[:-1])
                if generator.verify(public_pair, sig_hash, sig_pair):
                    r, s = sig_pair
                    break
            else:
                continue
        order = generator.order()
        if s + s > order:
            s = order - s
        binary_signature = der.sigencode_der(r, s) + bytes([signature_type])
        existing_signatures.append((signature_order, binary_signature))
    if signature_placeholder is not None:
        while len(existing_signatures) < len(signature_variables):
            existing_signatures.append((-1, signature_placeholder))
    existing_signatures.sort()
    return dict(zip(signature_variables, (es[-1] for es in existing_signatures)))


# pycoin/coins/bcash/Solver.py :: BcashSolver.solve
def bch_solve(self, *args, **kwargs):
    if kwargs.get('hash_type') is None:
        kwargs['hash_type'] = SIGHASH_ALL
    kwargs['hash_type'] |= SIGHASH_FORKID
    return super(BcashSolver, self).solve(*args, **kwargs)


# pycoin/coins/bgold/Solver.py :: BgoldSolver.solve
def btg_solve(self, *args, **kwargs):
    if kwargs.get('hash_type') is None:
        kwargs['hash_type'] = SIGHASH_ALL
    kwargs['hash_type'] |= SIGHASH_FORKID
    return super(BgoldSolver, self).solve(*args, **kwargs)


# pycoin/solve/utils.py :: build_hash160_lookup
def u_build_hash160_lookup(secret_exponents, generators):
    d = {}
    for secret_exponent in secret_exponents:
        for generator in generators:
            public_pair = secret_exponent * generator
            for compressed in (True, False):
                h160 = public_pair_to_hash160_sec(public_pair, compressed=compressed)
                d[h160] = (secret_exponent, public_pair, compressed, generator)
    return d


# pycoin/solve/utils.py :: build_p2sh_lookup
def u_build_p2sh_lookup(scripts):
    scripts_list = list(scripts)
    d1 = dict(((hash160(s), s) for s in scripts_list))
    d1.update(((hashlib.sha256(s).digest(), s) for s in scripts_list))
    return d1


# pycoin/solve/utils.py :: build_sec_lookup
def u_build_sec_lookup(sec_values):
    d = {}
    for sec in sec_values or []:
        d[hash160(sec)] = sec
    return d


# pycoin/key/Keychain.py :: Keychain.get
def kc_get(self, h160, default=None):
    v = self.p2s_for_hash(h160)
    if v:
        return v
    if h160 not in self._secret_exponent_cache:
        result = self.path_for_hash160(h160)
        if result:
            fingerprint, path = result
            for key in self._secrets.get(fingerprint, []):
                subkey = key.subkey_for_path(path)
                self._add_key_to_cache(subkey)
    return self._secret_exponent_cache.get(h160, default)


# pycoin/key/Keychain.py :: Keychain._add_key_to_cache
def kc_add_key_to_cache(self, key):
    secret_exponent = key.secret_exponent()
    public_pair = key.public_pair()
    for is_compressed in (True, False):
        h160 = key.hash160(is_compressed=is_compressed)
        self._secret_exponent_cache[h160] = (secret_exponent, public_pair, is_compressed, key._generator)


