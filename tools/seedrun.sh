#!/bin/bash
# seedrun.sh [Cxx ...]: apply each confirmed seed of the property to /repo, run ./check Cxx, undo; print caught/missed
cd /verif
for d in seeded/*; do
  [ -f $d/patch.diff ] || continue
  pid=$(basename $d | cut -d- -f1)
  if [ $# -gt 0 ] && [[ ! " $* " =~ " $pid " ]]; then continue; fi
  [ -f rules/$pid.py ] || { echo "$(basename $d): no check"; continue; }
  git -C /repo apply /verif/$d/patch.diff || { echo "$(basename $d): patch failed"; continue; }
  out=$(./check $pid 2>&1); code=$?
  git -C /repo checkout -- .
  rules=$(echo "$out" | grep -E "^VIOLATED" | awk '{print $2}' | sort -u | tr '\n' ' ')
  if [ $code -eq 1 ]; then echo "$(basename $d): CAUGHT by $rules"; elif [ $code -eq 2 ]; then echo "$(basename $d): analysis-error: $(echo "$out" | grep ANALYSIS-ERROR | head -2)"; else echo "$(basename $d): missed"; fi
done
