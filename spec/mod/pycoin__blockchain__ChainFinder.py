"""Transcription of every function of pycoin/blockchain/ChainFinder.py as of the reviewed tree (see DESIGN.md section 12).
NEVER IMPORTED OR EXECUTED: parsed and compared in canonical form (sa/sym.py) with the functions in /repo."""


_CONSTS = {

}


# pycoin/blockchain/ChainFinder.py :: ChainFinder.__init__
def q__ChainFinder____init__(self):
    self.parent_lookup = {}
    self.descendents_by_top = {}
    self.trees_from_bottom = {}


# pycoin/blockchain/ChainFinder.py :: ChainFinder.__repr__
def q__ChainFinder____repr__(self):
    return '<ChainFinder: trees_fb:%s d_b_tops:%s>' % (self.trees_from_bottom, self.descendents_by_top)


# pycoin/blockchain/ChainFinder.py :: ChainFinder.load_nodes
def q__ChainFinder__load_nodes(self, nodes):
    new_hashes = set()
    for h, parent in nodes:
        if h in self.parent_lookup:
            continue
        self.parent_lookup[h] = parent
        new_hashes.add(h)
    if new_hashes:
        self.meld_new_hashes(new_hashes)


# pycoin/blockchain/ChainFinder.py :: ChainFinder.meld_new_hashes
def q__ChainFinder__meld_new_hashes(self, new_hashes):
    while len(new_hashes) > 0:
        h = new_hashes.pop()
        path = [h]
        while 1:
            h = self.parent_lookup.get(h)
            if h is None:
                break
            preceding_path = self.trees_from_bottom.get(h)
            if preceding_path:
                del self.trees_from_bottom[h]
                path.extend(preceding_path)
                self.descendents_by_top[preceding_path[-1]].remove(preceding_path[0])
                break
            path.append(h)
        self.trees_from_bottom[path[0]] = path
        bottom_h, top_h = (path[0], path[-1])
        top_descendents = self.descendents_by_top.setdefault(top_h, set())
        bottom_descendents = self.descendents_by_top.get(bottom_h)
        if bottom_descendents:
            for descendent in bottom_descendents:
                prior_path = self.trees_from_bottom[descendent]
                prior_path.extend(path[1:])
                if path[0] in self.trees_from_bottom:
                    del self.trees_from_bottom[path[0]]
                else:
                    pass
            del self.descendents_by_top[bottom_h]
            top_descendents.update(bottom_descendents)
        else:
            top_descendents.add(bottom_h)


# pycoin/blockchain/ChainFinder.py :: ChainFinder.all_chains_ending_at
def q__ChainFinder__all_chains_ending_at(self, h):
    for bottom_h in self.descendents_by_top.get(h, []):
        yield self.trees_from_bottom[bottom_h]


# pycoin/blockchain/ChainFinder.py :: ChainFinder.missing_parents
def q__ChainFinder__missing_parents(self):
    return self.descendents_by_top.keys()


# pycoin/blockchain/ChainFinder.py :: ChainFinder.maximum_path
def q__ChainFinder__maximum_path(self, h, cache={}):
    v = self.trees_from_bottom.get(h)
    if v:
        return v
    h1 = h
    v = []
    while h1 is not None:
        v.append(h1)
        h1 = self.parent_lookup.get(h1)
    for i, h1 in enumerate(v):
        cache[h1] = v[i:]
    return v


# pycoin/blockchain/ChainFinder.py :: ChainFinder.find_ancestral_path
def q__ChainFinder__find_ancestral_path(self, h1, h2, path_cache={}):
    p1 = self.maximum_path(h1, path_cache)
    p2 = self.maximum_path(h2, path_cache)
    if p1[-1] != p2[-1]:
        return ([], [])
    shorter_len = min(len(p1), len(p2))
    i1 = len(p1) - shorter_len
    i2 = len(p2) - shorter_len
    while 1:
        if p1[i1] == p2[i2]:
            return (p1[:i1 + 1], p2[:i2 + 1])
        i1 += 1
        i2 += 1
