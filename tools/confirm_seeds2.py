#!/venv/bin/python
"""Round 2: confirm /tmp/seed2/Cxx/out/{b*,r*}.  breaking: suite keeps all stable_pass, demo fails with patch, passes without.
refactoring: suite keeps all stable_pass and every demo known for the property (round 1 + round 2) still passes on the refactored tree."""
import glob, json, os, shutil, subprocess, sys
ROOT = os.environ.get("SEED_ROOT", "/tmp/seed2")
ROUND = int(os.environ.get("SEED_ROUND", "2"))
ONLY = set(sys.argv[1:])
for d in sorted(glob.glob(ROOT + "/C*/out/*")):
    pid = d.split("/")[3]; k = os.path.basename(d)
    if ONLY and pid not in ONLY:
        continue
    if not os.path.exists(d + "/patch.diff") or not os.path.exists(d + "/meta.json"):
        continue
    dest = "/verif/seeded/%s-%s" % (pid, k)
    if os.path.exists(dest + "/meta.json"):
        continue
    wt = "%s/%s/wt" % (ROOT, pid)
    if not os.path.isdir(wt):
        continue
    kind = "breaking" if k.startswith("b") else "refactoring"
    subprocess.run(["git", "-C", wt, "checkout", "--", "."], check=True)
    env = dict(os.environ, PYTHONPATH=wt)
    demos = sorted(glob.glob("/verif/seeded/%s-*/demo.py" % pid) + glob.glob("%s/%s/out/b*/demo.py" % (ROOT, pid)))
    if kind == "refactoring":
        # a demonstration written against an earlier tree may no longer pass on the clean tree (a later fix: commit changed what it
        # assumes): only demonstrations that pass on the clean tree say anything about the twin
        alive = []
        for dm in demos:
            try:
                if subprocess.run(["/venv/bin/python", dm], env=env, cwd=os.path.dirname(dm), capture_output=True, timeout=900).returncode == 0:
                    alive.append(dm)
            except subprocess.TimeoutExpired:
                pass
        demos = alive
    clean = subprocess.run(["/venv/bin/python", d + "/demo.py"], env=env, cwd=d, capture_output=True, timeout=900).returncode if kind == "breaking" else 0
    ap = subprocess.run(["git", "-C", wt, "apply", d + "/patch.diff"], capture_output=True)
    if ap.returncode != 0:
        print(pid, k, "PATCH DOES NOT APPLY", ap.stderr.decode()[:200]); continue
    suite = subprocess.run(["/verif/tools/baseline.py", wt], capture_output=True, text=True)
    if kind == "breaking":
        mutated = subprocess.run(["/venv/bin/python", d + "/demo.py"], env=env, cwd=d, capture_output=True, timeout=900).returncode
        ok = clean == 0 and mutated != 0 and suite.returncode == 0
        detail = "clean=%d mutated=%d" % (clean, mutated)
    else:
        bad = []
        for dm in demos:
            try:
                rc = subprocess.run(["/venv/bin/python", dm], env=env, cwd=os.path.dirname(dm), capture_output=True, timeout=900).returncode
            except subprocess.TimeoutExpired:
                rc = -9
            if rc != 0:
                bad.append(dm)
        ok = suite.returncode == 0 and not bad
        detail = "demos_run=%d failing=%s" % (len(demos), [b.split("/")[-2] for b in bad])
        mutated = None
    subprocess.run(["git", "-C", wt, "checkout", "--", "."], check=True)
    print(pid, k, kind, "confirmed" if ok else "REJECTED", detail, suite.stdout.strip().splitlines()[0] if suite.stdout else suite.returncode)
    sys.stdout.flush()
    if ok:
        os.makedirs(dest, exist_ok=True)
        shutil.copy(d + "/patch.diff", dest + "/patch.diff")
        if kind == "breaking":
            shutil.copy(d + "/demo.py", dest + "/demo.py")
        meta = json.load(open(d + "/meta.json"))
        meta["property"] = pid; meta["kind"] = kind; meta["round"] = ROUND
        meta["confirmed"] = {"suite": suite.stdout.strip().splitlines()[0], "detail": detail,
                             "how": "git apply on a scratch worktree of /repo HEAD; /verif/tools/baseline.py <worktree>; demos run with PYTHONPATH=<worktree>"}
        json.dump(meta, open(dest + "/meta.json", "w"), indent=1)
