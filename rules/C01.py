"""C01 - ECDSA sign / verify / recover: structural obligations (DESIGN.md section 4, C01)."""
from __future__ import annotations

import ast

from sa.core import Ob
from sa.pm import AnalysisError, norm, body_nodes
from sa import gi, df, ru, sym
from sa.pm import Undecided
from sa.gi import IntSet, iv, GuardWalker, SymbolicAtomizer, reach_sets

GEN = "pycoin/ecdsa/Generator.py"
RFC = "pycoin/ecdsa/rfc6979.py"
KEY = "pycoin/key/Key.py"
U, E = IntSet.all(), IntSet.empty()
ORDER_TEXTS = {"self._order", "self.order()"}


def _is_const_false(e):
    return isinstance(e, ast.Constant) and e.value is False


def mul_factors(e):
    """flatten a product into the list of its factors"""
    if isinstance(e, ast.BinOp) and isinstance(e.op, ast.Mult):
        return mul_factors(e.left) + mul_factors(e.right)
    return [e]


def infinity_test(test, var):
    """formula recognising `var is the point at infinity` tests, else None"""
    t = norm(test)
    pos = {"%s == self._infinity" % var, "self._infinity == %s" % var, "%s == self.infinity()" % var,
           "%s[0] is None" % var, "%s[1] is None" % var, "%s is self._infinity" % var, "%s == infinity" % var,
           "%s == self._curve.infinity()" % var, "%s[0] == None" % var}
    neg = {"%s != self._infinity" % var, "%s[0] is not None" % var, "%s[1] is not None" % var, "%s != self.infinity()" % var}
    if t in pos:
        return ("op", "INF:" + var)
    if t in neg:
        return ("not", ("op", "INF:" + var))
    return None


def inf_atomizer(var):
    def at(t):
        if isinstance(t, ast.BoolOp):
            parts = [at(v) for v in t.values]
            return gi.f_and(*parts) if isinstance(t.op, ast.And) else gi.f_or(*parts)
        if isinstance(t, ast.UnaryOp) and isinstance(t.op, ast.Not):
            return gi.f_not(at(t.operand))
        r = infinity_test(t, var)
        return r if r is not None else ("op", norm(t))
    return at


def can_be(formula, opname):
    """is `formula` satisfiable with the opaque atom opname true?"""
    ops = gi.f_opaques(formula)
    import itertools
    dom = gi.FinSet({0}, frozenset({0}))
    emp = gi.FinSet((), frozenset({0}))
    for bits in itertools.product((False, True), repeat=len(ops)):
        a = dict(zip(ops, bits))
        if opname in a and not a[opname]:
            continue
        if not gi.f_eval(formula, a, dom, emp).is_empty():
            return True
    return False


def coordinate_uses(func_node, var):
    """statements that use var[0] / var[1] in arithmetic (%, +, -, *, &, comparison with ints)"""
    out = []
    for n in body_nodes(func_node):
        if isinstance(n, ast.stmt) and not isinstance(n, (ast.If, ast.For, ast.While, ast.Try, ast.With)):
            for s in ast.walk(n):
                if isinstance(s, (ast.BinOp, ast.Compare)):
                    ops = [s.left, s.right] if isinstance(s, ast.BinOp) else [s.left] + s.comparators
                    for o in ops:
                        if isinstance(o, ast.Subscript) and isinstance(o.value, ast.Name) and o.value.id == var and \
                                not (isinstance(s, ast.Compare) and any(isinstance(c, ast.Constant) and c.value is None for c in s.comparators)):
                            out.append(n)
    return list({id(x): x for x in out}.values())


_REF = None


def _ref():
    global _REF
    if _REF is None:
        import os
        _REF = ast.parse(open(os.path.join(os.path.dirname(os.path.dirname(os.path.abspath(__file__))), "spec", "ref_ecdsa.py")).read())
    return _REF


INTS = lambda t: t in ("r", "s", "val", "order", "n", "k", "k1", "u1", "u2", "s_inverse", "w", "recid", "bln", "order_size", "hash_size", "shift", "secret_exponent", "generator_order", "x", "y", "value", "inv_r", "s_over_r", "alpha", "y0", "p", "v_int") \
    or t.startswith(("self._order", "self.inverse(", "len(", "sig[", "signature[", "int.from_bytes(", "self._p", "self._a", "self._b", "pow(", "self.modular_sqrt(", "hash_f().digest_size", "generator_order.bit_length()", "n.bit_length()", "from_bytes_32("))


def _refcheck(ctx, rel, dotted, refname, key, ints=None):
    fi = ctx.p.functions.get(ctx.p.module(rel).name + "." + dotted) or ctx.func(rel, dotted)
    return sym.against_reference(ctx, fi, _ref(), refname, key, ints or INTS)


# ------------------------------------------------------------------ C01.1
def c01_1(ctx):
    from sa import modref as _modref
    impls = [ctx.func(GEN, "Generator.verify")]
    # an implementation of verify added since the review (an override in a native mix-in, say) answers for the same ranges
    for q, g in sorted(ctx.p.functions.items()):
        if g.node.__class__.__name__ == "FunctionDef" and g.node.name == "verify" and g.module.relpath in (GEN, "pycoin/ecdsa/native/openssl.py", "pycoin/ecdsa/native/secp256k1.py") \
                and not _modref.is_reviewed(g) and len(g.params()) >= 4:
            impls.append(g)
    for f in impls:
        _verify_ranges(ctx, f)
    f = impls[0]
    w = sym.walk(ctx, f)
    for e in w.exits:
        ctx.check(e.kind == "return" and e.value is not None, "verify-returns-bool:%s" % e.kind, ctx.where(f, e.node),
                  "Generator.verify has an exit that is not `return <bool>` (%s)" % e.kind, what="exit:%s:%s" % (e.kind, norm(e.value) if e.value is not None else ""))


def _verify_ranges(ctx, f):
    params = f.params()
    if len(params) < 4:
        raise AnalysisError("Generator.verify: unexpected signature %s" % params)
    sigp, valp = params[3], params[2]
    accept = lambda e: e.kind == "return" and not _is_const_false(e.value)
    for subj, want, key in (("%s[0]" % sigp, iv(1, ("s", -1)), "r-range"), ("%s[1]" % sigp, iv(1, ("s", -1)), "s-range"), (valp, iv(0, 0).complement(), "val-nonzero")):
        w = sym.int_walk(ctx, f, {subj}, ORDER_TEXTS)
        fr = sym.exits_formula(w, accept)
        may = sym.may_set(fr, U, E) if fr is not False else E
        ctx.check(may == want, "%s:%s" % (key, f.qualname.rsplit(".", 2)[-2]) if f.qualname.count(".") > 1 else key, ctx.where(f),
                  f.qualname.split(".", 3)[-1] + ": values of %s for which the equation is evaluated are %s; the property requires exactly %s (order = self._order, the group order)" % (subj, may.fmt("order"), want.fmt("order")),
                  sample={"function": f.qualname, "subject": subj, "may_accept": may.fmt("order"), "expected": want.fmt("order")})


# ------------------------------------------------------------------ C01.2
def c01_2(ctx):
    _refcheck(ctx, GEN, "Generator.verify", "gn_verify", "verification-equation")
    _refcheck(ctx, GEN, "Generator.inverse", "gn_inverse", "inverse-mod-order")


# ------------------------------------------------------------------ C01.3
def c01_3(ctx):
    # the point compared with r is tested for infinity before a coordinate is read
    for fname in ("Generator.verify",):
        f = ctx.func(GEN, fname)
        w = sym.walk(ctx, f, int_names=INTS)
        for e in w.exits:
            if e.kind != "return" or e.value is None or _is_const_false(e.value):
                continue
            pts = [n for n in ast.walk(e.value) if isinstance(n, ast.Subscript) and isinstance(n.value, ast.BinOp) and "self" in norm(n.value)]
            if not pts:
                raise Undecided("%s: the accepting return does not read a coordinate of the combined point" % fname)
            P = norm(pts[0].value)
            # the x coordinate lives in [0, p), r in [1, n): it is compared with r after reduction modulo the order
            # (the nonce points with n <= x < p are the recovery-id 2 / 3 signatures)
            xs = [n for n in ast.walk(e.value) if isinstance(n, ast.Subscript) and norm(n.value) == P and isinstance(n.slice, ast.Constant) and n.slice.value == 0]
            cmps = [c for c in ast.walk(e.value) if isinstance(c, ast.Compare) and len(c.ops) == 1 and isinstance(c.ops[0], ast.Eq) and any(any(x is y for y in ast.walk(c)) for x in xs)]
            if xs and cmps:
                def reduced(c):
                    for side in [c.left] + list(c.comparators):
                        for m in ast.walk(side):
                            if isinstance(m, ast.BinOp) and isinstance(m.op, ast.Mod) and any(any(x is y for y in ast.walk(m.left)) for x in xs) and norm(m.right) in ORDER_TEXTS | {"order", "n"}:
                                return True
                    return False
                ctx.check(all(reduced(c) for c in cmps), "x-reduced-mod-order:%s" % f.name, ctx.where(f, e.node),
                          "%s compares the x coordinate of the combined point with r without reducing it modulo the group order: signatures whose nonce point has n <= x < p (r = x - n) are refused" % fname,
                          sample={"comparison": norm(cmps[0])[-80:]})
            ops = gi.f_opaques(e.cond) if e.cond not in (True, False) else []
            inf = [o for o in ops if P in o and ("infinity" in o or "is None" in o)]
            ctx.check(bool(inf) and all(sym.entails(e.cond, ("not", ("op", o))) for o in inf if "==" in o or " is " in o), "coordinate-before-infinity-test:%s" % f.name, ctx.where(f, e.node),
                      "%s: a coordinate of the combined point is used on a path where it may be the point at infinity (TypeError instead of a verdict)" % fname,
                      sample={"function": f.qualname, "point": P[:80], "guards": inf})
    f = ctx.func(GEN, "Generator.sign_with_recid")
    ctx.check(_nonce_stays_in_range(ctx, f), "nonce-stays-in-range", ctx.where(f), "sign_with_recid: a retried nonce can leave [1, n-1] (k*G becomes infinity, coordinates are None)")


def _nonce_stays_in_range(ctx, f):
    """the retry transformer of the nonce keeps it inside [1, n-1]: k := 1 when k + 1 >= n, else k + 1"""
    w = sym.walk(ctx, f, int_names=INTS)
    ok_any = False
    for lid, states in w.loop_out.items():
        for st in states:
            for name, v in st.env.items():
                if not isinstance(name, str) or name.startswith("\0"):
                    continue
                t = norm(v)
                if t in ("%s + 1" % name,):
                    # incremented: the path condition must say the result is below the order
                    ops = gi.f_opaques(st.reach) if st.reach not in (True, False) else []
                    lim = [o for o in ops if o.startswith("%s - self._order < " % name) or o.startswith("%s < " % name)]
                    if not lim:
                        return False
                    ok_any = True
                elif isinstance(v, ast.BinOp) and isinstance(v.op, ast.Mod) and any(isinstance(x, ast.Name) and x.id == name for x in ast.walk(v)):
                    return False       # k % n can be 0
    return ok_any


# ------------------------------------------------------------------ C01.4
def c01_4(ctx):
    f = ctx.func(GEN, "Generator.sign_with_recid")
    params = f.params()
    rfc = ctx.func(RFC, "deterministic_generate_k")
    w = sym.walk(ctx, f, int_names=INTS)
    gp = params[3]
    calls = [e for e in w.effects if e.kind == "call" and norm(e.call.func) in (gp, "deterministic_generate_k")]
    if not calls:
        raise Undecided("sign_with_recid: the nonce generator call is not recognisable")
    none_atom = ("op", "%s is None" % gp)
    dflt = [e for e in calls if norm(e.call.func) == "deterministic_generate_k"]
    user = [e for e in calls if norm(e.call.func) == gp]
    ok = bool(dflt) and all(sym.entails(e.reach, none_atom) for e in dflt) and all(sym.entails(e.reach, gi.f_not(none_atom)) for e in user)
    tgt = ctx.p.resolve_expr_static(f.module, ast.Name("deterministic_generate_k", ast.Load()))
    ctx.check(ok and getattr(tgt, "qualname", None) == rfc.qualname, "default-nonce-generator", ctx.where(f), "sign_with_recid: when gen_k is None the nonce does not come from rfc6979.deterministic_generate_k")
    rp = rfc.params()
    for e in calls:
        args = [norm(a) for a in e.call.args]
        bind = dict(zip(rp, args))
        bind.update({k.arg: norm(k.value) for k in e.call.keywords})
        ok = bind.get(rp[0]) in ORDER_TEXTS and bind.get(rp[1]) == params[1] and bind.get(rp[2]) == params[2]
        ctx.check(ok, "nonce-arguments", ctx.where(f, e.node),
                  "sign_with_recid: nonce generator called with %s; the property requires (order, secret_exponent, val) so that the nonce depends on key and hash" % bind, sample={"call": norm(e.call)[:100], "binding": bind})
    ctx.check(rp[:3] == ["generator_order", "secret_exponent", "val"], "rfc6979-signature", ctx.where(rfc), "deterministic_generate_k parameters are %s" % rp[:3])
    _refcheck(ctx, GEN, "Generator.sign", "gn_sign", "sign-forwards")


# ------------------------------------------------------------------ C01.5
def c01_5(ctx):
    f = ctx.func(RFC, "deterministic_generate_k")
    a = f.node.args
    dflt = dict(zip([x.arg for x in a.args][len(a.args) - len(a.defaults):], a.defaults))
    ctx.check("hash_f" in dflt and norm(dflt["hash_f"]) == "hashlib.sha256", "default-hash", ctx.where(f),
              "deterministic_generate_k: default hash is %s, RFC 6979 for Bitcoin uses HMAC-SHA256" % (norm(dflt["hash_f"]) if "hash_f" in dflt else None))
    _refcheck(ctx, RFC, "deterministic_generate_k", "rfc_generate_k", "rfc6979-steps")
    # bits2octets: the (shifted) hash is reduced by n exactly when it is >= n, whatever the shift was
    n_, d_, z_ = f.params()[:3]
    wz = sym.walk(ctx, f, int_names=INTS)
    tb = [e for e in wz.effects if e.kind == "call" and isinstance(e.call.func, ast.Attribute) and e.call.func.attr == "to_bytes"
          and any(isinstance(x, ast.Name) and x.id == z_ for x in ast.walk(e.call.func.value))]
    if not tb:
        raise Undecided("deterministic_generate_k: no <hash>.to_bytes(...) call found")
    for e in tb:
        X = e.call.func.value
        l = wz.canon._lin(X, True)
        coef = l[0].get(n_, [0])[0] if l is not None else 0
        reduced = coef == -1
        V = wz.canon.expr(ast.BinOp(X, ast.Add(), ast.Name(n_, ast.Load()))) if reduced else X
        A = wz.atomize(ast.Compare(V, [ast.Lt()], [ast.Name(n_, ast.Load())]), True)
        ok = coef in (0, -1) and (sym.entails(e.reach, gi.f_not(A)) if reduced else sym.entails(e.reach, A))
        ctx.check(ok, "bits2octets-reduction", ctx.where(f, e.node),
                  "deterministic_generate_k hashes `%s` into the nonce on a path where it is %s: RFC 6979 bits2octets reduces the (shifted) hash modulo n exactly when it is >= n, independently of the shift"
                  % (norm(X)[:60], "not known to be >= n" if reduced else "not known to be < n"), what="bits2octets:%s" % ("reduced" if reduced else "unreduced"), sample={"h1": norm(X)[:80], "reduced": reduced})
    # candidates returned are exactly [1, n-1]
    w0 = sym.walk(ctx, f, int_names=INTS)
    rets = [e for e in w0.exits if e.kind == "return" and e.value is not None]
    if not rets:
        raise Undecided("deterministic_generate_k returns nothing")
    for e0 in rets:
        subj = norm(e0.value)
        w = sym.int_walk(ctx, f, {subj}, {n_})
        fr = sym.exits_formula(w, lambda e: e.kind == "return" and e.node is e0.node)
        may = sym.may_set(fr, U, E) if fr is not False else E
        if may == U:
            unread = [o for o in (gi.f_opaques(fr) if fr not in (True, False) else []) if isinstance(o, str) and " < " in o and (n_ in o.split(" < ")[-1].split() or o.strip().endswith("< 1"))]
            if unread:
                ctx.undecided("candidate-range", ctx.where(f, e0.node), "deterministic_generate_k compares a candidate with the order as `%s`, which this rule cannot tie to the value returned (`%s`)" % (unread[0][:70], subj[:50]))
                continue
        ctx.check(may == iv(1, ("s", -1)), "candidate-range", ctx.where(f, e0.node), "deterministic_generate_k: candidates returned are %s, RFC 6979 3.2.h.3 requires exactly [1, n-1]" % may.fmt("n"), sample={"returned": may.fmt("n")})


# ------------------------------------------------------------------ C01.6
def c01_6(ctx):
    f = ctx.func(GEN, "Generator.sign_with_recid")
    params = f.params()
    w = sym.int_walk(ctx, f, {params[2]}, ORDER_TEXTS)
    fr = sym.exits_formula(w, lambda e: e.kind == "raise")
    s, n = sym.decisive_set(fr, U, E) if fr is not False else (E, 0)
    ctx.check(s == iv(0, 0), "zero-hash-refused", ctx.where(f), "sign_with_recid: hash values refused are %s, expected exactly {0}" % s.fmt())
    _refcheck(ctx, GEN, "Generator.sign_with_recid", "gn_sign_with_recid", "signing-equation")
    # the retry guard looks at the VALUES THAT ARE RETURNED: r and s as handed out are the terms compared with 0 (a guard on the
    # unreduced s lets a non-zero multiple of the order through, and the signature carries s = 0)
    w2 = sym.walk(ctx, f)
    rets = [e for e in w2.exits if e.kind == "return" and isinstance(e.value, ast.Tuple) and len(e.value.elts) >= 2]
    if not rets:
        ctx.undecided("retry-guard-on-returned-values", ctx.where(f), "sign_with_recid returns no (r, s, ..) tuple this rule can read")
    for e in rets:
        v = e.value
        ops = [o for o in (gi.f_opaques(e.cond) if e.cond not in (True, False) else []) if isinstance(o, str)]
        for nm, elt in (("r", v.elts[0]), ("s", v.elts[1])):
            t = norm(elt)
            zero_tests = [o for o in ops if o in ("0 == %s" % t, "%s == 0" % t)]
            if zero_tests and all(sym.entails(e.cond, ("not", ("op", o))) for o in zero_tests):
                ctx.ok("retry-guard-on-returned-values:%s" % nm, sample={"returned": t[:70], "guard": zero_tests[0][:80]})
                continue
            tested = [o[5:] for o in ops if o.startswith("0 == ")] + [o[:-5] for o in ops if o.endswith(" == 0")]
            inner = [x for x in tested if x != t and len(x) > 8 and (t.startswith(x + " % ") or t.startswith("(" + x + ") % "))]
            if inner:
                ctx.bad("retry-guard-on-returned-values:%s" % nm, ctx.where(f, e.node), "sign_with_recid returns %s = `%s` but its retry guard compares `%s` with 0: the value is reduced AFTER the test, so a non-zero multiple of the order passes the guard and %s = 0 is handed out"
                        % (nm, t[:80], inner[0][:80], nm))
            else:
                ctx.undecided("retry-guard-on-returned-values:%s" % nm, ctx.where(f, e.node), "sign_with_recid returns %s = `%s`; no comparison of that term with 0 found among %s" % (nm, t[:60], [o[:40] for o in ops][:4]))


# ------------------------------------------------------------------ C01.7
def c01_7(ctx):
    f = ctx.func(KEY, "Key.verify")
    w = sym.walk(ctx, f)
    calls = sym.calls_matching(w, lambda t: t == "sigdecode_der")
    if not calls:
        raise Undecided("Key.verify does not call sigdecode_der")
    der = ctx.func("pycoin/satoshi/der.py", "sigdecode_der")
    for e in calls:
        kw = {k.arg: k.value for k in e.raw.keywords}
        pos = dict(zip(der.params(), e.raw.args))
        flag = kw.get("use_broken_open_ssl_mechanism", pos.get("use_broken_open_ssl_mechanism"))
        ctx.check(isinstance(flag, ast.Constant) and flag.value is False, "strict-der", ctx.where(f, e.node),
                  "Key.verify decodes the signature with use_broken_open_ssl_mechanism=%s; the application-level verifier must be strict" % (norm(flag) if flag is not None else "<default True>"))
        names = set()
        tries = sym.enclosing_tries(f.node, e.node)
        for t in tries:
            names |= sym.handler_names(t)
        ret_false = any(isinstance(x, ast.Return) and _is_const_false(x.value) for t in tries for h in t.handlers for x in h.body)
        ctx.check(({"UnexpectedDER", "ValueError"} <= names or bool(names & {"Exception", "BaseException"})) and ret_false, "der-errors-to-false", ctx.where(f, e.node), "Key.verify does not turn UnexpectedDER/ValueError from the decoder into False")
    _refcheck(ctx, KEY, "Key.verify", "key_verify", "verify-wrapper")
    _refcheck(ctx, KEY, "Key.sign", "key_sign", "sign-wrapper")


# ------------------------------------------------------------------ C01.8
def c01_8(ctx):
    allowed = {"multiply", "raw_mul", "inverse_mod", "__mul__", "sign", "verify"}
    mods = [("pycoin/ecdsa/native/openssl.py", None), ("pycoin/ecdsa/native/secp256k1.py", None)]
    for rel, _ in mods:
        m = ctx.p.module(rel)
        for n in ast.walk(m.tree):
            if isinstance(n, ast.ClassDef) and n.name == "Optimizations":
                meths = {b.name for b in n.body if isinstance(b, (ast.FunctionDef, ast.AsyncFunctionDef))}
                extra = meths - allowed
                ctx.check(not extra, "override-inventory:%s" % m.name, "%s:%d" % (rel, n.lineno),
                          "%s.Optimizations overrides %s: these shadow Generator methods that every other obligation analyses" % (m.name, sorted(extra)),
                          sample={"class": "%s.Optimizations" % m.name, "overrides": sorted(meths)})
    # the shipped secp256k1 generator is assembled with Generator last
    m = ctx.p.module("pycoin/ecdsa/secp256k1.py")
    c = m.classes.get("GeneratorWithOptimizations")
    if c is None:
        raise AnalysisError("secp256k1.GeneratorWithOptimizations not found")
    ctx.check(norm(c.base_exprs[-1]) == "Generator", "generator-last-in-mro", "%s:%d" % (m.relpath, c.node.lineno), "GeneratorWithOptimizations does not end its bases with Generator")
    # native verify rejects what the pure verify rejects: parse failures return False
    f = ctx.func("pycoin/ecdsa/native/secp256k1.py", "Optimizations.verify")
    w = sym.SymWalker(f.node, sym.Canon(None, None))
    ex = w.run()
    ctx.check(all(e.kind == "return" for e in ex), "native-verify-returns", ctx.where(f), "native verify has a non-return exit")


# ------------------------------------------------------------------ C01.9 recovery
def c01_9(ctx):
    _refcheck(ctx, GEN, "Generator.possible_public_pairs_for_signature", "gn_possible_public_pairs", "recovery-formula")
    _refcheck(ctx, GEN, "Generator.points_for_x", "gn_points_for_x", "recovery-candidates")
    # no key verifies a signature with s outside [1, n-1], r = 0 (mod n) or a zero hash: recovery returns no key for those
    f = ctx.func(GEN, "Generator.possible_public_pairs_for_signature")
    valp, sigp = f.params()[1], f.params()[2]
    empty = lambda e: e.kind == "return" and isinstance(e.value, ast.List) and not e.value.elts
    for subj_texts, want, key, what in (({"%s[1]" % sigp}, iv(1, ("s", -1)).complement(), "recovery-s-range", "s outside [1, n-1]"),):
        w = sym.int_walk(ctx, f, subj_texts, ORDER_TEXTS | {"order"})
        fr = sym.exits_formula(w, empty)
        s_, n_ = sym.decisive_set(fr, U, E) if fr is not False else (E, 0)
        ctx.check(want.issubset(s_), key, ctx.where(f), "possible_public_pairs_for_signature returns candidates for %s (it returns [] only for s in %s): no key verifies such a signature" % (what, s_.fmt("order")),
                  sample={"empty_for_s": s_.fmt("order")})
    w = sym.walk(ctx, f, int_names=INTS)
    ctx.check(sym.guard_present(w, empty, lambda o: o.replace(" ", "") in ("0==%s" % valp, "%s==0" % valp)), "recovery-zero-hash", ctx.where(f), "possible_public_pairs_for_signature returns candidates for a zero hash")
    ctx.check(sym.guard_present(w, empty, lambda o: "%s[0] %% " % sigp in o and "== 0" in o or o.startswith("0 == %s[0] %% " % sigp)), "recovery-r-zero", ctx.where(f),
              "possible_public_pairs_for_signature returns candidates for r = 0 (mod n)")


# ------------------------------------------------------------------ C01.10
def c01_10(ctx):
    """the digest reaches the nonce generator and the s equation as it is: RFC 6979 takes the leftmost bits of the HASH
    (bits2int), so a wrapper that reduces it modulo the order first changes the nonce (and refuses z = n)"""
    g = ctx.func(GEN, "Generator.sign")
    valp = g.params()[2]
    w = sym.walk(ctx, g)
    calls = [e for e in w.effects if e.kind == "call" and norm(e.raw.func) == "self.sign_with_recid"]
    if not calls:
        raise Undecided("Generator.sign does not delegate to self.sign_with_recid")
    for e in calls:
        a = e.call.args
        ctx.check(len(a) >= 2 and norm(a[1]) == valp, "sign-forwards-hash", ctx.where(g, e.node),
                  "Generator.sign hands `%s` to sign_with_recid where the caller's value `%s` belongs: the nonce is derived from the hash itself" % (norm(a[1]) if len(a) >= 2 else None, valp))
    k = ctx.func(KEY, "Key.sign")
    hp = k.params()[1]
    wk = sym.walk(ctx, k)
    sc = [e for e in wk.effects if e.kind == "call" and norm(e.raw.func).endswith("_generator.sign")]
    if not sc:
        raise Undecided("Key.sign does not call the generator's sign")
    for e in sc:
        a = e.call.args
        ctx.check(len(a) >= 2 and norm(a[1]) in ("from_bytes_32(%s)" % hp, "int.from_bytes(%s, 'big')" % hp, "int.from_bytes(%s, byteorder='big')" % hp), "key-sign-forwards-hash", ctx.where(k, e.node),
                  "Key.sign signs `%s`; the value signed is the 32-byte hash read as a big-endian integer, unreduced" % (norm(a[1]) if len(a) >= 2 else None))


OBLIGATIONS = [
    Ob("C01.1", "verify: range guards as intervals, boolean exits only", c01_1, floor=5, engines="SYM,GI", breaks_if="(r,n), (0,s), (n+r,s), val=0"),
    Ob("C01.2", "verify: accepted iff ((val/s)G + (r/s)Q).x mod n == r", c01_2, floor=2, engines="SYM", breaks_if="any signature / swapped u1,u2"),
    Ob("C01.3", "infinity test dominates coordinate use in verify and sign_with_recid", c01_3, floor=2, engines="SYM", breaks_if="Q = -(z/r)G; nonce retry reaching k = n"),
    Ob("C01.4", "nonce generator bound to RFC 6979 with (order, key, hash)", c01_4, floor=4, engines="SYM", breaks_if="nonce reuse across hashes or keys"),
    Ob("C01.5", "deterministic_generate_k has the RFC 6979 section 3.2 shape", c01_5, floor=3, engines="SYM,GI", breaks_if="every (d,z): signature differs from RFC 6979 / nonce ignores z"),
    Ob("C01.6", "sign_with_recid: retry guard, r/s definitions modulo the order, recovery id", c01_6, floor=2, engines="SYM,GI", breaks_if="r == 0 or s == 0 returned; wrong modulus"),
    Ob("C01.7", "Key.sign / Key.verify DER wrapper: strict decode, errors to False, (r,s) order", c01_7, floor=4, engines="SYM"),
    Ob("C01.8", "native backends override only arithmetic / sign / verify", c01_8, floor=3, engines="PM,SIB"),
    Ob("C01.10", "sign wrappers hand the digest on unreduced (RFC 6979 bits2int takes the hash itself)", c01_10, floor=2, engines="SYM", breaks_if="z = n on secp256k1; every z >= n on a curve with a shorter order"),
    Ob("C01.9", "public-key recovery formula and candidate selection", c01_9, floor=2, engines="SYM", breaks_if="recovered key does not verify"),
]
