"""GI - guard -> value-set abstraction.

For one function and one *subject* (a parameter, len(x), an attribute, a masked expression ...)
compute, per exit of the function, the set of subject values that can reach it.  Comparisons of the
subject with constants / named symbols become integer interval sets with symbolic endpoints, or
explicit subsets of a finite domain; conditions that do not talk about the subject stay opaque
boolean atoms which are enumerated (so that `a and not a` is recognised as infeasible).
"""
from __future__ import annotations

import ast
import itertools

from .pm import AnalysisError, norm

NEG_INF = (-1, 0)
POS_INF = (3, 0)


class IntSet:
    """Union of closed integer intervals.  Points are (tier, k): tier 0 = the plain integer k,
    tier 1 = SYM + k for the single symbol of the analysis (assumed larger than every plain
    integer that occurs), tier 2 = 2*SYM... not used."""

    def __init__(self, ivs=()):
        self.ivs = self._normalise(list(ivs))

    @staticmethod
    def _succ(p):
        return p if p in (NEG_INF, POS_INF) else (p[0], p[1] + 1)

    @staticmethod
    def _pred(p):
        return p if p in (NEG_INF, POS_INF) else (p[0], p[1] - 1)

    @classmethod
    def _normalise(cls, ivs):
        ivs = sorted((a, b) for a, b in ivs if a <= b)
        out = []
        for a, b in ivs:
            if out and a <= cls._succ(out[-1][1]):
                if b > out[-1][1]:
                    out[-1] = (out[-1][0], b)
            else:
                out.append((a, b))
        return tuple(out)

    @classmethod
    def all(cls):
        return cls([(NEG_INF, POS_INF)])

    @classmethod
    def empty(cls):
        return cls([])

    @classmethod
    def cmp(cls, op, pt):
        """{x | x OP pt}"""
        if op == "==":
            return cls([(pt, pt)])
        if op == "!=":
            return cls([(pt, pt)]).complement()
        if op == "<":
            return cls([(NEG_INF, cls._pred(pt))])
        if op == "<=":
            return cls([(NEG_INF, pt)])
        if op == ">":
            return cls([(cls._succ(pt), POS_INF)])
        if op == ">=":
            return cls([(pt, POS_INF)])
        raise AnalysisError("IntSet.cmp %s" % op)

    def complement(self):
        out = []
        cur = NEG_INF
        open_ = True
        for a, b in self.ivs:
            if a != NEG_INF:
                out.append((cur, self._pred(a)))
            cur = self._succ(b)
            if b == POS_INF:
                open_ = False
        if open_:
            out.append((cur, POS_INF))
        if not self.ivs:
            return IntSet.all()
        return IntSet(out)

    def __and__(self, o):
        out = []
        for a, b in self.ivs:
            for c, d in o.ivs:
                lo, hi = max(a, c), min(b, d)
                if lo <= hi:
                    out.append((lo, hi))
        return IntSet(out)

    def __or__(self, o):
        return IntSet(self.ivs + o.ivs)

    def __eq__(self, o):
        return isinstance(o, IntSet) and self.ivs == o.ivs

    def __hash__(self):
        return hash(self.ivs)

    def issubset(self, o):
        return (self & o) == self

    def is_empty(self):
        return not self.ivs

    def fmt(self, sym="SYM"):
        def p(x):
            if x == NEG_INF:
                return "-inf"
            if x == POS_INF:
                return "+inf"
            if x[0] == 0:
                return str(x[1])
            return sym + ("" if x[1] == 0 else "%+d" % x[1])
        if not self.ivs:
            return "{}"
        return " u ".join("[%s,%s]" % (p(a), p(b)) if a != b else "{%s}" % p(a) for a, b in self.ivs)

    def __repr__(self):
        return self.fmt()


def iv(lo, hi):
    """helper: interval with endpoints given as int | ('s', k) | None(=inf)"""
    def pt(x, inf):
        if x is None:
            return inf
        if isinstance(x, tuple):
            return (1, x[1])
        return (0, x)
    return IntSet([(pt(lo, NEG_INF), pt(hi, POS_INF))])


class FinSet:
    """Explicit subset of a finite domain."""

    def __init__(self, members, domain):
        self.m = frozenset(members)
        self.domain = domain

    def complement(self):
        return FinSet(self.domain - self.m, self.domain)

    def __and__(self, o):
        return FinSet(self.m & o.m, self.domain)

    def __or__(self, o):
        return FinSet(self.m | o.m, self.domain)

    def __eq__(self, o):
        return isinstance(o, FinSet) and self.m == o.m

    def __hash__(self):
        return hash(self.m)

    def issubset(self, o):
        return self.m <= o.m

    def is_empty(self):
        return not self.m

    def fmt(self, sym=None):
        xs = sorted(self.m)
        if len(xs) > 24:
            return "{%d values: %s ...}" % (len(xs), ",".join(map(str, xs[:12])))
        return "{%s}" % ",".join(map(str, xs))

    __repr__ = fmt


# ---------------------------------------------------------------- formulas
# ("set", ValueSet) | ("op", text) | ("not", f) | ("and", [f..]) | ("or", [f..]) | True | False

def f_not(f):
    if f is True:
        return False
    if f is False:
        return True
    if f[0] == "not":
        return f[1]
    if f[0] == "set":
        return ("set", f[1].complement())
    return ("not", f)


def f_and(*fs):
    out = []
    for f in fs:
        if f is False:
            return False
        if f is True:
            continue
        if f[0] == "and":
            out.extend(f[1])
        else:
            out.append(f)
    if not out:
        return True
    return out[0] if len(out) == 1 else ("and", out)


def f_or(*fs):
    out = []
    for f in fs:
        if f is True:
            return True
        if f is False:
            continue
        if f[0] == "or":
            out.extend(f[1])
        else:
            out.append(f)
    if not out:
        return False
    return out[0] if len(out) == 1 else ("or", out)


def f_opaques(f, acc=None):
    acc = acc if acc is not None else []
    if f in (True, False):
        return acc
    if f[0] == "op":
        if f[1] not in acc:
            acc.append(f[1])
    elif f[0] == "not":
        f_opaques(f[1], acc)
    elif f[0] in ("and", "or"):
        for g in f[1]:
            f_opaques(g, acc)
    return acc


def f_eval(f, assign, univ, empty):
    if f is True:
        return univ
    if f is False:
        return empty
    k = f[0]
    if k == "set":
        return f[1]
    if k == "op":
        return univ if assign[f[1]] else empty
    if k == "not":
        return f_eval(f[1], assign, univ, empty).complement()
    if k == "and":
        r = univ
        for g in f[1]:
            r = r & f_eval(g, assign, univ, empty)
            if r.is_empty():
                break
        return r
    if k == "or":
        r = empty
        for g in f[1]:
            r = r | f_eval(g, assign, univ, empty)
        return r
    raise AnalysisError("bad formula")


def f_equiv(f1, f2, univ=None, empty=None):
    """semantic equivalence of two formulas (truth table over the opaque atoms; set atoms compared as sets)"""
    if univ is None:
        univ, empty = FinSet({0}, frozenset({0})), FinSet((), frozenset({0}))
    ops = f_opaques(f1)
    f_opaques(f2, ops)
    if len(ops) > 14:
        raise AnalysisError("too many opaque atoms")
    for bits in itertools.product((False, True), repeat=len(ops)):
        a = dict(zip(ops, bits))
        if not (f_eval(f1, a, univ, empty) == f_eval(f2, a, univ, empty)):
            return False
    return True


def sat_set(f, univ, empty, limit=14, assume=None):
    """Set of subject values for which f is satisfiable for SOME truth assignment of the opaque atoms
    (atoms listed in `assume` are fixed)."""
    ops = f_opaques(f)
    if len(ops) > limit:
        raise AnalysisError("too many opaque atoms (%d) in guard formula" % len(ops))
    r = empty
    for bits in itertools.product((False, True), repeat=len(ops)):
        a = dict(zip(ops, bits))
        if assume and any(k in a and a[k] != v for k, v in assume.items()):
            continue
        r = r | f_eval(f, a, univ, empty)
    return r


# ------------------------------------------------------------------ walker
class Exit:
    def __init__(self, kind, node, cond, value=None):
        self.kind = kind      # return | raise | fall | yield
        self.node = node
        self.cond = cond
        self.value = value    # ast expr of returned value / raised exception

    def __repr__(self):
        return "<Exit %s L%s %s>" % (self.kind, getattr(self.node, "lineno", "?"), norm(self.value) if self.value is not None else "")


class GuardWalker:
    """Walks a function body keeping the reach formula.  `atomize(test) -> formula` is supplied by the rule."""

    def __init__(self, atomize, call_raises=None, env=None):
        self._atomize = atomize
        self.env = env if env is not None else {}      # boolean locals -> formula
        self.exits = []
        self.call_raises = call_raises   # optional: expr-stmt call -> formula under which it raises
        self.visits = []                 # (stmt, reach formula) for every simple statement

    def atomize(self, t):
        """atomize with tracked boolean locals substituted"""
        if isinstance(t, ast.Name) and t.id in self.env:
            return self.env[t.id]
        if isinstance(t, ast.BoolOp):
            parts = [self.atomize(v) for v in t.values]
            return f_and(*parts) if isinstance(t.op, ast.And) else f_or(*parts)
        if isinstance(t, ast.UnaryOp) and isinstance(t.op, ast.Not):
            return f_not(self.atomize(t.operand))
        if isinstance(t, ast.Call) and isinstance(t.func, ast.Name) and t.func.id == "bool" and len(t.args) == 1:
            return self.atomize(t.args[0])
        return self._atomize(t)

    @staticmethod
    def _boolish(v):
        return isinstance(v, (ast.Compare, ast.BoolOp)) or (isinstance(v, ast.UnaryOp) and isinstance(v.op, ast.Not)) or \
            (isinstance(v, ast.Constant) and isinstance(v.value, bool)) or \
            (isinstance(v, ast.Call) and isinstance(v.func, ast.Name) and v.func.id == "bool")

    def run(self, body):
        r = self.block(body, True)
        if r is not False:
            self.exits.append(Exit("fall", None, r))
        return self.exits

    def block(self, body, reach):
        """returns the formula under which control falls out of the block (False if never)."""
        loopouts = []
        for st in body:
            if reach is False:
                break
            reach = self.stmt(st, reach)
        return reach

    def stmt(self, st, reach):
        if isinstance(st, ast.If):
            c = self.atomize(st.test)
            ra, rb = f_and(reach, c), f_and(reach, f_not(c))
            env0 = dict(self.env)
            a = self.block(st.body, ra)
            env_a = self.env
            self.env = dict(env0)
            b = self.block(st.orelse, rb)
            env_b = self.env
            merged = {}
            for k in set(env_a) | set(env_b):
                va, vb = env_a.get(k), env_b.get(k)
                if a is False and vb is not None:
                    merged[k] = vb
                elif b is False and va is not None:
                    merged[k] = va
                elif va is not None and vb is not None:
                    merged[k] = va if va == vb else f_or(f_and(c, va), f_and(f_not(c), vb))
            self.env = merged
            if a == ra and b == rb:
                return reach          # both branches fall through: (R and c) or (R and not c) == R
            return f_or(a, b)
        if isinstance(st, ast.Return):
            self.exits.append(Exit("return", st, reach, st.value))
            return False
        if isinstance(st, ast.Raise):
            self.exits.append(Exit("raise", st, reach, st.exc))
            return False
        if isinstance(st, ast.Assert):
            c = self.atomize(st.test)
            self.exits.append(Exit("raise", st, f_and(reach, f_not(c)), None))
            return f_and(reach, c)
        if isinstance(st, (ast.For, ast.AsyncFor, ast.While)):
            assigned = {n.id for x in st.body for n in ast.walk(x) if isinstance(n, ast.Name) and isinstance(n.ctx, ast.Store)}
            inner = GuardWalker(self._atomize, self.call_raises, {k: v for k, v in self.env.items() if k not in assigned})
            self.env = {k: v for k, v in self.env.items() if k not in assigned}
            inner.loop_depth = 1
            cond = True
            if isinstance(st, ast.While):
                cond = inner.atomize(st.test)
            body_reach = f_and(reach, cond) if cond is not True else reach
            fall = inner.block(st.body, body_reach)
            self.exits.extend(inner.exits)
            self.visits.extend(inner.visits)
            # zero or more iterations: after the loop the reach formula is the entry formula
            out = reach
            if st.orelse:
                out = self.block(st.orelse, out)
            return out
        if isinstance(st, (ast.Break, ast.Continue)):
            return False
        if isinstance(st, ast.Try):
            body = self.block(st.body, reach)
            outs = [body]
            for i, h in enumerate(st.handlers):
                hc = ("op", "exc@%s" % getattr(h, "lineno", i))
                outs.append(self.block(h.body, f_and(reach, hc)))
            r = f_or(*outs)
            if st.orelse:
                r = self.block(st.orelse, r)
            if st.finalbody:
                r = self.block(st.finalbody, r)
            return r
        if isinstance(st, ast.With):
            return self.block(st.body, reach)
        if isinstance(st, (ast.FunctionDef, ast.AsyncFunctionDef, ast.ClassDef)):
            return reach
        self.visits.append((st, reach))
        if isinstance(st, (ast.Assign, ast.AnnAssign)) and getattr(st, "value", None) is not None:
            tg = st.targets if isinstance(st, ast.Assign) else [st.target]
            for t in tg:
                for n in ast.walk(t):
                    if isinstance(n, ast.Name):
                        self.env.pop(n.id, None)
            if len(tg) == 1 and isinstance(tg[0], ast.Name) and (self._boolish(st.value) or (isinstance(st.value, ast.Name) and st.value.id in self.env)):
                try:
                    self.env[tg[0].id] = self.atomize(st.value)
                except AnalysisError:
                    pass
        elif isinstance(st, ast.AugAssign) and isinstance(st.target, ast.Name):
            self.env.pop(st.target.id, None)
        if self.call_raises is not None:
            rc = self.call_raises(st)
            if rc is not None:
                self.exits.append(Exit("raise", st, f_and(reach, rc), None))
                return f_and(reach, f_not(rc))
        return reach


_OPS = {ast.Eq: "==", ast.NotEq: "!=", ast.Lt: "<", ast.LtE: "<=", ast.Gt: ">", ast.GtE: ">="}
_FLIP = {"<": ">", "<=": ">=", ">": "<", ">=": "<=", "==": "==", "!=": "!="}


class SymbolicAtomizer:
    """Turns tests into formulas for an integer subject.

    is_subject(expr) -> bool
    const(expr) -> int | ('s', k) | None      (('s',k) means SYMBOL + k)
    """

    def __init__(self, is_subject, const, truthy_is_nonzero=True):
        self.is_subject = is_subject
        self.const = const
        self.truthy = truthy_is_nonzero

    @staticmethod
    def pt(c):
        return (1, c[1]) if isinstance(c, tuple) else (0, c)

    def __call__(self, t):
        if isinstance(t, ast.BoolOp):
            parts = [self(v) for v in t.values]
            return f_and(*parts) if isinstance(t.op, ast.And) else f_or(*parts)
        if isinstance(t, ast.UnaryOp) and isinstance(t.op, ast.Not):
            return f_not(self(t.operand))
        if isinstance(t, ast.Compare):
            fs = []
            left = t.left
            for op, right in zip(t.ops, t.comparators):
                fs.append(self.compare(left, op, right, t))
                left = right
            return f_and(*fs)
        if self.is_subject(t) and self.truthy:
            return ("set", IntSet.cmp("!=", (0, 0)))
        if isinstance(t, ast.Constant):
            return True if t.value else False
        return ("op", norm(t))

    def compare(self, l, op, r, whole):
        if isinstance(op, (ast.In, ast.NotIn)) and self.is_subject(l) and isinstance(r, (ast.Tuple, ast.List, ast.Set)):
            s = IntSet.empty()
            for e in r.elts:
                c = self.const(e)
                if c is None:
                    return ("op", norm(ast.Compare(l, [op], [r])))
                s = s | IntSet.cmp("==", self.pt(c))
            return ("set", s if isinstance(op, ast.In) else s.complement())
        o = _OPS.get(type(op))
        if o is not None:
            # subject +/- k  OP  const   ==>   subject OP const -/+ k
            for a, b, flip in ((l, r, False), (r, l, True)):
                if isinstance(a, ast.BinOp) and isinstance(a.op, (ast.Add, ast.Sub)) and self.is_subject(a.left):
                    from .df import const_int as _ci
                    k = _ci(a.right)
                    c = self.const(b)
                    if k is not None and c is not None:
                        k = k if isinstance(a.op, ast.Add) else -k
                        t, v = self.pt(c)
                        return ("set", IntSet.cmp(_FLIP[o] if flip else o, (t, v - k)))
            if self.is_subject(l):
                c = self.const(r)
                if c is not None:
                    return ("set", IntSet.cmp(o, self.pt(c)))
            if self.is_subject(r):
                c = self.const(l)
                if c is not None:
                    return ("set", IntSet.cmp(_FLIP[o], self.pt(c)))
        return ("op", norm(ast.Compare(l, [op], [r])))


class FiniteAtomizer:
    """Finite subject domain: every boolean sub-expression whose value is determined by the subject
    alone is evaluated for each domain value by `evalf(expr, value) -> bool` (raises on unknown)."""

    def __init__(self, domain, evalf):
        self.domain = frozenset(domain)
        self.evalf = evalf
        self.evaluated = 0

    def __call__(self, t):
        try:
            members = set()
            for v in self.domain:
                self.evaluated += 1
                if self.evalf(t, v):
                    members.add(v)
            return ("set", FinSet(members, self.domain))
        except Exception:
            pass
        if isinstance(t, ast.BoolOp):
            parts = [self(v) for v in t.values]
            return f_and(*parts) if isinstance(t.op, ast.And) else f_or(*parts)
        if isinstance(t, ast.UnaryOp) and isinstance(t.op, ast.Not):
            return f_not(self(t.operand))
        return ("op", norm(t))

    def univ(self):
        return FinSet(self.domain, self.domain)

    def empty(self):
        return FinSet((), self.domain)


def involves_subject(f):
    """True when the formula contains an atom about the subject (a value set)."""
    if f in (True, False):
        return False
    if f[0] == "set":
        return True
    if f[0] == "not":
        return involves_subject(f[1])
    if f[0] in ("and", "or"):
        return any(involves_subject(g) for g in f[1])
    return False


def reach_sets(exits, pred, univ, empty):
    """(may, must): subject values that MAY reach an exit satisfying pred / MUST (cannot reach any other exit)."""
    may = empty
    other = empty
    for e in exits:
        s = sat_set(e.cond, univ, empty)
        if pred(e):
            may = may | s
        else:
            other = other | s
    return may, other.complement()
