#!/bin/bash
# seedrun.sh [Cxx ...]: every confirmed variant in /verif/seeded (breaking: Cxx-N, Cxx-bN; refactoring twins: Cxx-rN) and every
# fix revert recorded for the property, applied to a scratch copy of /repo's working tree (VERIF_REPO); /repo is untouched.
cd /verif
run() { # pid label kind patchfile reverse
  td=$(mktemp -d /tmp/vs-XXXXXX); cp -r /repo/pycoin $td/pycoin
  if [ -n "$5" ]; then (cd $td && patch -p1 -R -s --no-backup-if-mismatch -i $4 >/dev/null 2>&1) || { echo "$2: revert does not apply"; rm -rf $td; return; }
  else (cd $td && patch -p1 -s --no-backup-if-mismatch -i $4 >/dev/null 2>&1) || { echo "$2: patch failed"; rm -rf $td; return; }; fi
  out=$(VERIF_REPO=$td ./check $1 --no-evidence 2>&1); code=$?
  rm -rf $td
  rules=$(echo "$out" | grep -E "^VIOLATED" | awk '{print $2}' | sort -u | tr '\n' ' ')
  und=$(echo "$out" | grep -E "^UNDECIDED" | awk '{print $3}' | sort -u | tr '\n' ' ')
  if [ "$3" = refactoring ]; then
    if [ $code -eq 0 ]; then echo "$2: silent ${und:+(undecided $und)}"; elif [ $code -eq 1 ]; then echo "$2: FALSE ALARM by $rules"; else echo "$2: twin -> analysis-error: $(echo "$out" | grep ANALYSIS-ERROR | head -1 | cut -c1-200)"; fi
  else
    if [ $code -eq 1 ]; then echo "$2: CAUGHT by $rules"; elif [ $code -eq 2 ]; then echo "$2: analysis-error: $(echo "$out" | grep ANALYSIS-ERROR | head -1 | cut -c1-200)"; else echo "$2: MISSED ${und:+(undecided $und)}"; fi
  fi
}
for d in seeded/*; do
  [ -f $d/patch.diff ] || continue
  pid=$(basename $d | cut -d- -f1); k=$(basename $d | cut -d- -f2)
  if [ $# -gt 0 ] && [[ ! " $* " =~ " $pid " ]]; then continue; fi
  case $k in r*) kind=refactoring;; *) kind=breaking;; esac
  run $pid $(basename $d) $kind /verif/$d/patch.diff &
  while [ $(jobs -r | wc -l) -ge ${JOBS:-12} ]; do sleep 0.1; done
done
wait
python3 - "$@" <<'PY' | while read pid commit; do git -C /repo show --format= $commit -- pycoin > /tmp/vs-revert-$commit.diff; run $pid "$pid-revert-$commit" breaking /tmp/vs-revert-$commit.diff R; rm -f /tmp/vs-revert-$commit.diff; done
import json, sys
want = set(sys.argv[1:])
for f in json.load(open("/verif/known_findings.json"))["findings"]:
    if f.get("status") == "fixed" and f.get("commit") and (not want or f["property"] in want):
        print(f["property"], f["commit"])
PY
