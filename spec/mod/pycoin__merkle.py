"""Transcription of every function of pycoin/merkle.py as of the reviewed tree (see DESIGN.md section 12).
NEVER IMPORTED OR EXECUTED: parsed and compared in canonical form (sa/sym.py) with the functions in /repo."""


_CONSTS = {

}


# pycoin/merkle.py :: merkle
def q__merkle(hashes, hash_f=double_sha256):
    while len(hashes) > 1:
        hashes = merkle_pair(hashes, hash_f)
    return hashes[0]


# pycoin/merkle.py :: merkle_pair
def q__merkle_pair(hashes, hash_f):
    if len(hashes) % 2 == 1:
        hashes = list(hashes)
        hashes.append(hashes[-1])
    items = []
    for i in range(0, len(hashes), 2):
        items.append(hash_f(hashes[i] + hashes[i + 1]))
    return items


# pycoin/merkle.py :: test_merkle
def q__test_merkle():
    s1 = h2b_rev('56dee62283a06e85e182e2d0b421aceb0eadec3d5f86cdadf9688fc095b72510')
    assert merkle([s1], double_sha256) == s1
    mr = h2b_rev('30325a06daadcefb0a3d1fe0b6112bb6dfef794316751afc63f567aef94bd5c8')
    s1 = h2b_rev('67ffe41e53534805fb6883b4708fd3744358f99e99bc52111e7a17248effebee')
    s2 = h2b_rev('c8b336acfc22d66edf6634ce095b888fe6d16810d9c85aff4d6641982c2499d1')
    assert merkle([s1, s2], double_sha256) == mr
    mr = h2b_rev('4f4c8c201e85a64a410cc7272c77f443d8b8df3289c67af9dab1e87d9e61985e')
    s1 = h2b_rev('f484b014c55a43b409a59de3177d49a88149b4473f9a7b81ea9e3535d4b7a301')
    s2 = h2b_rev('7b5636e9bc6ec910157e88702699bc7892675e8b489632c9166764341a4d4cfe')
    s3 = h2b_rev('f8b02b8bf25cb6008e38eb5453a22c502f37e76375a86a0f0cfaa3c301aa1209')
    assert merkle([s1, s2, s3], double_sha256) == mr
